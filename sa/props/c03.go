package props

import (
	"go/constant"
	"fmt"
	"go/ast"
	"go/token"
	"go/types"
	"os"
	"sort"
	"strings"

	"golang.org/x/tools/go/cfg"

	"verif/sa/core"
)

func init() { register("C03", c03) }

const (
	c03Compile = "internal/runtime/compiler.(*Compiler).Compile"
)

// ---------------------------------------------------------------------------
// Scope: declared functions of the module reachable from Compile.
// ---------------------------------------------------------------------------

// c03Scope is the set of declared functions (with their literals) that can run
// under (*Compiler).Compile.  Edges: every use of a module function's name
// (call, function value, method value), interface method calls resolved to the
// methods of the named types that are instantiated in the packages touched so
// far (RTA), and String/Error/Format/GoString methods of values handed to
// formatting functions outside the module.
type c03Scope struct {
	prog    *core.Prog
	in      map[*core.Func]bool
	order   []*core.Func
	via     map[*core.Func]string
	touched map[*types.Package]bool
}

func c03IsIfaceMethod(fn *types.Func) (*types.Interface, bool) {
	sig, _ := fn.Type().(*types.Signature)
	if sig == nil || sig.Recv() == nil {
		return nil, false
	}
	it, ok := sig.Recv().Type().Underlying().(*types.Interface)
	return it, ok
}

func c03Reach(c *core.Check, root *core.Func) *c03Scope {
	p := c.Prog
	s := &c03Scope{prog: p, in: map[*core.Func]bool{}, via: map[*core.Func]string{}, touched: map[*types.Package]bool{}}
	type ifaceCall struct {
		it   *types.Interface
		name string
		from string
	}
	var pend []ifaceCall
	seenPend := map[string]bool{}
	var work []*core.Func
	add := func(f *core.Func, from string) {
		if f == nil {
			return
		}
		if f.Lit != nil {
			f = p.FuncOf[f.Decl]
		}
		if f == nil || s.in[f] {
			return
		}
		s.in[f] = true
		s.via[f] = from
		s.order = append(s.order, f)
		s.touched[f.Pkg.Types] = true
		work = append(work, f)
	}
	addIface := func(it *types.Interface, name, from string) {
		k := fmt.Sprintf("%p|%s", it, name)
		if seenPend[k] {
			return
		}
		seenPend[k] = true
		pend = append(pend, ifaceCall{it, name, from})
	}
	scan := func(f *core.Func) {
		info := f.Info()
		ast.Inspect(f.Decl.Body, func(n ast.Node) bool {
			switch x := n.(type) {
			case *ast.Ident:
				if fn, ok := info.Uses[x].(*types.Func); ok {
					if it, isI := c03IsIfaceMethod(fn); isI {
						addIface(it, fn.Name(), f.Key)
					} else if cf := p.ByObj[fn.Origin()]; cf != nil {
						add(cf, f.Key)
					}
				}
			case *ast.CallExpr:
				// formatting: methods called through reflection by fmt and friends
				callee, _ := c03CalleeObj(info, x).(*types.Func)
				if callee == nil || callee.Pkg() == nil || strings.HasPrefix(callee.Pkg().Path(), core.ModPath) {
					return true
				}
				sig, _ := callee.Type().(*types.Signature)
				if sig == nil {
					return true
				}
				for i, a := range x.Args {
					var pt types.Type
					switch {
					case sig.Variadic() && i >= sig.Params().Len()-1:
						if sl, ok := sig.Params().At(sig.Params().Len() - 1).Type().(*types.Slice); ok {
							pt = sl.Elem()
						}
					case i < sig.Params().Len():
						pt = sig.Params().At(i).Type()
					}
					if pt == nil {
						continue
					}
					if it, ok := pt.Underlying().(*types.Interface); !ok || it.NumMethods() > 1 {
						continue
					}
					at := info.TypeOf(a)
					if at == nil {
						continue
					}
					for _, m := range []string{"String", "Error", "Format", "GoString"} {
						if it, ok := at.Underlying().(*types.Interface); ok {
							for k := 0; k < it.NumMethods(); k++ {
								if it.Method(k).Name() == m {
									addIface(it, m, f.Key+" (formatted)")
								}
							}
							continue
						}
						for _, t := range []types.Type{at, types.NewPointer(at)} {
							if sel := types.NewMethodSet(t).Lookup(nil, m); sel != nil {
								if fn, ok := sel.Obj().(*types.Func); ok {
									if cf := p.ByObj[fn.Origin()]; cf != nil {
										add(cf, f.Key+" (formatted)")
									}
								}
							}
						}
					}
				}
			}
			return true
		})
	}
	add(root, "root")
	for {
		for len(work) > 0 {
			f := work[0]
			work = work[1:]
			scan(f)
		}
		// resolve interface calls against the types instantiated in touched packages
		inst := c03Instantiated(p, s.touched)
		n0 := len(s.order)
		for _, ic := range pend {
			for _, nt := range inst {
				for _, t := range []types.Type{nt, types.NewPointer(nt)} {
					if !types.Implements(t, ic.it) {
						continue
					}
					if sel := types.NewMethodSet(t).Lookup(nt.Obj().Pkg(), ic.name); sel != nil {
						if fn, ok := sel.Obj().(*types.Func); ok {
							if cf := p.ByObj[fn.Origin()]; cf != nil {
								add(cf, ic.from+" (dynamic "+ic.name+")")
							}
						}
					}
					break
				}
			}
		}
		if len(s.order) == n0 && len(work) == 0 {
			break
		}
	}
	sort.Slice(s.order, func(i, j int) bool { return s.order[i].Key < s.order[j].Key })
	return s
}

func c03CalleeObj(info *types.Info, call *ast.CallExpr) types.Object {
	switch f := core.Unparen(call.Fun).(type) {
	case *ast.Ident:
		return info.Uses[f]
	case *ast.SelectorExpr:
		return info.Uses[f.Sel]
	}
	return nil
}

// c03Instantiated lists the named types of the touched module packages that
// can have values: non-struct named types, and struct types for which a
// composite literal or new(T) occurs in a touched package.
func c03Instantiated(p *core.Prog, touched map[*types.Package]bool) []*types.Named {
	lit := map[*types.Named]bool{}
	for _, pk := range p.All {
		if !touched[pk.Types] {
			continue
		}
		for _, file := range pk.Syntax {
			ast.Inspect(file, func(n ast.Node) bool {
				switch x := n.(type) {
				case *ast.CompositeLit:
					if nt := c03Named(pk.TypesInfo.TypeOf(x)); nt != nil {
						lit[nt] = true
					}
				case *ast.CallExpr:
					if id, ok := x.Fun.(*ast.Ident); ok && id.Name == "new" && len(x.Args) == 1 {
						if nt := c03Named(pk.TypesInfo.TypeOf(x.Args[0])); nt != nil {
							lit[nt] = true
						}
					}
				}
				return true
			})
		}
	}
	var out []*types.Named
	for _, pk := range p.All {
		if !touched[pk.Types] {
			continue
		}
		sc := pk.Types.Scope()
		for _, name := range sc.Names() {
			tn, ok := sc.Lookup(name).(*types.TypeName)
			if !ok || tn.IsAlias() {
				continue
			}
			nt, ok := tn.Type().(*types.Named)
			if !ok {
				continue
			}
			if _, isI := nt.Underlying().(*types.Interface); isI {
				continue
			}
			if _, isS := nt.Underlying().(*types.Struct); isS && !lit[nt] {
				continue
			}
			out = append(out, nt)
		}
	}
	return out
}

func c03Named(t types.Type) *types.Named {
	if t == nil {
		return nil
	}
	if p, ok := t.(*types.Pointer); ok {
		t = p.Elem()
	}
	nt, _ := t.(*types.Named)
	if nt != nil && nt.Obj().Pkg() != nil && strings.HasPrefix(nt.Obj().Pkg().Path(), core.ModPath) {
		return nt
	}
	return nil
}

// bodies lists the function bodies (declaration and literals) in scope.
func (s *c03Scope) bodies() []*core.Func {
	var out []*core.Func
	for _, f := range s.order {
		out = append(out, f)
		out = append(out, f.Lits...)
	}
	return out
}

// ---------------------------------------------------------------------------
// Sites
// ---------------------------------------------------------------------------

type c03Site struct {
	F    *core.Func
	Kind string // panic, assert, index, slice, div
	N    ast.Node
	X    ast.Expr // asserted / indexed / divisor expression
	Key  string
}

func c03Sites(xc *c03Ctx) []*c03Site {
	var out []*c03Site
	for _, f := range xc.sc.bodies() {
		info := f.Info()
		commaOk := map[*ast.TypeAssertExpr]bool{}
		var local []*c03Site
		core.InspectNoLit(f.Body, func(n ast.Node) bool {
			if lit, ok := n.(*ast.FuncLit); ok && lit != f.Lit {
				return false
			}
			switch x := n.(type) {
			case *ast.AssignStmt:
				if len(x.Lhs) == 2 && len(x.Rhs) == 1 {
					if ta, ok := core.Unparen(x.Rhs[0]).(*ast.TypeAssertExpr); ok {
						commaOk[ta] = true
					}
				}
			case *ast.ValueSpec:
				if len(x.Names) == 2 && len(x.Values) == 1 {
					if ta, ok := core.Unparen(x.Values[0]).(*ast.TypeAssertExpr); ok {
						commaOk[ta] = true
					}
				}
			case *ast.CallExpr:
				if id, ok := core.Unparen(x.Fun).(*ast.Ident); ok && id.Name == "panic" {
					if _, isB := info.Uses[id].(*types.Builtin); isB {
						local = append(local, &c03Site{F: f, Kind: "panic", N: x, Key: "panic(" + c03Short(exprStr(x.Args[0])) + ")"})
					}
				}
			case *ast.TypeAssertExpr:
				if x.Type == nil || commaOk[x] {
					return true
				}
				local = append(local, &c03Site{F: f, Kind: "assert", N: x, X: x.X, Key: exprStr(x.X) + ".(" + exprStr(x.Type) + ")"})
			case *ast.IndexExpr:
				xt := info.TypeOf(x.X)
				if xt == nil {
					return true
				}
				switch u := xt.Underlying().(type) {
				case *types.Slice, *types.Basic:
					if _, isB := u.(*types.Basic); isB && u.(*types.Basic).Info()&types.IsString == 0 {
						return true
					}
				case *types.Pointer:
					if _, isArr := u.Elem().Underlying().(*types.Array); !isArr {
						return true
					}
					return true // constant index into an array is checked by the compiler
				default:
					return true
				}
				if c03ConstOrLenMinus(info, xc.resolveIndex(f, x.Index)) || xc.lenForm(f, x.Index) {
					local = append(local, &c03Site{F: f, Kind: "index", N: x, X: x.X, Key: exprStr(x.X) + "[" + exprStr(x.Index) + "]"})
				}
			case *ast.SliceExpr:
				xt := info.TypeOf(x.X)
				if xt == nil {
					return true
				}
				if _, isArr := xt.Underlying().(*types.Array); isArr {
					return true
				}
				for _, ix := range []ast.Expr{x.Low, x.High, x.Max} {
					if ix == nil {
						continue
					}
					if v, ok := constInt(info, ix); ok && v == 0 {
						continue
					}
					if c03ConstOrLenMinus(info, ix) {
						local = append(local, &c03Site{F: f, Kind: "slice", N: x, X: x.X, Key: exprStr(x)})
						break
					}
				}
			case *ast.BinaryExpr:
				if x.Op != token.QUO && x.Op != token.REM {
					return true
				}
				if t, ok := info.TypeOf(x).Underlying().(*types.Basic); !ok || t.Info()&types.IsInteger == 0 {
					return true
				}
				if tv, ok := info.Types[x.Y]; ok && tv.Value != nil {
					return true // a constant zero divisor does not compile
				}
				local = append(local, &c03Site{F: f, Kind: "div", N: x, X: x.Y, Key: exprStr(x.X) + " " + x.Op.String() + " " + exprStr(x.Y)})
			}
			return true
		})
		sort.SliceStable(local, func(i, j int) bool { return local[i].N.Pos() < local[j].N.Pos() })
		cnt := map[string]int{}
		for _, st := range local {
			k := f.Key + "|" + st.Kind + "|" + st.Key
			cnt[k]++
			st.Key = fmt.Sprintf("%s#%d", k, cnt[k])
		}
		out = append(out, local...)
	}
	return out
}

func c03Short(s string) string {
	s = strings.Join(strings.Fields(s), " ")
	if len(s) > 60 {
		s = s[:60] + "…"
	}
	return s
}

// c03ConstOrLenMinus: the index is a constant, or len(x)-k / len(x).
func c03ConstOrLenMinus(info *types.Info, e ast.Expr) bool {
	if _, ok := constInt(info, e); ok {
		return true
	}
	if be, ok := core.Unparen(e).(*ast.BinaryExpr); ok && be.Op == token.SUB {
		if call, ok := core.Unparen(be.X).(*ast.CallExpr); ok {
			if id, ok := call.Fun.(*ast.Ident); ok && id.Name == "len" {
				_, isC := constInt(info, be.Y)
				return isC
			}
		}
	}
	return false
}

// ---------------------------------------------------------------------------
// Shared context
// ---------------------------------------------------------------------------

type c03Ctx struct {
	c       *core.Check
	sc      *c03Scope
	parents map[*ast.FuncDecl]map[ast.Node]ast.Node
	solver  *c03Solver
	ship    []*core.Func // every shipped function body (declarations and literals)
	calls   map[*types.Func][]c03CallSite
	valued  map[*types.Func]bool // module functions used as values (not only called)
	gram    *yGrammar
	gramWhy string
	prods   []c03Prod
	prodWhy string
	prodOK  bool
}

type c03CallSite struct {
	F    *core.Func
	Call *ast.CallExpr
}

func c03NewCtx(c *core.Check, sc *c03Scope) *c03Ctx {
	x := &c03Ctx{c: c, sc: sc, parents: map[*ast.FuncDecl]map[ast.Node]ast.Node{}, calls: map[*types.Func][]c03CallSite{}, valued: map[*types.Func]bool{}}
	x.solver = &c03Solver{cur: map[string]*c03TS{}, eval: map[string]func() *c03TS{}}
	x.ship = shipped(c)
	for _, f := range x.ship {
		info := f.Info()
		inCall := map[*ast.Ident]bool{}
		core.InspectNoLit(f.Body, func(n ast.Node) bool {
			if lit, ok := n.(*ast.FuncLit); ok && lit != f.Lit {
				return false
			}
			if call, ok := n.(*ast.CallExpr); ok {
				var id *ast.Ident
				switch fn := core.Unparen(call.Fun).(type) {
				case *ast.Ident:
					id = fn
				case *ast.SelectorExpr:
					id = fn.Sel
				}
				if id != nil {
					if o, ok := info.Uses[id].(*types.Func); ok {
						inCall[id] = true
						x.calls[o.Origin()] = append(x.calls[o.Origin()], c03CallSite{f, call})
					}
				}
			}
			return true
		})
		core.InspectNoLit(f.Body, func(n ast.Node) bool {
			if lit, ok := n.(*ast.FuncLit); ok && lit != f.Lit {
				return false
			}
			if id, ok := n.(*ast.Ident); ok && !inCall[id] {
				if o, ok := info.Uses[id].(*types.Func); ok {
					x.valued[o.Origin()] = true
				}
			}
			return true
		})
	}
	// package-level initialisers may also take function values
	for _, pk := range c.Prog.All {
		for _, file := range pk.Syntax {
			for _, d := range file.Decls {
				gd, ok := d.(*ast.GenDecl)
				if !ok {
					continue
				}
				ast.Inspect(gd, func(n ast.Node) bool {
					if id, ok := n.(*ast.Ident); ok {
						if o, ok := pk.TypesInfo.Uses[id].(*types.Func); ok {
							x.valued[o.Origin()] = true
						}
					}
					return true
				})
			}
		}
	}
	return x
}

func (x *c03Ctx) parentsOf(f *core.Func) map[ast.Node]ast.Node {
	if m, ok := x.parents[f.Decl]; ok {
		return m
	}
	m := map[ast.Node]ast.Node{}
	var stack []ast.Node
	ast.Inspect(f.Decl, func(n ast.Node) bool {
		if n == nil {
			stack = stack[:len(stack)-1]
			return false
		}
		if len(stack) > 0 {
			m[n] = stack[len(stack)-1]
		}
		stack = append(stack, n)
		return true
	})
	x.parents[f.Decl] = m
	return m
}

// rootObj returns the variable at the root of an access path (x in x.a.b[i]).
func c03RootObj(info *types.Info, e ast.Expr) types.Object {
	for {
		switch v := core.Unparen(e).(type) {
		case *ast.Ident:
			return identObj(info, v)
		case *ast.SelectorExpr:
			e = v.X
		case *ast.IndexExpr:
			e = v.X
		case *ast.StarExpr:
			e = v.X
		case *ast.TypeAssertExpr:
			e = v.X
		case *ast.CallExpr:
			return nil
		default:
			return nil
		}
	}
}

// samePath: the two expressions denote the same access path on the same root variable.
func c03SamePath(info *types.Info, a, b ast.Expr) bool {
	ra, rb := c03RootObj(info, a), c03RootObj(info, b)
	return ra != nil && ra == rb && exprStr(core.Unparen(a)) == exprStr(core.Unparen(b))
}

// ---------------------------------------------------------------------------
// Facts: conditions that hold at a node by the block structure of the function
// (enclosing if/switch/for/&&/|| and earlier guards whose body leaves).
// ---------------------------------------------------------------------------

type c03Fact struct {
	Cond ast.Expr   // boolean condition (nil for tag facts)
	Val  bool       // its truth value at the node
	Tag  ast.Expr   // switch tag (tag facts)
	In   []ast.Expr // Val=true: tag equals one of In; Val=false: tag equals none of In
	At   token.Pos  // where the fact is established (end of the test)
	Loop ast.Node   // for-condition facts: the loop
}

// c03Leaves: control does not continue to the statement after s.
func c03Leaves(info *types.Info, s ast.Stmt) bool {
	switch v := s.(type) {
	case *ast.ReturnStmt:
		return true
	case *ast.BranchStmt:
		return v.Tok != token.FALLTHROUGH
	case *ast.ExprStmt:
		if call, ok := v.X.(*ast.CallExpr); ok {
			if id, ok := core.Unparen(call.Fun).(*ast.Ident); ok && id.Name == "panic" {
				_, isB := info.Uses[id].(*types.Builtin)
				return isB
			}
		}
	case *ast.BlockStmt:
		return len(v.List) > 0 && c03Leaves(info, v.List[len(v.List)-1])
	case *ast.IfStmt:
		if v.Else == nil {
			return false
		}
		return c03Leaves(info, v.Body) && c03Leaves(info, v.Else)
	}
	return false
}

func (x *c03Ctx) factsAt(f *core.Func, n ast.Node) (facts []c03Fact, why string) {
	par := x.parentsOf(f)
	info := f.Info()
	var stop ast.Node = f.Decl
	if f.Lit != nil {
		stop = f.Lit
	}
	child := n
	for p := par[n]; p != nil && child != stop; child, p = p, par[p] {
		switch v := p.(type) {
		case *ast.IfStmt:
			if child == ast.Node(v.Body) {
				facts = append(facts, c03Fact{Cond: v.Cond, Val: true, At: v.Cond.End()})
			} else if v.Else != nil && child == ast.Node(v.Else) {
				facts = append(facts, c03Fact{Cond: v.Cond, Val: false, At: v.Cond.End()})
			}
		case *ast.ForStmt:
			if child == ast.Node(v.Body) && v.Cond != nil {
				facts = append(facts, c03Fact{Cond: v.Cond, Val: true, At: v.Cond.End(), Loop: v})
			}
		case *ast.BinaryExpr:
			if child == ast.Node(v.Y) {
				if v.Op == token.LAND {
					facts = append(facts, c03Fact{Cond: v.X, Val: true, At: v.X.End()})
				} else if v.Op == token.LOR {
					facts = append(facts, c03Fact{Cond: v.X, Val: false, At: v.X.End()})
				}
			}
		case *ast.CaseClause:
			inBody := false
			for _, s := range v.Body {
				if ast.Node(s) == child {
					inBody = true
				}
			}
			if !inBody {
				break
			}
			blk, _ := par[v].(*ast.BlockStmt)
			sw, _ := par[blk].(*ast.SwitchStmt)
			if sw == nil {
				break // type switch: handled by the typing rules
			}
			// a clause entered by fallthrough carries no condition
			idx := -1
			for i, cl := range blk.List {
				if cl == ast.Stmt(v) {
					idx = i
				}
			}
			if idx > 0 {
				prev := blk.List[idx-1].(*ast.CaseClause)
				if k := len(prev.Body); k > 0 {
					if br, ok := prev.Body[k-1].(*ast.BranchStmt); ok && br.Tok == token.FALLTHROUGH {
						break
					}
				}
			}
			at := sw.Body.Lbrace
			if sw.Tag != nil {
				if v.List != nil {
					facts = append(facts, c03Fact{Tag: sw.Tag, In: v.List, Val: true, At: at})
				} else {
					var all []ast.Expr
					for _, cl := range blk.List {
						all = append(all, cl.(*ast.CaseClause).List...)
					}
					facts = append(facts, c03Fact{Tag: sw.Tag, In: all, Val: false, At: at})
				}
			} else {
				if len(v.List) == 1 {
					facts = append(facts, c03Fact{Cond: v.List[0], Val: true, At: v.List[0].End()})
				}
				// earlier clauses were not taken; for default every other clause
				for i, cl := range blk.List {
					cc := cl.(*ast.CaseClause)
					if cc == v || (v.List != nil && i > idx) {
						continue
					}
					for _, e := range cc.List {
						facts = append(facts, c03Fact{Cond: e, Val: false, At: at})
					}
				}
			}
		}
		// earlier guards in the same statement list
		var list []ast.Stmt
		switch v := p.(type) {
		case *ast.BlockStmt:
			list = v.List
		case *ast.CaseClause:
			list = v.Body
		}
		for _, s := range list {
			if ast.Node(s) == child {
				break
			}
			if sw, isSw := s.(*ast.SwitchStmt); isSw && sw.Init == nil {
				// a switch used as a guard: clauses that leave exclude their cases afterwards
				for _, cl := range sw.Body.List {
					cc := cl.(*ast.CaseClause)
					if cc.List == nil || len(cc.Body) == 0 || !c03Leaves(info, cc.Body[len(cc.Body)-1]) {
						continue
					}
					if sw.Tag != nil {
						facts = append(facts, c03Fact{Tag: sw.Tag, In: cc.List, Val: false, At: sw.End()})
					} else {
						for _, e := range cc.List {
							facts = append(facts, c03Fact{Cond: e, Val: false, At: sw.End()})
						}
					}
				}
				continue
			}
			is, ok := s.(*ast.IfStmt)
			if !ok {
				continue
			}
			switch {
			case c03Leaves(info, is.Body) && is.Else == nil:
				facts = append(facts, c03Fact{Cond: is.Cond, Val: false, At: is.End()})
			case c03Leaves(info, is.Body) && is.Else != nil:
				// after the statement only the else branch continues
				facts = append(facts, c03Fact{Cond: is.Cond, Val: false, At: is.End()})
			case is.Else != nil && c03Leaves(info, is.Else):
				facts = append(facts, c03Fact{Cond: is.Cond, Val: true, At: is.End()})
			}
		}
		if _, isLbl := p.(*ast.LabeledStmt); isLbl && x.labelJumpedTo(f, p.(*ast.LabeledStmt)) {
			return nil, "a goto enters the enclosing labelled statement"
		}
	}
	return facts, ""
}

// labelJumpedTo: the label is the target of a goto (block-structured reasoning is then unsound).
func (x *c03Ctx) labelJumpedTo(f *core.Func, ls *ast.LabeledStmt) bool {
	found := false
	ast.Inspect(f.Decl, func(n ast.Node) bool {
		if br, ok := n.(*ast.BranchStmt); ok && br.Tok == token.GOTO && br.Label != nil && br.Label.Name == ls.Label.Name {
			found = true
		}
		return !found
	})
	return found
}

// c03Assigned: some statement positioned in (from, to) of f's declaration, or anywhere inside a
// loop that contains `to` but not `from`, assigns to the variable obj or to a path through field fld.
func (x *c03Ctx) assignedBetween(f *core.Func, root types.Object, path string, from, to token.Pos) bool {
	info := f.Info()
	par := x.parentsOf(f)
	hit := false
	check := func(lhs ast.Expr, at ast.Node) {
		if hit {
			return
		}
		lhs = core.Unparen(lhs)
		if c03RootObj(info, lhs) != root {
			return
		}
		lp := exprStr(lhs)
		// an assignment to the path, a prefix of it, or through it
		if !(lp == path || strings.HasPrefix(path, lp+".") || strings.HasPrefix(path, lp+"[") || strings.HasPrefix(lp, path+".") || strings.HasPrefix(lp, path+"[")) {
			return
		}
		pos := at.End() // an assignment takes effect after its right-hand side is evaluated
		switch a := at.(type) {
		case *ast.RangeStmt:
			pos = a.Body.Lbrace
		case *ast.UnaryExpr:
			pos = a.Pos()
		}
		if pos > from && pos < to {
			hit = true
			return
		}
		// inside a loop enclosing `to` whose body is re-entered
		for p := par[at]; p != nil; p = par[p] {
			switch l := p.(type) {
			case *ast.ForStmt, *ast.RangeStmt:
				if l.Pos() <= to && to < l.End() && !(l.Pos() <= from && from < l.End()) {
					hit = true
				}
				if fs, ok := l.(*ast.ForStmt); ok && fs.Cond != nil && from == fs.Cond.End() && pos < to {
					hit = true
				}
			}
		}
	}
	ast.Inspect(f.Decl, func(n ast.Node) bool {
		switch v := n.(type) {
		case *ast.AssignStmt:
			for _, l := range v.Lhs {
				check(l, v)
			}
		case *ast.IncDecStmt:
			check(v.X, v)
		case *ast.RangeStmt:
			if v.Key != nil {
				check(v.Key, v)
			}
			if v.Value != nil {
				check(v.Value, v)
			}
		case *ast.UnaryExpr:
			if v.Op == token.AND {
				check(v.X, v) // address taken: treated as a possible write
			}
		}
		return !hit
	})
	return hit
}

// lenOperand: e is len(X) or a local defined once as len(X); returns X.
func (x *c03Ctx) lenOperand(f *core.Func, e ast.Expr) ast.Expr {
	X, off := x.lenLinear(f, e, 0)
	if off != 0 {
		return nil
	}
	return X
}

// lenLinear: e equals len(X) + off (through locals defined once); X is nil otherwise.
func (x *c03Ctx) lenLinear(f *core.Func, e ast.Expr, depth int) (ast.Expr, int64) {
	if depth > 4 {
		return nil, 0
	}
	e = core.Unparen(e)
	switch v := e.(type) {
	case *ast.CallExpr:
		if id, ok := core.Unparen(v.Fun).(*ast.Ident); ok && id.Name == "len" && len(v.Args) == 1 {
			if _, isB := f.Info().Uses[id].(*types.Builtin); isB {
				return v.Args[0], 0
			}
		}
	case *ast.BinaryExpr:
		if v.Op == token.SUB || v.Op == token.ADD {
			if k, ok := constInt(f.Info(), v.Y); ok {
				X, off := x.lenLinear(f, v.X, depth+1)
				if X != nil {
					if v.Op == token.SUB {
						return X, off - k
					}
					return X, off + k
				}
			}
		}
	case *ast.Ident:
		if _, isC := constInt(f.Info(), v); isC {
			return nil, 0
		}
		if def := x.singleDef(f, identObj(f.Info(), v)); def != nil {
			return x.lenLinear(f, def, depth+1)
		}
	}
	return nil, 0
}

// lenForm: the index is len(X)-k for some X and k >= 1, possibly through locals.
func (x *c03Ctx) lenForm(f *core.Func, e ast.Expr) bool {
	X, off := x.lenLinear(f, e, 0)
	return X != nil && off < 0
}

// singleDef returns the only expression ever assigned to the local obj in f, or nil.
func (x *c03Ctx) singleDef(f *core.Func, obj types.Object) ast.Expr {
	if obj == nil {
		return nil
	}
	info := f.Info()
	var def ast.Expr
	n := 0
	ast.Inspect(f.Decl, func(nd ast.Node) bool {
		switch v := nd.(type) {
		case *ast.AssignStmt:
			for i, l := range v.Lhs {
				if identObj(info, l) == obj {
					n++
					if len(v.Rhs) == len(v.Lhs) && v.Tok != token.ADD_ASSIGN && v.Tok != token.SUB_ASSIGN {
						def = v.Rhs[i]
					} else {
						n++
					}
				}
			}
		case *ast.IncDecStmt:
			if identObj(info, v.X) == obj {
				n += 2
			}
		case *ast.ValueSpec:
			for i, nm := range v.Names {
				if info.Defs[nm] == obj {
					n++
					if i < len(v.Values) {
						def = v.Values[i]
					} else {
						n++
					}
				}
			}
		case *ast.RangeStmt:
			if (v.Key != nil && identObj(info, v.Key) == obj) || (v.Value != nil && identObj(info, v.Value) == obj) {
				n += 2
			}
		case *ast.UnaryExpr:
			if v.Op == token.AND && identObj(info, v.X) == obj {
				n += 2
			}
		}
		return true
	})
	if n == 1 {
		return def
	}
	return nil
}

// minLen derives a lower bound of len(X) at node n from the facts.
func (x *c03Ctx) minLen(f *core.Func, n ast.Node, X ast.Expr) (lb int64, why string) {
	facts, w := x.factsAt(f, n)
	if w != "" {
		return 0, w
	}
	info := f.Info()
	root := c03RootObj(info, X)
	if root == nil {
		return 0, "not an access path"
	}
	path := exprStr(core.Unparen(X))
	var visit func(e ast.Expr, val bool, at token.Pos)
	bound := func(v int64, at token.Pos) {
		if v > lb && !x.assignedBetween(f, root, path, at, n.Pos()) {
			lb = v
		}
	}
	visit = func(e ast.Expr, val bool, at token.Pos) {
		e = core.Unparen(e)
		switch v := e.(type) {
		case *ast.UnaryExpr:
			if v.Op == token.NOT {
				visit(v.X, !val, at)
			}
		case *ast.BinaryExpr:
			switch v.Op {
			case token.LAND:
				if val {
					visit(v.X, true, at)
					visit(v.Y, true, at)
				}
				return
			case token.LOR:
				if !val {
					visit(v.X, false, at)
					visit(v.Y, false, at)
				}
				return
			}
			op := v.Op
			l, r := v.X, v.Y
			k, isC := constInt(info, r)
			lx, off := x.lenLinear(f, l, 0)
			if !isC || lx == nil {
				// constant on the left
				k, isC = constInt(info, l)
				lx, off = x.lenLinear(f, r, 0)
				if !isC || lx == nil {
					return
				}
				op = map[token.Token]token.Token{token.LSS: token.GTR, token.GTR: token.LSS, token.LEQ: token.GEQ, token.GEQ: token.LEQ, token.EQL: token.EQL, token.NEQ: token.NEQ}[op]
			}
			if !c03SamePath(info, lx, X) {
				return
			}
			k -= off // len(X)+off OP k  <=>  len(X) OP k-off
			if !val {
				op = map[token.Token]token.Token{token.LSS: token.GEQ, token.GTR: token.LEQ, token.LEQ: token.GTR, token.GEQ: token.LSS, token.EQL: token.NEQ, token.NEQ: token.EQL}[op]
			}
			switch op {
			case token.GTR:
				bound(k+1, at)
			case token.GEQ, token.EQL:
				bound(k, at)
			case token.NEQ:
				if k == 0 {
					bound(1, at)
				}
			}
		}
	}
	for _, ft := range facts {
		if ft.Cond != nil {
			visit(ft.Cond, ft.Val, ft.At)
			continue
		}
		lx := x.lenOperand(f, ft.Tag)
		if lx == nil || !c03SamePath(info, lx, X) {
			continue
		}
		var ks []int64
		all := true
		for _, e := range ft.In {
			k, ok := constInt(info, e)
			all = all && ok
			ks = append(ks, k)
		}
		if !all || len(ks) == 0 {
			continue
		}
		if ft.Val {
			m := ks[0]
			for _, k := range ks {
				if k < m {
					m = k
				}
			}
			bound(m, ft.At)
		} else {
			has := map[int64]bool{}
			for _, k := range ks {
				has[k] = true
			}
			m := int64(0)
			for has[m] {
				m++
			}
			bound(m, ft.At)
		}
	}
	return lb, ""
}

// nonZero: the facts at n exclude zero for the integer expression D.
func (x *c03Ctx) nonZero(f *core.Func, n ast.Node, D ast.Expr) bool {
	facts, w := x.factsAt(f, n)
	if w != "" {
		return false
	}
	info := f.Info()
	root := c03RootObj(info, D)
	if root == nil {
		return false
	}
	path := exprStr(core.Unparen(D))
	ok := false
	var visit func(e ast.Expr, val bool, at token.Pos)
	visit = func(e ast.Expr, val bool, at token.Pos) {
		switch v := core.Unparen(e).(type) {
		case *ast.UnaryExpr:
			if v.Op == token.NOT {
				visit(v.X, !val, at)
			}
		case *ast.BinaryExpr:
			if v.Op == token.LAND && val || v.Op == token.LOR && !val {
				visit(v.X, val, at)
				visit(v.Y, val, at)
				return
			}
			for _, pr := range [][2]ast.Expr{{v.X, v.Y}, {v.Y, v.X}} {
				k, isC := constInt(info, pr[1])
				if !isC || k != 0 || !c03SamePath(info, pr[0], D) {
					continue
				}
				if (v.Op == token.EQL && !val) || (v.Op == token.NEQ && val) {
					if !x.assignedBetween(f, root, path, at, n.Pos()) {
						ok = true
					}
				}
			}
		}
	}
	for _, ft := range facts {
		if ft.Cond != nil {
			visit(ft.Cond, ft.Val, ft.At)
			continue
		}
		if !c03SamePath(info, ft.Tag, D) || x.assignedBetween(f, root, path, ft.At, n.Pos()) {
			continue
		}
		hasZero, allConst := false, true
		for _, e := range ft.In {
			k, isC := constInt(info, e)
			allConst = allConst && isC
			hasZero = hasZero || (isC && k == 0)
		}
		if (!ft.Val && hasZero) || (ft.Val && allConst && !hasZero && len(ft.In) > 0) {
			ok = true
		}
	}
	return ok
}

// ---------------------------------------------------------------------------
// Dynamic-type provenance: which concrete types (or nil) an interface-typed
// expression can hold, computed as the least fixpoint of a small equation
// system over fields, parameters, function results and visitor results.
// ---------------------------------------------------------------------------

// c03TS is a set of dynamic types; "nil" stands for the nil interface.
// Unknown != "" means the set could not be bounded (with the reason).
type c03TS struct {
	M       map[string]types.Type
	Unknown string
}

func c03Empty() *c03TS                 { return &c03TS{M: map[string]types.Type{}} }
func c03Unknown(why string) *c03TS     { return &c03TS{M: map[string]types.Type{}, Unknown: why} }
func c03One(t types.Type) *c03TS       { s := c03Empty(); s.add(t); return s }
func c03Nil() *c03TS                   { s := c03Empty(); s.M["nil"] = nil; return s }
func (s *c03TS) add(t types.Type)      { s.M[c03TypeKey(t)] = t }
func (s *c03TS) has(t types.Type) bool { _, ok := s.M[c03TypeKey(t)]; return ok }
func (s *c03TS) hasNil() bool          { _, ok := s.M["nil"]; return ok }
func (s *c03TS) union(o *c03TS) *c03TS {
	if o == nil {
		return s
	}
	for k, t := range o.M {
		s.M[k] = t
	}
	if s.Unknown == "" {
		s.Unknown = o.Unknown
	}
	return s
}
func (s *c03TS) equal(o *c03TS) bool {
	if (s.Unknown == "") != (o.Unknown == "") || len(s.M) != len(o.M) {
		return false
	}
	for k := range s.M {
		if _, ok := o.M[k]; !ok {
			return false
		}
	}
	return true
}
func (s *c03TS) String() string {
	ks := sortedKeys(s.M)
	r := "{" + strings.Join(ks, ", ") + "}"
	if s.Unknown != "" {
		r += " + unknown (" + s.Unknown + ")"
	}
	return r
}
func (s *c03TS) without(key string) *c03TS {
	r := c03Empty()
	r.Unknown = s.Unknown
	for k, t := range s.M {
		if k != key {
			r.M[k] = t
		}
	}
	return r
}

func c03TypeKey(t types.Type) string {
	return types.TypeString(t, func(p *types.Package) string { return p.Name() })
}

type c03Solver struct {
	cur   map[string]*c03TS
	eval  map[string]func() *c03TS
	order []string
	dirty bool
}

func (s *c03Solver) get(key string, mk func() *c03TS) *c03TS {
	if v, ok := s.cur[key]; ok {
		return v
	}
	s.cur[key] = c03Empty()
	s.eval[key] = mk
	s.order = append(s.order, key)
	s.dirty = true
	return s.cur[key]
}

// solve evaluates top until no equation changes.
func (s *c03Solver) solve(top func() *c03TS) *c03TS {
	for iter := 0; iter < 50; iter++ {
		s.dirty = false
		r := top()
		for i := 0; i < len(s.order); i++ {
			k := s.order[i]
			n := s.eval[k]()
			if !n.equal(s.cur[k]) {
				if os.Getenv("C03_DEBUG") == "2" && iter > 40 {
					fmt.Printf("SOLVER iter=%d %s: %s -> %s\n", iter, k, s.cur[k], n)
				}
				s.cur[k] = n
				s.dirty = true
			}
		}
		if !s.dirty {
			return r
		}
	}
	return c03Unknown("provenance did not converge")
}

type c03Env map[types.Object]types.Type

func (x *c03Ctx) funcOfNode(n ast.Node) *core.Func {
	// innermost function body containing n
	var best *core.Func
	for _, f := range x.ship {
		if f.Body.Pos() <= n.Pos() && n.End() <= f.Body.End() && f.Pkg.Fset == x.c.Prog.Fset {
			if x.c.Prog.Fset.File(f.Body.Pos()) != x.c.Prog.Fset.File(n.Pos()) {
				continue
			}
			if best == nil || best.Body.Pos() <= f.Body.Pos() {
				best = f
			}
		}
	}
	return best
}

// dyn returns the possible dynamic types of e evaluated in f (current approximation).
func (x *c03Ctx) dyn(f *core.Func, e ast.Expr, env c03Env) *c03TS {
	info := f.Info()
	e = core.Unparen(e)
	if isNilIdent(info, e) {
		return c03Nil()
	}
	if id, ok := e.(*ast.Ident); ok && env != nil {
		if t, ok := env[identObj(info, id)]; ok {
			return c03One(t)
		}
	}
	st := info.TypeOf(e)
	if st == nil {
		return c03Unknown("untyped expression " + exprStr(e))
	}
	if _, isI := st.Underlying().(*types.Interface); !isI {
		return c03One(st)
	}
	switch v := e.(type) {
	case *ast.Ident:
		return x.dynIdent(f, v, env)
	case *ast.SelectorExpr:
		if sel := info.Selections[v]; sel != nil && sel.Kind() == types.FieldVal {
			fld := sel.Obj().(*types.Var)
			if ts := x.grammarValue(f, v); ts != nil {
				return ts
			}
			return x.solver.get("field:"+c03ObjKey(fld), func() *c03TS { return x.fieldWrites(fld) })
		}
		if o, ok := info.Uses[v.Sel].(*types.Var); ok && !o.IsField() {
			return x.solver.get("var:"+c03ObjKey(o), func() *c03TS { return x.globalWrites(o) })
		}
	case *ast.TypeAssertExpr:
		if v.Type != nil {
			return x.dyn(f, v.X, env)
		}
	case *ast.CallExpr:
		return x.dynCall(f, v, env)
	case *ast.IndexExpr:
		return c03Unknown("element of " + exprStr(v.X))
	}
	return c03Unknown("expression " + c03Short(exprStr(e)))
}

func c03ObjKey(o types.Object) string {
	pk := ""
	if o.Pkg() != nil {
		pk = o.Pkg().Path()
	}
	return fmt.Sprintf("%s.%s@%d", pk, o.Name(), o.Pos())
}

func (x *c03Ctx) dynIdent(f *core.Func, id *ast.Ident, env c03Env) *c03TS {
	info := f.Info()
	obj, _ := identObj(info, id).(*types.Var)
	if obj == nil {
		return c03Unknown("identifier " + id.Name)
	}
	if obj.Parent() == obj.Pkg().Scope() {
		return x.solver.get("var:"+c03ObjKey(obj), func() *c03TS { return x.globalWrites(obj) })
	}
	// the variable bound by a type switch clause
	decl := x.c.Prog.FuncOf[f.Decl]
	for cc, o := range info.Implicits {
		if o != types.Object(obj) {
			continue
		}
		clause, ok := cc.(*ast.CaseClause)
		if !ok {
			continue
		}
		if clause.List == nil {
			return c03Unknown("default clause of a type switch")
		}
		r := c03Empty()
		for _, te := range clause.List {
			if isNilIdent(info, te) {
				r.M["nil"] = nil
				continue
			}
			t := info.TypeOf(te)
			if _, isI := t.Underlying().(*types.Interface); isI {
				return c03Unknown("interface case in a type switch")
			}
			r.add(t)
		}
		return r
	}
	// parameter of the declaration or of a literal
	owner := x.paramOwner(decl, obj)
	if owner != nil {
		return x.solver.get("param:"+c03ObjKey(obj), func() *c03TS { return x.paramArgs(owner, obj) })
	}
	// local: every assignment
	return x.solver.get("local:"+c03ObjKey(obj), func() *c03TS { return x.localWrites(decl, obj) })
}

// paramOwner returns the declared function whose parameter obj is (nil for locals and literal parameters).
func (x *c03Ctx) paramOwner(decl *core.Func, obj *types.Var) *core.Func {
	if decl == nil || decl.Obj == nil {
		return nil
	}
	sig := decl.Obj.Type().(*types.Signature)
	for i := 0; i < sig.Params().Len(); i++ {
		if sig.Params().At(i) == obj {
			return decl
		}
	}
	return nil
}

// callersOf lists the calls that can invoke the declared function g: static calls and
// calls of an interface method that g implements.  ok=false if g is also used as a value.
func (x *c03Ctx) callersOf(g *core.Func) (sites []c03CallSite, ok bool) {
	if g.Obj == nil {
		return nil, false
	}
	if x.valued[g.Obj] {
		return nil, false
	}
	inScope := func(cs []c03CallSite) []c03CallSite {
		var out []c03CallSite
		for _, c := range cs {
			if d := x.c.Prog.FuncOf[c.F.Decl]; d != nil && x.sc.in[d] {
				out = append(out, c)
			}
		}
		return out
	}
	sites = append(sites, inScope(x.calls[g.Obj])...)
	sig := g.Obj.Type().(*types.Signature)
	if sig.Recv() != nil {
		rt := sig.Recv().Type()
		for callee, cs := range x.calls {
			if callee.Name() != g.Obj.Name() {
				continue
			}
			it, isI := c03IsIfaceMethod(callee)
			if !isI {
				continue
			}
			if types.Implements(rt, it) || types.Implements(types.NewPointer(rt), it) {
				sites = append(sites, inScope(cs)...)
			}
		}
	}
	return sites, true
}

func (x *c03Ctx) paramArgs(g *core.Func, obj *types.Var) *c03TS {
	if x.reassigned(g, obj) {
		return c03Unknown("parameter " + obj.Name() + " is reassigned")
	}
	sig := g.Obj.Type().(*types.Signature)
	idx := -1
	for i := 0; i < sig.Params().Len(); i++ {
		if sig.Params().At(i) == obj {
			idx = i
		}
	}
	if idx < 0 || (sig.Variadic() && idx == sig.Params().Len()-1) {
		return c03Unknown("variadic parameter")
	}
	sites, ok := x.callersOf(g)
	if !ok {
		return c03Unknown(g.Key + " is used as a function value")
	}
	if len(sites) == 0 {
		return c03Unknown("no caller of " + g.Key + " found")
	}
	r := c03Empty()
	for _, cs := range sites {
		if idx >= len(cs.Call.Args) {
			return c03Unknown("call with spread arguments")
		}
		r.union(x.dynAt(cs.F, cs.Call.Args[idx], cs.Call, nil))
	}
	return r
}

// reassigned: the variable is assigned (or its address taken) anywhere in the declaration.
func (x *c03Ctx) reassigned(f *core.Func, obj types.Object) bool {
	info := f.Info()
	hit := false
	ast.Inspect(f.Decl, func(n ast.Node) bool {
		switch v := n.(type) {
		case *ast.AssignStmt:
			for _, l := range v.Lhs {
				if id, ok := core.Unparen(l).(*ast.Ident); ok && info.Uses[id] == obj {
					hit = true
				}
			}
		case *ast.IncDecStmt:
			if identObj(info, v.X) == obj {
				hit = true
			}
		case *ast.UnaryExpr:
			if v.Op == token.AND && identObj(info, v.X) == obj {
				hit = true
			}
		case *ast.RangeStmt:
			if v.Tok == token.ASSIGN && ((v.Key != nil && identObj(info, v.Key) == obj) || (v.Value != nil && identObj(info, v.Value) == obj)) {
				hit = true
			}
		}
		return !hit
	})
	return hit
}

func (x *c03Ctx) localWrites(decl *core.Func, obj *types.Var) *c03TS {
	info := decl.Info()
	r := c03Empty()
	ast.Inspect(decl.Decl, func(n ast.Node) bool {
		switch v := n.(type) {
		case *ast.AssignStmt:
			for i, l := range v.Lhs {
				if identObj(info, l) != types.Object(obj) {
					continue
				}
				ff := x.funcAt(decl, v)
				switch {
				case len(v.Rhs) == len(v.Lhs):
					r.union(x.dynAt(ff, v.Rhs[i], v, nil))
				case len(v.Rhs) == 1:
					switch rhs := core.Unparen(v.Rhs[0]).(type) {
					case *ast.CallExpr:
						r.union(x.dynCallResult(ff, rhs, i))
					case *ast.TypeAssertExpr:
						if i == 0 {
							r.union(x.dyn(ff, rhs.X, nil))
							r.M["nil"] = nil
						}
					default:
						r.union(c03Unknown("tuple assignment"))
					}
				}
			}
		case *ast.ValueSpec:
			for i, nm := range v.Names {
				if info.Defs[nm] != types.Object(obj) {
					continue
				}
				switch {
				case len(v.Values) == 0:
					r.M["nil"] = nil
				case len(v.Values) == len(v.Names):
					r.union(x.dynAt(x.funcAt(decl, v), v.Values[i], v, nil))
				default:
					if call, ok := core.Unparen(v.Values[0]).(*ast.CallExpr); ok {
						r.union(x.dynCallResult(x.funcAt(decl, v), call, i))
					} else {
						r.union(c03Unknown("tuple declaration"))
					}
				}
			}
		case *ast.RangeStmt:
			if (v.Key != nil && identObj(info, v.Key) == types.Object(obj)) || (v.Value != nil && identObj(info, v.Value) == types.Object(obj)) {
				r.union(c03Unknown("range variable"))
			}
		case *ast.UnaryExpr:
			if v.Op == token.AND && identObj(info, v.X) == types.Object(obj) {
				r.union(c03Unknown("address of " + obj.Name() + " taken"))
			}
		case *ast.FuncType:
			// results and literal parameters
			for _, fl := range []*ast.FieldList{v.Params, v.Results} {
				if fl == nil {
					continue
				}
				for _, fd := range fl.List {
					for _, nm := range fd.Names {
						if info.Defs[nm] == types.Object(obj) {
							if fl == v.Results {
								r.M["nil"] = nil
							} else {
								r.union(c03Unknown("parameter of a function literal"))
							}
						}
					}
				}
			}
		}
		return true
	})
	return r
}

// funcAt returns the body (declaration or literal) of decl that contains n.
func (x *c03Ctx) funcAt(decl *core.Func, n ast.Node) *core.Func {
	best := decl
	for _, lf := range decl.Lits {
		if lf.Lit.Pos() <= n.Pos() && n.End() <= lf.Lit.End() {
			if best == decl || best.Lit.Pos() <= lf.Lit.Pos() {
				best = lf
			}
		}
	}
	return best
}

func (x *c03Ctx) globalWrites(obj *types.Var) *c03TS {
	r := c03Empty()
	found := false
	for _, pk := range x.c.Prog.All {
		for _, file := range pk.Syntax {
			for _, d := range file.Decls {
				gd, ok := d.(*ast.GenDecl)
				if !ok {
					continue
				}
				for _, sp := range gd.Specs {
					vs, ok := sp.(*ast.ValueSpec)
					if !ok {
						continue
					}
					for i, nm := range vs.Names {
						if pk.TypesInfo.Defs[nm] != types.Object(obj) {
							continue
						}
						found = true
						if i < len(vs.Values) && len(vs.Values) == len(vs.Names) {
							t := pk.TypesInfo.TypeOf(vs.Values[i])
							if _, isI := t.Underlying().(*types.Interface); isI {
								r.union(c03Unknown("initialiser of " + obj.Name()))
							} else {
								r.add(t)
							}
						} else {
							r.M["nil"] = nil
						}
					}
				}
			}
		}
	}
	if !found {
		return c03Unknown("declaration of " + obj.Name() + " not found")
	}
	for _, f := range x.ship {
		info := f.Info()
		core.InspectNoLit(f.Body, func(n ast.Node) bool {
			if as, ok := n.(*ast.AssignStmt); ok {
				for i, l := range as.Lhs {
					if usedObj(info, l) == types.Object(obj) {
						if len(as.Rhs) == len(as.Lhs) {
							r.union(x.dynAt(f, as.Rhs[i], as, nil))
						} else {
							r.union(c03Unknown("tuple assignment to " + obj.Name()))
						}
					}
				}
			}
			return true
		})
	}
	return r
}

// fieldWrites: every value stored into the struct field anywhere in shipped code.
func (x *c03Ctx) fieldWrites(fld *types.Var) *c03TS {
	r := c03Empty()
	scan := func(info *types.Info, root ast.Node, at func(n ast.Node) *core.Func) {
		ast.Inspect(root, func(n ast.Node) bool {
			switch v := n.(type) {
			case *ast.CompositeLit:
				t := info.TypeOf(v)
				if t == nil {
					return true
				}
				st, ok := t.Underlying().(*types.Struct)
				if !ok {
					return true
				}
				idx := -1
				for i := 0; i < st.NumFields(); i++ {
					if st.Field(i) == fld {
						idx = i
					}
				}
				if idx < 0 {
					return true
				}
				f := at(v)
				if len(v.Elts) == 0 {
					r.M["nil"] = nil
					return true
				}
				if _, keyed := v.Elts[0].(*ast.KeyValueExpr); keyed {
					set := false
					for _, el := range v.Elts {
						kv := el.(*ast.KeyValueExpr)
						if id, ok := kv.Key.(*ast.Ident); ok && info.Uses[id] == types.Object(fld) {
							set = true
							if f == nil {
								r.union(c03Unknown("package-level literal"))
							} else {
								r.union(x.dynAt(f, kv.Value, kv, nil))
							}
						}
					}
					if !set {
						r.M["nil"] = nil
					}
				} else if idx < len(v.Elts) {
					if f == nil {
						r.union(c03Unknown("package-level literal"))
					} else {
						r.union(x.dynAt(f, v.Elts[idx], v.Elts[idx], nil))
					}
				}
			case *ast.AssignStmt:
				for i, l := range v.Lhs {
					se, ok := core.Unparen(l).(*ast.SelectorExpr)
					if !ok {
						continue
					}
					sel := info.Selections[se]
					if sel == nil || sel.Obj() != types.Object(fld) {
						continue
					}
					f := at(v)
					if f == nil {
						r.union(c03Unknown("assignment outside a function"))
						continue
					}
					switch {
					case len(v.Rhs) == len(v.Lhs):
						r.union(x.dynAt(f, v.Rhs[i], v, nil))
					case len(v.Rhs) == 1:
						if call, ok := core.Unparen(v.Rhs[0]).(*ast.CallExpr); ok {
							r.union(x.dynCallResult(f, call, i))
						} else if ta, ok := core.Unparen(v.Rhs[0]).(*ast.TypeAssertExpr); ok && i == 0 {
							r.union(x.dyn(f, ta.X, nil))
							r.M["nil"] = nil
						} else {
							r.union(c03Unknown("tuple assignment"))
						}
					}
				}
			case *ast.UnaryExpr:
				if v.Op == token.AND {
					if se, ok := core.Unparen(v.X).(*ast.SelectorExpr); ok {
						if sel := info.Selections[se]; sel != nil && sel.Obj() == types.Object(fld) {
							r.union(c03Unknown("address of field " + fld.Name() + " taken"))
						}
					}
				}
			case *ast.CallExpr:
				// new(T) leaves the field nil
				if id, ok := v.Fun.(*ast.Ident); ok && id.Name == "new" && len(v.Args) == 1 {
					if st, ok := info.TypeOf(v.Args[0]).Underlying().(*types.Struct); ok {
						for i := 0; i < st.NumFields(); i++ {
							if st.Field(i) == fld {
								r.M["nil"] = nil
							}
						}
					}
				}
			}
			return true
		})
	}
	for _, f := range x.ship {
		if f.Lit != nil {
			continue
		}
		ff := f
		scan(f.Info(), f.Decl, func(n ast.Node) *core.Func { return x.funcAt(ff, n) })
	}
	for _, pk := range x.c.Prog.All {
		for _, file := range pk.Syntax {
			for _, d := range file.Decls {
				if gd, ok := d.(*ast.GenDecl); ok {
					scan(pk.TypesInfo, gd, func(ast.Node) *core.Func { return nil })
				}
			}
		}
	}
	// a zero value of the enclosing struct (var x T; T{} elsewhere) leaves nil: covered by literals above;
	// declared variables of the struct type without literal:
	return r
}

// dynAt evaluates e at the program point of node `at`, refining the result by the facts there
// (nil excluded by a non-nil guard on the same path).
func (x *c03Ctx) dynAt(f *core.Func, e ast.Expr, at ast.Node, env c03Env) *c03TS {
	if t := x.typeTested(f, at, e); t != nil {
		if _, isI := t.Underlying().(*types.Interface); !isI {
			return c03One(t)
		}
	}
	ts := x.dyn(f, e, env)
	if ts.hasNil() && x.nonNil(f, at, e) {
		ts = ts.without("nil")
	}
	return ts
}

// nonNil: a fact at n says that the path e is not nil.
func (x *c03Ctx) nonNil(f *core.Func, n ast.Node, e ast.Expr) bool {
	facts, w := x.factsAt(f, n)
	if w != "" {
		return false
	}
	info := f.Info()
	root := c03RootObj(info, e)
	if root == nil {
		return false
	}
	path := exprStr(core.Unparen(e))
	ok := false
	var visit func(c ast.Expr, val bool, at token.Pos)
	visit = func(c ast.Expr, val bool, at token.Pos) {
		switch v := core.Unparen(c).(type) {
		case *ast.UnaryExpr:
			if v.Op == token.NOT {
				visit(v.X, !val, at)
			}
		case *ast.BinaryExpr:
			if v.Op == token.LAND && val || v.Op == token.LOR && !val {
				visit(v.X, val, at)
				visit(v.Y, val, at)
				return
			}
			for _, pr := range [][2]ast.Expr{{v.X, v.Y}, {v.Y, v.X}} {
				if isNilIdent(info, pr[1]) && c03SamePath(info, pr[0], e) {
					if (v.Op == token.EQL && !val) || (v.Op == token.NEQ && val) {
						if !x.assignedBetween(f, root, path, at, n.Pos()) {
							ok = true
						}
					}
				}
			}
		}
	}
	for _, ft := range facts {
		if ft.Cond != nil {
			visit(ft.Cond, ft.Val, ft.At)
		}
	}
	return ok
}

func (x *c03Ctx) dynCall(f *core.Func, call *ast.CallExpr, env c03Env) *c03TS {
	info := f.Info()
	// conversion
	if tv, ok := info.Types[call.Fun]; ok && tv.IsType() && len(call.Args) == 1 {
		return x.dyn(f, call.Args[0], env)
	}
	return x.dynCallResultEnv(f, call, 0, env)
}

func (x *c03Ctx) dynCallResult(f *core.Func, call *ast.CallExpr, i int) *c03TS {
	return x.dynCallResultEnv(f, call, i, nil)
}

const c03Walk = "internal/runtime/compiler/ast.Walk"

func (x *c03Ctx) dynCallResultEnv(f *core.Func, call *ast.CallExpr, i int, env c03Env) *c03TS {
	info := f.Info()
	// static result type
	if sig, ok := info.TypeOf(call.Fun).(*types.Signature); ok && i < sig.Results().Len() {
		rt := sig.Results().At(i).Type()
		if _, isI := rt.Underlying().(*types.Interface); !isI {
			return c03One(rt)
		}
	}
	g := f.CalleeFunc(call)
	if g == nil {
		return c03Unknown("result of " + c03Short(exprStr(call.Fun)))
	}
	if g.Key == c03Walk && i == 0 && len(call.Args) == 2 {
		return x.walkResult(f, call, env)
	}
	return x.solver.get(fmt.Sprintf("result:%s#%d", g.Key, i), func() *c03TS { return x.funcResult(g, i) })
}

// funcResult: the union over the return statements of g (declared function) of result i.
func (x *c03Ctx) funcResult(g *core.Func, i int) *c03TS {
	r := c03Empty()
	var named types.Object
	if g.Type.Results != nil {
		k := 0
		for _, fl := range g.Type.Results.List {
			if len(fl.Names) == 0 {
				k++
				continue
			}
			for _, nm := range fl.Names {
				if k == i {
					named = g.Info().Defs[nm]
				}
				k++
			}
		}
	}
	core.InspectNoLit(g.Body, func(n ast.Node) bool {
		if lit, ok := n.(*ast.FuncLit); ok && lit != g.Lit {
			return false
		}
		rs, ok := n.(*ast.ReturnStmt)
		if !ok {
			return true
		}
		switch {
		case len(rs.Results) == 0 && named != nil:
			r.union(x.solver.get("local:"+c03ObjKey(named), func() *c03TS { return x.localWrites(g, named.(*types.Var)) }))
		case i < len(rs.Results):
			r.union(x.dynAt(g, rs.Results[i], rs, nil))
		case len(rs.Results) == 1:
			if call, ok := core.Unparen(rs.Results[0]).(*ast.CallExpr); ok {
				r.union(x.dynCallResult(g, call, i))
			} else {
				r.union(c03Unknown("return of a tuple"))
			}
		}
		return true
	})
	return r
}

// ---- visitors ---------------------------------------------------------------

// visitorTypes lists the named types implementing ast.Visitor that are instantiated in scope.
func (x *c03Ctx) visitorTypes() ([]*types.Named, *types.Interface) {
	pkg := x.c.Prog.Pkgs["internal/runtime/compiler/ast"]
	if pkg == nil {
		return nil, nil
	}
	o := pkg.Types.Scope().Lookup("Visitor")
	if o == nil {
		return nil, nil
	}
	it, _ := o.Type().Underlying().(*types.Interface)
	if it == nil {
		return nil, nil
	}
	var out []*types.Named
	for _, nt := range c03Instantiated(x.c.Prog, x.sc.touched) {
		if types.Implements(nt, it) || types.Implements(types.NewPointer(nt), it) {
			out = append(out, nt)
		}
	}
	return out, it
}

func (x *c03Ctx) methodOf(nt *types.Named, name string) *core.Func {
	for _, t := range []types.Type{nt, types.NewPointer(nt)} {
		if sel := types.NewMethodSet(t).Lookup(nt.Obj().Pkg(), name); sel != nil {
			if fn, ok := sel.Obj().(*types.Func); ok {
				return x.c.Prog.ByObj[fn.Origin()]
			}
		}
	}
	return nil
}

// walkResult: the dynamic types ast.Walk(v, n) can return.
func (x *c03Ctx) walkResult(f *core.Func, call *ast.CallExpr, env c03Env) *c03TS {
	in := x.dynAt(f, call.Args[1], call, env)
	if in.Unknown != "" {
		return c03Unknown(in.Unknown)
	}
	if in.hasNil() {
		return c03Unknown("a nil node may be walked")
	}
	all, it := x.visitorTypes()
	if it == nil {
		return c03Unknown("ast.Visitor not found")
	}
	var vs []*types.Named
	vt := f.Info().TypeOf(call.Args[0])
	if vt == nil {
		return c03Unknown("visitor type")
	}
	if _, isI := vt.Underlying().(*types.Interface); isI {
		vs = all
	} else if nt := c03Named(vt); nt != nil {
		vs = []*types.Named{nt}
	} else {
		return c03Unknown("visitor of type " + vt.String())
	}
	r := c03Empty()
	for _, T := range in.M {
		for _, V := range vs {
			r.union(x.walkOne(V, T))
		}
	}
	return r
}

func (x *c03Ctx) walkOne(V *types.Named, T types.Type) *c03TS {
	key := "walk:" + c03TypeKey(V) + ":" + c03TypeKey(T)
	return x.solver.get(key, func() *c03TS {
		b := x.visitRet(V, "VisitBefore", 1, T)
		r := c03Empty().union(b)
		for k, t := range b.M {
			if k == "nil" {
				continue
			}
			r.union(x.visitRet(V, "VisitAfter", 0, t))
		}
		return r
	})
}

// visitRet: the node result of V.method for an argument of dynamic type T: the union over the
// return statements that can execute for T (not inside a type-switch clause on the node for another type).
func (x *c03Ctx) visitRet(V *types.Named, method string, resIdx int, T types.Type) *c03TS {
	key := "visit:" + c03TypeKey(V) + "." + method + ":" + c03TypeKey(T)
	return x.solver.get(key, func() *c03TS {
		g := x.methodOf(V, method)
		if g == nil {
			return c03Unknown("method " + method + " of " + V.Obj().Name())
		}
		info := g.Info()
		sig := g.Obj.Type().(*types.Signature)
		if sig.Params().Len() != 1 {
			return c03Unknown("signature of " + g.Key)
		}
		P := types.Object(sig.Params().At(0))
		if x.reassigned(g, P) {
			return c03Unknown("the node parameter of " + g.Key + " is reassigned")
		}
		par := x.parentsOf(g)
		env := c03Env{P: T}
		// switch-bound aliases of P in clauses applicable to T
		applicable := func(n ast.Node) bool {
			for p := par[n]; p != nil; p = par[p] {
				cc, ok := p.(*ast.CaseClause)
				if !ok {
					continue
				}
				blk, _ := par[cc].(*ast.BlockStmt)
				ts, _ := par[blk].(*ast.TypeSwitchStmt)
				if ts == nil || !x.typeSwitchOn(info, ts, P) {
					continue
				}
				listed := func(c *ast.CaseClause) bool {
					for _, te := range c.List {
						if isNilIdent(info, te) {
							continue
						}
						ct := info.TypeOf(te)
						if types.Identical(ct, T) {
							return true
						}
						if it, ok := ct.Underlying().(*types.Interface); ok && types.Implements(T, it) {
							return true
						}
					}
					return false
				}
				if cc.List == nil {
					for _, cl := range blk.List {
						if oc := cl.(*ast.CaseClause); oc != cc && listed(oc) {
							return false
						}
					}
				} else if !listed(cc) {
					return false
				}
				if o := info.Implicits[cc]; o != nil {
					if _, isI := o.Type().Underlying().(*types.Interface); isI {
						if x.reassigned(g, o) {
							return false
						}
						env[o] = T
					}
				}
			}
			return true
		}
		r := c03Empty()
		core.InspectNoLit(g.Body, func(n ast.Node) bool {
			rs, ok := n.(*ast.ReturnStmt)
			if !ok || !applicable(rs) {
				return true
			}
			if resIdx >= len(rs.Results) {
				r.union(c03Unknown("bare return in " + g.Key))
				return true
			}
			r.union(x.dynAt(g, rs.Results[resIdx], rs, env))
			// the visitor returned must be the receiver or nil
			if method == "VisitBefore" {
				ve := core.Unparen(rs.Results[0])
				recv := types.Object(nil)
				if sig.Recv() != nil {
					recv = sig.Recv()
				}
				if !isNilIdent(info, ve) && identObj(info, ve) != recv {
					r.union(c03Unknown(g.Key + " hands the walk to another visitor"))
				}
			}
			return true
		})
		return r
	})
}

// typeSwitchOn: ts switches on the variable P.
func (x *c03Ctx) typeSwitchOn(info *types.Info, ts *ast.TypeSwitchStmt, P types.Object) bool {
	var ta *ast.TypeAssertExpr
	switch a := ts.Assign.(type) {
	case *ast.AssignStmt:
		ta, _ = core.Unparen(a.Rhs[0]).(*ast.TypeAssertExpr)
	case *ast.ExprStmt:
		ta, _ = core.Unparen(a.X).(*ast.TypeAssertExpr)
	}
	return ta != nil && identObj(info, ta.X) == P
}

// ---- grammar: what each nonterminal's value can be ---------------------------

const c03ParseKey = "internal/runtime/compiler/parser.(*mtailParserImpl).Parse"

type c03Prod struct {
	Head   string
	Syms   []string
	Clause *ast.CaseClause // the action's case in the generated parser, nil if the production has no action
}

// loadGrammar numbers the productions of parser.y the way goyacc does (in order of
// appearance, 0 = $accept) and validates the numbering against the generated tables
// mtailR1 (left-hand side) and mtailR2 (length of the right-hand side).
func (x *c03Ctx) loadGrammar() {
	if x.prodOK || x.prodWhy != "" {
		return
	}
	g, why := readGrammar(x.c)
	if g == nil {
		x.prodWhy = "parser.y not readable: " + why
		return
	}
	x.gram = g
	pf := x.c.Prog.Fn(c03ParseKey)
	if pf == nil {
		x.prodWhy = "generated Parse method not found"
		return
	}
	prods := []c03Prod{{Head: "$accept"}}
	for _, head := range g.Order {
		for _, alt := range g.Rules[head] {
			prods = append(prods, c03Prod{Head: head, Syms: alt.Syms})
		}
	}
	r1, ok1 := c03IntTable(pf, "mtailR1")
	r2, ok2 := c03IntTable(pf, "mtailR2")
	if !ok1 || !ok2 {
		x.prodWhy = "tables mtailR1/mtailR2 not found in the generated parser"
		return
	}
	if len(r1) != len(prods) || len(r2) != len(prods) {
		x.prodWhy = fmt.Sprintf("parser.y has %d productions, the generated tables %d", len(prods), len(r2))
		return
	}
	lhs := map[string]int64{}
	for n := 1; n < len(prods); n++ {
		if int(r2[n]) != len(prods[n].Syms) {
			x.prodWhy = fmt.Sprintf("production %d (%s) has %d symbols in parser.y but length %d in mtailR2", n, prods[n].Head, len(prods[n].Syms), r2[n])
			return
		}
		if v, seen := lhs[prods[n].Head]; seen && v != r1[n] {
			x.prodWhy = fmt.Sprintf("production %d: left-hand side numbering disagrees with mtailR1", n)
			return
		}
		lhs[prods[n].Head] = r1[n]
	}
	inv := map[int64]string{}
	for h, v := range lhs {
		if o, dup := inv[v]; dup && o != h {
			x.prodWhy = "two nonterminals share a number in mtailR1"
			return
		}
		inv[v] = h
	}
	// the action switch
	var sw *ast.SwitchStmt
	ast.Inspect(pf.Body, func(n ast.Node) bool {
		s, ok := n.(*ast.SwitchStmt)
		if !ok || s.Tag == nil || len(s.Body.List) < 10 {
			return true
		}
		if _, isId := core.Unparen(s.Tag).(*ast.Ident); !isId {
			return true
		}
		for _, cl := range s.Body.List {
			for _, e := range cl.(*ast.CaseClause).List {
				if _, isC := constInt(pf.Info(), e); !isC {
					return true
				}
			}
		}
		if sw == nil || len(s.Body.List) > len(sw.Body.List) {
			sw = s
		}
		return true
	})
	if sw == nil {
		x.prodWhy = "action switch not found in the generated parser"
		return
	}
	for _, cl := range sw.Body.List {
		cc := cl.(*ast.CaseClause)
		for _, e := range cc.List {
			k, _ := constInt(pf.Info(), e)
			if k <= 0 || int(k) >= len(prods) {
				x.prodWhy = fmt.Sprintf("action case %d has no production", k)
				return
			}
			prods[k].Clause = cc
		}
	}
	x.prods = prods
	x.prodOK = true
}

// c03IntTable reads a package-level array literal of integer constants.
func c03IntTable(f *core.Func, name string) ([]int64, bool) {
	o, _ := f.Pkg.Types.Scope().Lookup(name).(*types.Var)
	if o == nil {
		return nil, false
	}
	for _, file := range f.Pkg.Syntax {
		for _, d := range file.Decls {
			gd, ok := d.(*ast.GenDecl)
			if !ok {
				continue
			}
			for _, sp := range gd.Specs {
				vs, ok := sp.(*ast.ValueSpec)
				if !ok {
					continue
				}
				for i, nm := range vs.Names {
					if f.Pkg.TypesInfo.Defs[nm] != types.Object(o) || i >= len(vs.Values) {
						continue
					}
					lit, ok := vs.Values[i].(*ast.CompositeLit)
					if !ok {
						return nil, false
					}
					var out []int64
					for _, el := range lit.Elts {
						v, ok := constInt(f.Pkg.TypesInfo, el)
						if !ok {
							return nil, false
						}
						out = append(out, v)
					}
					return out, true
				}
			}
		}
	}
	return nil, false
}

// stackValue recognises, inside the generated Parse method, `<stack slice>[k].<field>` and
// `<value register>.<field>` where the struct is the parser's value-stack element (it has the
// state field yys); it returns the clause number, k (0 for the result register) and whether it matched.
func (x *c03Ctx) stackValue(f *core.Func, se *ast.SelectorExpr) (prod int, k int, ok bool) {
	if f.Key != c03ParseKey && (f.Decl == nil || x.c.Prog.FuncOf[f.Decl] == nil || x.c.Prog.FuncOf[f.Decl].Key != c03ParseKey) {
		return 0, 0, false
	}
	info := f.Info()
	bt := info.TypeOf(se.X)
	if bt == nil {
		return 0, 0, false
	}
	st, isS := bt.Underlying().(*types.Struct)
	if !isS || st.NumFields() == 0 || st.Field(0).Name() != "yys" {
		return 0, 0, false
	}
	x.loadGrammar()
	if !x.prodOK {
		return 0, 0, false
	}
	for n := 1; n < len(x.prods); n++ {
		cc := x.prods[n].Clause
		if cc == nil || !(cc.Pos() <= se.Pos() && se.End() <= cc.End()) {
			continue
		}
		switch b := core.Unparen(se.X).(type) {
		case *ast.Ident:
			return n, 0, true
		case *ast.IndexExpr:
			if v, isC := constInt(info, b.Index); isC {
				if _, isId := core.Unparen(b.X).(*ast.Ident); isId {
					return n, int(v), true
				}
			}
		}
	}
	return 0, 0, false
}

// grammarValue: dynamic types of a value-stack field read inside a grammar action, or nil if e is not one.
func (x *c03Ctx) grammarValue(f *core.Func, se *ast.SelectorExpr) *c03TS {
	n, k, ok := x.stackValue(f, se)
	if !ok {
		if x.prodWhy != "" && (f.Key == c03ParseKey) {
			return c03Unknown(x.prodWhy)
		}
		return nil
	}
	fld := se.Sel.Name
	pf := x.c.Prog.Fn(c03ParseKey)
	if k > 0 {
		if k > len(x.prods[n].Syms) {
			return c03Unknown(fmt.Sprintf("$%d in a production of %d symbols", k, len(x.prods[n].Syms)))
		}
		return x.symValue(x.prods[n].Syms[k-1], fld)
	}
	// the result register: assignments earlier in this action, else the default $1
	r := c03Empty()
	found := false
	for _, as := range x.registerWrites(pf, x.prods[n].Clause, fld) {
		if as.End() <= se.Pos() {
			found = true
			r.union(x.dynAt(pf, as.Rhs[0], as, nil))
		}
	}
	if !found {
		if len(x.prods[n].Syms) == 0 {
			return c03Unknown("$$ read in an empty production before it is assigned")
		}
		r.union(x.symValue(x.prods[n].Syms[0], fld))
	}
	return r
}

// registerWrites lists the assignments `<register>.<fld> = e` in an action clause.
func (x *c03Ctx) registerWrites(pf *core.Func, cc *ast.CaseClause, fld string) []*ast.AssignStmt {
	var out []*ast.AssignStmt
	if cc == nil {
		return nil
	}
	info := pf.Info()
	ast.Inspect(cc, func(n ast.Node) bool {
		as, ok := n.(*ast.AssignStmt)
		if !ok || len(as.Lhs) != 1 || len(as.Rhs) != 1 {
			return true
		}
		se, ok := core.Unparen(as.Lhs[0]).(*ast.SelectorExpr)
		if !ok || se.Sel.Name != fld {
			return true
		}
		if _, isId := core.Unparen(se.X).(*ast.Ident); !isId {
			return true
		}
		if st, isS := info.TypeOf(se.X).Underlying().(*types.Struct); isS && st.NumFields() > 0 && st.Field(0).Name() == "yys" {
			out = append(out, as)
		}
		return true
	})
	return out
}

// symValue: the dynamic types field fld of the semantic value of grammar symbol sym can hold.
func (x *c03Ctx) symValue(sym, fld string) *c03TS {
	if _, isNT := x.gram.Rules[sym]; !isNT {
		return c03Nil() // tokens never carry a node
	}
	if x.gram.Types[sym] != fld {
		return c03Nil() // the nonterminal's value lives in another field of the union
	}
	return x.solver.get("nt:"+sym+"."+fld, func() *c03TS {
		pf := x.c.Prog.Fn(c03ParseKey)
		r := c03Empty()
		for n := 1; n < len(x.prods); n++ {
			p := x.prods[n]
			if p.Head != sym {
				continue
			}
			ws := x.registerWrites(pf, p.Clause, fld)
			uncond := false
			var top []ast.Stmt
			if p.Clause != nil {
				top = c03Flatten(p.Clause.Body)
			}
			for _, as := range ws {
				r.union(x.dynAt(pf, as.Rhs[0], as, nil))
				for _, st := range top {
					if st == ast.Stmt(as) {
						uncond = true
					}
					if is, ok := st.(*ast.IfStmt); ok && is.Else != nil {
						a, b := false, false
						for _, s2 := range c03Flatten(is.Body.List) {
							a = a || s2 == ast.Stmt(as)
						}
						if eb, ok := is.Else.(*ast.BlockStmt); ok {
							for _, w2 := range ws {
								for _, s2 := range c03Flatten(eb.List) {
									b = b || s2 == ast.Stmt(w2)
								}
							}
						}
						if a && b {
							uncond = true
						}
					}
				}
			}
			if !uncond {
				if len(p.Syms) == 0 {
					r.union(c03Unknown("empty production of " + sym + " leaves its value unassigned"))
				} else {
					r.union(x.symValue(p.Syms[0], fld))
				}
			}
		}
		return r
	})
}

// c03Flatten inlines plain nested blocks.
func c03Flatten(list []ast.Stmt) []ast.Stmt {
	var out []ast.Stmt
	for _, st := range list {
		if b, ok := st.(*ast.BlockStmt); ok {
			out = append(out, c03Flatten(b.List)...)
		} else {
			out = append(out, st)
		}
	}
	return out
}

// ---- type-test predicates -----------------------------------------------------

// typePredicate: g(p) can return true only when p holds a value of the returned type
// (`if v, ok := p.(T); ok { return … }; return false`).
func (x *c03Ctx) typePredicate(g *core.Func) types.Type {
	if g == nil || g.Obj == nil || g.Lit != nil {
		return nil
	}
	sig := g.Obj.Type().(*types.Signature)
	if sig.Params().Len() != 1 || sig.Results().Len() != 1 {
		return nil
	}
	if b, ok := sig.Results().At(0).Type().(*types.Basic); !ok || b.Kind() != types.Bool {
		return nil
	}
	P := types.Object(sig.Params().At(0))
	if x.reassigned(g, P) {
		return nil
	}
	info := g.Info()
	par := x.parentsOf(g)
	var T types.Type
	bad := false
	core.InspectNoLit(g.Body, func(n ast.Node) bool {
		rs, ok := n.(*ast.ReturnStmt)
		if !ok || len(rs.Results) != 1 {
			return true
		}
		if v, isC := constBool(info, rs.Results[0]); isC && !v {
			return true
		}
		// must be inside `if _, ok := P.(T); ok {`
		okHere := false
		var child ast.Node = rs
		for p := par[rs]; p != nil; child, p = p, par[p] {
			is, isIf := p.(*ast.IfStmt)
			if !isIf || child != ast.Node(is.Body) || is.Init == nil {
				continue
			}
			as, isAs := is.Init.(*ast.AssignStmt)
			if !isAs || len(as.Lhs) != 2 || len(as.Rhs) != 1 {
				continue
			}
			ta, isTA := core.Unparen(as.Rhs[0]).(*ast.TypeAssertExpr)
			if !isTA || ta.Type == nil || identObj(info, ta.X) != P {
				continue
			}
			if identObj(info, is.Cond) == nil || identObj(info, is.Cond) != identObj(info, as.Lhs[1]) {
				continue
			}
			t := info.TypeOf(ta.Type)
			if T != nil && !types.Identical(T, t) {
				bad = true
			}
			T = t
			okHere = true
		}
		if !okHere {
			bad = true
		}
		return true
	})
	if bad {
		return nil
	}
	return T
}

// typeTested: a fact at n establishes that path e holds a value of the returned type:
// a true call of a type-test predicate on e, or the ok of a comma-ok assertion on e.
func (x *c03Ctx) typeTested(f *core.Func, n ast.Node, e ast.Expr) types.Type {
	facts, w := x.factsAt(f, n)
	if w != "" {
		return nil
	}
	info := f.Info()
	root := c03RootObj(info, e)
	if root == nil {
		return nil
	}
	path := exprStr(core.Unparen(e))
	var T types.Type
	// a single-type clause of a type switch on the same path
	par := x.parentsOf(f)
	var child ast.Node = n
	for p := par[n]; p != nil; child, p = p, par[p] {
		cc, ok := p.(*ast.CaseClause)
		if !ok || len(cc.List) != 1 {
			continue
		}
		inBody := false
		for _, s := range cc.Body {
			inBody = inBody || ast.Node(s) == child
		}
		blk, _ := par[cc].(*ast.BlockStmt)
		sw, _ := par[blk].(*ast.TypeSwitchStmt)
		if sw == nil || !inBody {
			continue
		}
		var ta *ast.TypeAssertExpr
		switch a := sw.Assign.(type) {
		case *ast.AssignStmt:
			ta, _ = core.Unparen(a.Rhs[0]).(*ast.TypeAssertExpr)
		case *ast.ExprStmt:
			ta, _ = core.Unparen(a.X).(*ast.TypeAssertExpr)
		}
		if ta == nil || !c03SamePath(info, ta.X, e) || isNilIdent(info, cc.List[0]) {
			continue
		}
		if !x.assignedBetween(f, root, path, sw.Body.Lbrace, n.Pos()) {
			return info.TypeOf(cc.List[0])
		}
	}
	var visit func(c ast.Expr, val bool, at token.Pos)
	visit = func(c ast.Expr, val bool, at token.Pos) {
		switch v := core.Unparen(c).(type) {
		case *ast.UnaryExpr:
			if v.Op == token.NOT {
				visit(v.X, !val, at)
			}
		case *ast.BinaryExpr:
			if v.Op == token.LAND && val || v.Op == token.LOR && !val {
				visit(v.X, val, at)
				visit(v.Y, val, at)
			}
		case *ast.CallExpr:
			if !val || len(v.Args) != 1 || !c03SamePath(info, v.Args[0], e) {
				return
			}
			if t := x.typePredicate(f.CalleeFunc(v)); t != nil && !x.assignedBetween(f, root, path, at, n.Pos()) {
				T = t
			}
		case *ast.Ident:
			if !val {
				return
			}
			// ok of `v, ok := e.(T)`
			okObj := identObj(info, v)
			ast.Inspect(f.Decl, func(m ast.Node) bool {
				as, isAs := m.(*ast.AssignStmt)
				if !isAs || len(as.Lhs) != 2 || len(as.Rhs) != 1 || identObj(info, as.Lhs[1]) != okObj || okObj == nil {
					return true
				}
				if ta, isTA := core.Unparen(as.Rhs[0]).(*ast.TypeAssertExpr); isTA && ta.Type != nil && c03SamePath(info, ta.X, e) {
					if !x.reassignedExcept(f, okObj, as) && !x.assignedBetween(f, root, path, as.End(), n.Pos()) {
						T = info.TypeOf(ta.Type)
					}
				}
				return true
			})
		}
	}
	for _, ft := range facts {
		if ft.Cond != nil {
			visit(ft.Cond, ft.Val, ft.At)
		}
	}
	return T
}

// reassignedExcept: obj is assigned somewhere other than in statement `only`.
func (x *c03Ctx) reassignedExcept(f *core.Func, obj types.Object, only ast.Stmt) bool {
	info := f.Info()
	hit := false
	ast.Inspect(f.Decl, func(n ast.Node) bool {
		switch v := n.(type) {
		case *ast.AssignStmt:
			if ast.Stmt(v) == only {
				return true
			}
			for _, l := range v.Lhs {
				if identObj(info, l) == obj {
					hit = true
				}
			}
		case *ast.IncDecStmt:
			if identObj(info, v.X) == obj {
				hit = true
			}
		case *ast.UnaryExpr:
			if v.Op == token.AND && identObj(info, v.X) == obj {
				hit = true
			}
		}
		return !hit
	})
	return hit
}

// ---------------------------------------------------------------------------
// C03-R1: may-panic sites
// ---------------------------------------------------------------------------

type c03Verdict struct {
	Status string // ok, fail, undecided, note
	Detail string
}

func (x *c03Ctx) r1(sites []*c03Site) {
	c := x.c
	for _, st := range sites {
		var v c03Verdict
		switch st.Kind {
		case "assert":
			v = x.dischargeAssert(st)
		case "index", "slice":
			v = x.dischargeIndex(st)
		case "div":
			v = x.dischargeDiv(st)
		case "panic":
			v = x.dischargePanic(st)
		}
		switch v.Status {
		case "ok":
			c.Ok("C03-R1", st.Key, pos(c, st.N), v.Detail)
		case "note":
			c.Note("C03-R1", st.Key, pos(c, st.N), v.Detail)
		case "undecided":
			c.Undecided("C03-R1", st.Key, pos(c, st.N), v.Detail)
		default:
			c.Fail("C03-R1", st.Key, pos(c, st.N), v.Detail)
		}
	}
}

func (x *c03Ctx) dischargeAssert(st *c03Site) c03Verdict {
	f := st.F
	info := f.Info()
	ta := st.N.(*ast.TypeAssertExpr)
	T := info.TypeOf(ta.Type)
	if T == nil {
		return c03Verdict{"undecided", "asserted type not resolved"}
	}
	if tt := x.typeTested(f, ta, ta.X); tt != nil && types.Identical(tt, T) {
		return c03Verdict{"ok", "dominated by a test that " + exprStr(ta.X) + " holds a " + c03TypeKey(T)}
	}
	ts := x.solver.solve(func() *c03TS { return x.dynAt(f, ta.X, ta, nil) })
	fits := func(ts *c03TS) bool {
		if ts.Unknown != "" || len(ts.M) == 0 {
			return false
		}
		for k, t := range ts.M {
			if k == "nil" {
				return false
			}
			if it, isI := T.Underlying().(*types.Interface); isI {
				if !types.Implements(t, it) {
					return false
				}
			} else if !types.Identical(t, T) {
				return false
			}
		}
		return true
	}
	if fits(ts) {
		return c03Verdict{"ok", "every value stored where " + exprStr(ta.X) + " is read from has dynamic type " + ts.String()}
	}
	for _, alt := range []func(*c03Site, *c03TS) *c03Verdict{x.bindingDischarge, x.operandDischarge, x.arityAssert} {
		if v := alt(st, ts); v != nil {
			return *v
		}
	}
	what := "can hold " + ts.String()
	if ts.Unknown != "" && len(ts.M) == 0 {
		what = "has no bounded provenance (" + ts.Unknown + ")"
	}
	hint := ""
	if g := x.mtailTypeGuard(f, ta); g != "" {
		hint = "; the only dominating test, " + g + ", is on the mtail type of the expression, not on the kind of AST node (a concatenation or any other operator node has that type too)"
		// name the builtin when the site is inside a clause of a switch on the call's name
		facts, _ := x.factsAt(f, ta)
		for _, ft := range facts {
			if ft.Tag == nil || !ft.Val || len(ft.In) == 0 {
				continue
			}
			if se, ok := core.Unparen(ft.Tag).(*ast.SelectorExpr); ok && se.Sel.Name == "Name" {
				if k, ok := c03ConstStr(info, ft.In[0]); ok {
					name := strings.Trim(k, `"`)
					hint += fmt.Sprintf("; witness: `const FOO /a/` and `%s(FOO + \"b\", …)`: the argument is a BinaryExpr of type Pattern", name)
				}
			}
		}
	}
	return c03Verdict{"fail", fmt.Sprintf("unchecked type assertion to %s: %s %s%s — Compile panics with an interface-conversion error instead of returning code or compile errors", c03TypeKey(T), exprStr(ta.X), what, hint)}
}

// mtailTypeGuard renders a dominating `types.Equals(<e>.Type(), types.X)` test on the asserted expression, if any.
func (x *c03Ctx) mtailTypeGuard(f *core.Func, ta *ast.TypeAssertExpr) string {
	facts, _ := x.factsAt(f, ta)
	for _, ft := range facts {
		if ft.Cond == nil || !ft.Val {
			continue
		}
		res := ""
		ast.Inspect(ft.Cond, func(n ast.Node) bool {
			call, ok := n.(*ast.CallExpr)
			if !ok || f.CalleeID(call) != "internal/runtime/compiler/types.Equals" {
				return true
			}
			for _, a := range call.Args {
				if c2, ok := core.Unparen(a).(*ast.CallExpr); ok {
					if se, ok := core.Unparen(c2.Fun).(*ast.SelectorExpr); ok && se.Sel.Name == "Type" && exprStr(se.X) == exprStr(ta.X) {
						res = c03Short(exprStr(call))
					}
				}
			}
			return true
		})
		if res != "" {
			return res
		}
	}
	return ""
}

func (x *c03Ctx) dischargeDiv(st *c03Site) c03Verdict {
	if x.nonZero(st.F, st.N, st.X) {
		return c03Verdict{"ok", "a zero divisor leaves before the division"}
	}
	return c03Verdict{"fail", fmt.Sprintf("integer division by %s with no dominating zero test: a zero operand in the program text panics the compiler (integer divide by zero) instead of producing a compile error", exprStr(st.X))}
}

func (x *c03Ctx) dischargeIndex(st *c03Site) c03Verdict {
	f := st.F
	info := f.Info()
	// what is required of len(X)
	var need int64
	var lenMinus int64 = -1
	switch n := st.N.(type) {
	case *ast.IndexExpr:
		ix := x.resolveIndex(f, n.Index)
		if k, ok := constInt(info, ix); ok {
			need = k + 1
		} else if X, off := x.lenLinear(f, n.Index, 0); X != nil && off < 0 {
			need, lenMinus = -off, -off
			if !c03SamePath(info, X, n.X) {
				return c03Verdict{"fail", fmt.Sprintf("%s is indexed with the length of another slice (%s)", exprStr(n.X), exprStr(X))}
			}
		}
	case *ast.SliceExpr:
		for _, ix := range []ast.Expr{n.Low, n.High, n.Max} {
			if ix == nil {
				continue
			}
			if k, ok := constInt(info, ix); ok && k > need {
				need = k
			}
		}
	}
	if need <= 0 {
		return c03Verdict{"ok", "index within any length"}
	}
	lb, why := x.minLen(f, st.N, st.X)
	if why != "" {
		return c03Verdict{"undecided", why}
	}
	if lb >= need {
		return c03Verdict{"ok", fmt.Sprintf("len(%s) >= %d on every path to the access", exprStr(st.X), lb)}
	}
	for _, alt := range []func(*c03Site, int64) *c03Verdict{x.stackIndex, x.arityIndex, x.dimensionIndex, x.unifyIndex, x.regexpSubIndex, x.pairedStackIndex, x.decoStackIndex} {
		if v := alt(st, need); v != nil {
			return *v
		}
	}
	_ = lenMinus
	return c03Verdict{"fail", fmt.Sprintf("%s needs len(%s) >= %d but nothing on the paths to it establishes more than %d: Compile panics with index out of range", c03Short(exprStr(st.N.(ast.Expr))), exprStr(st.X), need, lb)}
}

// resolveIndex follows a local defined once (last := len(x) - 1).
func (x *c03Ctx) resolveIndex(f *core.Func, ix ast.Expr) ast.Expr {
	if id, ok := core.Unparen(ix).(*ast.Ident); ok {
		if _, isC := constInt(f.Info(), ix); !isC {
			if def := x.singleDef(f, identObj(f.Info(), id)); def != nil {
				return def
			}
		}
	}
	return ix
}

// dischargePanic: an explicit panic is unreachable when it sits in the default clause of a
// switch that lists every value the tag can take.
func (x *c03Ctx) dischargePanic(st *c03Site) c03Verdict {
	f := st.F
	info := f.Info()
	par := x.parentsOf(f)
	// the clause directly containing the panic statement
	var cc *ast.CaseClause
	for p := par[st.N]; p != nil; p = par[p] {
		if c, ok := p.(*ast.CaseClause); ok {
			cc = c
			break
		}
		if _, isBlk := p.(*ast.BlockStmt); isBlk {
			if _, isCl := par[p].(*ast.CaseClause); !isCl {
				if _, isSw := par[p].(*ast.SwitchStmt); !isSw {
					if _, isTS := par[p].(*ast.TypeSwitchStmt); !isTS {
						break
					}
				}
			}
		}
	}
	if cc == nil || cc.List != nil {
		return c03Verdict{"fail", "explicit panic outside the default clause of a switch: any input reaching it crashes the compiler"}
	}
	blk, _ := par[cc].(*ast.BlockStmt)
	switch sw := par[blk].(type) {
	case *ast.TypeSwitchStmt:
		var ta *ast.TypeAssertExpr
		switch a := sw.Assign.(type) {
		case *ast.AssignStmt:
			ta, _ = core.Unparen(a.Rhs[0]).(*ast.TypeAssertExpr)
		case *ast.ExprStmt:
			ta, _ = core.Unparen(a.X).(*ast.TypeAssertExpr)
		}
		if ta == nil {
			return c03Verdict{"undecided", "type switch guard not recognised"}
		}
		var listed []types.Type
		for _, cl := range blk.List {
			for _, te := range cl.(*ast.CaseClause).List {
				if !isNilIdent(info, te) {
					listed = append(listed, info.TypeOf(te))
				}
			}
		}
		has := func(t types.Type) bool {
			for _, l := range listed {
				if types.Identical(l, t) {
					return true
				}
			}
			return false
		}
		// (a) the tag's static type is the AST node interface: every node type the parser or a later
		// stage can build must be listed
		if nt := c03Named(info.TypeOf(ta.X)); nt != nil && nt.Obj().Name() == "Node" && strings.HasSuffix(nt.Obj().Pkg().Path(), "compiler/ast") {
			return x.nodeSwitchExhaustive(st, has)
		}
		// (b) otherwise by provenance of the tag
		ts := x.solver.solve(func() *c03TS { return x.dynAt(f, ta.X, sw, nil) })
		if ts.Unknown == "" && len(ts.M) > 0 {
			var missing []string
			for k, t := range ts.M {
				if k == "nil" || !has(t) {
					missing = append(missing, k)
				}
			}
			sort.Strings(missing)
			if len(missing) == 0 {
				return c03Verdict{"ok", "the type switch lists every type its operand can hold: " + ts.String()}
			}
			if v := x.datumSwitch(st, sw, ta, has); v != nil {
				return *v
			}
			return c03Verdict{"fail", fmt.Sprintf("the default clause panics and %s can hold %s, which no case lists", exprStr(ta.X), strings.Join(missing, ", "))}
		}
		if v := x.datumSwitch(st, sw, ta, has); v != nil {
			return *v
		}
		return c03Verdict{"fail", fmt.Sprintf("the default clause of the type switch on %s panics and the values reaching it are not bounded (%s)", exprStr(ta.X), ts.Unknown)}
	case *ast.SwitchStmt:
		if sw.Tag == nil {
			return c03Verdict{"fail", "explicit panic in the default clause of a condition switch"}
		}
		return x.constSwitchExhaustive(st, sw, blk)
	}
	return c03Verdict{"undecided", "enclosing switch not recognised"}
}

// nodeSwitchExhaustive: every struct type of package ast that implements Node and is built somewhere in
// shipped code is listed; *ast.Error may be missing only if a tree containing it can never be walked.
func (x *c03Ctx) nodeSwitchExhaustive(st *c03Site, has func(types.Type) bool) c03Verdict {
	pkg := x.c.Prog.Pkgs["internal/runtime/compiler/ast"]
	nodeIface, _ := pkg.Types.Scope().Lookup("Node").Type().Underlying().(*types.Interface)
	if nodeIface == nil {
		return c03Verdict{"undecided", "ast.Node not found"}
	}
	var missing []string
	n := 0
	sc := pkg.Types.Scope()
	for _, name := range sc.Names() {
		tn, ok := sc.Lookup(name).(*types.TypeName)
		if !ok {
			continue
		}
		if _, isS := tn.Type().Underlying().(*types.Struct); !isS {
			continue
		}
		pt := types.NewPointer(tn.Type())
		if !types.Implements(pt, nodeIface) {
			continue
		}
		n++
		if has(pt) {
			continue
		}
		if name == "Error" {
			if why := x.errorNodeNeverWalked(); why == "" {
				continue
			} else {
				missing = append(missing, "*ast.Error ("+why+")")
				continue
			}
		}
		missing = append(missing, "*ast."+name)
	}
	if len(missing) > 0 {
		return c03Verdict{"fail", "the default clause panics and no case lists " + strings.Join(missing, ", ") + ": a program containing such a node crashes the compiler"}
	}
	return c03Verdict{"ok", fmt.Sprintf("all %d node types are listed (or can never reach a walk)", n)}
}

const c03LexKey = "internal/runtime/compiler/parser.(*parser).Lex"
const c03ParseFnKey = "internal/runtime/compiler/parser.Parse"

// errorNodeNeverWalked checks the facts that keep *ast.Error away from every tree walk:
// it is built only in the grammar action whose right-hand side is the INVALID token; the driver's
// Lex records a parse error on every path that returns INVALID; Parse returns no tree when errors were recorded.
func (x *c03Ctx) errorNodeNeverWalked() string {
	c := x.c
	x.loadGrammar()
	if !x.prodOK {
		return "grammar not available: " + x.prodWhy
	}
	// (1) composite literals of ast.Error
	nlit := 0
	for _, f := range x.ship {
		bad := ""
		core.InspectNoLit(f.Body, func(n ast.Node) bool {
			cl, ok := n.(*ast.CompositeLit)
			if !ok {
				return true
			}
			nt := c03Named(f.Info().TypeOf(cl))
			if nt == nil || nt.Obj().Name() != "Error" || !strings.HasSuffix(nt.Obj().Pkg().Path(), "compiler/ast") {
				return true
			}
			nlit++
			okProd := false
			for k := 1; k < len(x.prods); k++ {
				cc := x.prods[k].Clause
				if cc != nil && cc.Pos() <= cl.Pos() && cl.End() <= cc.End() && f.Key == c03ParseKey {
					if len(x.prods[k].Syms) == 1 && x.prods[k].Syms[0] == "INVALID" {
						okProd = true
					}
				}
			}
			if !okProd {
				bad = "built at " + pos(c, cl) + ", outside the action of a production whose right-hand side is the INVALID token"
			}
			return true
		})
		if bad != "" {
			return bad
		}
	}
	if nlit == 0 {
		return ""
	}
	// (2) Lex: every return whose value may be INVALID is preceded by a recorded error
	lx := c.Prog.Fn(c03LexKey)
	if lx == nil {
		return "driver Lex not found"
	}
	c.Analysed(lx)
	if why := x.lexRecordsInvalid(lx); why != "" {
		return why
	}
	// (3) Parse returns no tree when an error was recorded
	if why := x.parseDropsTreeOnError(); why != "" {
		return why
	}
	return ""
}

// invalidConst resolves the parser constant INVALID.
func (x *c03Ctx) tokenConst(name string) types.Object {
	pkg := x.c.Prog.Pkgs["internal/runtime/compiler/parser"]
	if pkg == nil {
		return nil
	}
	return pkg.Types.Scope().Lookup(name)
}

func (x *c03Ctx) lexRecordsInvalid(lx *core.Func) string {
	g := lx.Graph()
	info := lx.Info()
	inv := x.tokenConst("INVALID")
	if inv == nil {
		return "token INVALID not found"
	}
	errs := g.Calls(func(id string, _ *ast.CallExpr) bool {
		return id == "internal/runtime/compiler/parser.(*parser).Error" || id == "internal/runtime/compiler/parser.(*parser).ErrorP"
	})
	// returns of the constant INVALID
	var goals []core.Point
	for _, e := range normalExits(g) {
		if e.Kind != "return" || len(e.Ret.Results) != 1 {
			continue
		}
		if usedObj(info, e.Ret.Results[0]) == inv {
			goals = append(goals, e.P)
		}
	}
	if tr, found := pathAvoiding(g, nil, goals, core.HitPoints(errs)); found {
		return "the driver can return INVALID without recording an error (" + strings.Join(tr, " > ") + ")"
	}
	// the clause of the token-kind switch that lists INVALID: every path through it records an error
	var clause *ast.CaseClause
	ast.Inspect(lx.Body, func(n ast.Node) bool {
		if cc, ok := n.(*ast.CaseClause); ok {
			for _, e := range cc.List {
				if usedObj(info, e) == inv {
					clause = cc
				}
			}
		}
		return true
	})
	if clause == nil || len(clause.Body) == 0 {
		return "the driver has no case for an INVALID token from the lexer"
	}
	start, ok := c03ClauseStart(g, clause)
	if !ok {
		return "clause for INVALID not located in the control-flow graph"
	}
	if tr, found := pathAvoiding(g, &start, core.ExitPoints(normalExits(g)), core.HitPoints(errs)); found {
		return "the INVALID clause of the driver can be left without recording an error (" + strings.Join(tr, " > ") + ")"
	}
	return ""
}

func (x *c03Ctx) parseDropsTreeOnError() string {
	pf := x.c.Prog.Fn(c03ParseFnKey)
	if pf == nil {
		return "parser.Parse not found"
	}
	x.c.Analysed(pf)
	info := pf.Info()
	// every return of a non-nil tree is dominated by the false edge of a test `<p>.errors != nil` (possibly in a disjunction)
	bad := ""
	core.InspectNoLit(pf.Body, func(n ast.Node) bool {
		rs, ok := n.(*ast.ReturnStmt)
		if !ok || len(rs.Results) != 2 || isNilIdent(info, rs.Results[0]) {
			return true
		}
		facts, _ := x.factsAt(pf, rs)
		okHere := false
		for _, ft := range facts {
			if ft.Cond == nil || ft.Val {
				continue
			}
			// a false disjunction makes each disjunct false
			var walk func(e ast.Expr)
			walk = func(e ast.Expr) {
				if be, ok := core.Unparen(e).(*ast.BinaryExpr); ok {
					if be.Op == token.LOR {
						walk(be.X)
						walk(be.Y)
						return
					}
					if be.Op == token.NEQ || be.Op == token.GTR {
						for _, pr := range [][2]ast.Expr{{be.X, be.Y}} {
							if x.isErrorListExpr(info, pr[0]) || x.isLenOfErrorList(info, pr[0]) {
								okHere = true
							}
						}
					}
				}
			}
			walk(ft.Cond)
		}
		if !okHere {
			bad = "parser.Parse can return a tree at " + pos(x.c, rs) + " although parse errors were recorded"
		}
		return true
	})
	return bad
}

func (x *c03Ctx) isErrorListExpr(info *types.Info, e ast.Expr) bool {
	t := info.TypeOf(e)
	nt, _ := t.(*types.Named)
	return nt != nil && nt.Obj().Name() == "ErrorList"
}

func (x *c03Ctx) isLenOfErrorList(info *types.Info, e ast.Expr) bool {
	if call, ok := core.Unparen(e).(*ast.CallExpr); ok && len(call.Args) == 1 {
		if id, ok := call.Fun.(*ast.Ident); ok && id.Name == "len" {
			return x.isErrorListExpr(info, call.Args[0])
		}
	}
	return false
}

// constSwitchExhaustive: the switch tag has a named constant-only type and every constant of that type
// that shipped code ever uses as a value is listed (plus the zero value).
func (x *c03Ctx) constSwitchExhaustive(st *c03Site, sw *ast.SwitchStmt, blk *ast.BlockStmt) c03Verdict {
	f := st.F
	info := f.Info()
	nt := c03Named(info.TypeOf(sw.Tag))
	if nt == nil {
		return c03Verdict{"fail", "explicit panic in the default clause of a switch over " + exprStr(sw.Tag)}
	}
	if b, ok := nt.Underlying().(*types.Basic); !ok || b.Info()&types.IsInteger == 0 {
		return c03Verdict{"undecided", "switch over a non-integer named type"}
	}
	listed := map[string]bool{}
	for _, cl := range blk.List {
		for _, e := range cl.(*ast.CaseClause).List {
			tv := info.Types[e]
			if tv.Value == nil {
				return c03Verdict{"undecided", "non-constant case"}
			}
			listed[tv.Value.ExactString()] = true
		}
	}
	// every way a value of the type comes into being in shipped code
	var missing []string
	for _, g := range x.ship {
		gi := g.Info()
		bad := ""
		core.InspectNoLit(g.Body, func(n ast.Node) bool {
			e, ok := n.(ast.Expr)
			if !ok {
				return true
			}
			tv, ok := gi.Types[e]
			if !ok || tv.Type == nil || !types.Identical(tv.Type, nt) {
				return true
			}
			if tv.Value != nil {
				if !listed[tv.Value.ExactString()] && !(g.Decl == f.Decl) {
					missing = append(missing, fmt.Sprintf("%s (=%s) at %s", exprStr(e), tv.Value.ExactString(), pos(x.c, e)))
				}
				return false
			}
			// a non-constant expression of the type: a variable/field/parameter read is fine (it carries a value
			// created elsewhere); conversions and arithmetic create new values
			switch v := core.Unparen(e).(type) {
			case *ast.Ident, *ast.SelectorExpr, *ast.IndexExpr:
			case *ast.CallExpr:
				if ftv, ok := gi.Types[v.Fun]; ok && ftv.IsType() {
					bad = "conversion " + c03Short(exprStr(e)) + " at " + pos(x.c, e)
				}
			case *ast.BinaryExpr, *ast.UnaryExpr:
				bad = "arithmetic " + c03Short(exprStr(e)) + " at " + pos(x.c, e)
			}
			return true
		})
		if bad != "" {
			return c03Verdict{"fail", "the default clause of the switch over " + c03TypeKey(nt) + " panics and values of that type are also created by " + bad}
		}
	}
	if !listed["0"] {
		missing = append(missing, "the zero value")
	}
	if len(missing) > 0 {
		sort.Strings(missing)
		return c03Verdict{"fail", "the default clause panics and the switch over " + c03TypeKey(nt) + " does not list " + strings.Join(uniq(missing), "; ")}
	}
	return c03Verdict{"ok", fmt.Sprintf("every constant of %s used in shipped code, and the zero value, has a case; no value is created by conversion or arithmetic", c03TypeKey(nt))}
}

func c03(c *core.Check) {
	c.Rule("C03-R1", "NO-PANIC-SITE: every explicit panic, unchecked type assertion, constant or len-k index/slice and integer division in the functions that can run under (*Compiler).Compile is discharged by a dominating guard, by the provenance of the value (what the grammar and every later stage can store there), or by a named invariant whose establishing facts are checked")
	root := c.MustFn("C03-R1", c03Compile)
	if root == nil {
		return
	}
	sc := c03Reach(c, root)
	for _, f := range sc.order {
		c.Analysed(f)
	}
	c.Explain = "Decides, on the current source and for every control-flow path of the functions that can run under (*Compiler).Compile (call graph: static calls, function values, interface calls resolved against the types instantiated in the touched packages, String/Error methods reached through formatting), structural necessary conditions of 'Compile terminates on any source text, never crashes, returns exactly one of code and a non-empty error list, and is deterministic': (R1) each explicit panic, unchecked type assertion, constant or len-k index/slice and integer division is discharged by a dominating guard, by the provenance of the value (a least-fixpoint over what the grammar's productions, every visitor and every assignment can store in the field, parameter or result; discriminated by a kind field where the struct is a tagged union), or by a named invariant whose establishing facts are themselves checked (builtin arity after signature unification, visitor stack pairing, metric type to datum type, opcode to operand type, Error node never walked); (R2) error lists are returned as errors only when non-empty and nil only when empty, Compile stops at the first failing stage, object and error are exclusive, and the generated parser's non-zero result implies a recorded error; (R3) the lexer's state functions send at most cap(tokens) tokens per run, each loop consumes and leaves at end of input, and no cycle of states is free of progress or avoids the EOF-emitting state; (R4) the checker's depth limit counts, cuts off with an error and a flag that VisitAfter honours first; (R5) map iteration order, clock reads, globals and emit operands cannot make two compilations differ; (R6) no loop's trip count is a number written in the program; (R7) regular expressions are compiled only under the length limit and fed-back fragment text is stored only under it. NOT decided: nil dereferences, arbitrary (non-constant, non len-k) indexing, stack depth and time of the tree walks that precede the checker (bounded by input length, noted), termination of regexp/syntax and of the goyacc driver loop, memory, and that parser.go is what goyacc generates from parser.y (C01-R1)."
	c.Assume = append(c.Assume,
		"parser.go is what goyacc v0.29.0 generates from parser.y (decided by C01-R1); production numbers are validated here against the generated tables mtailR1/mtailR2",
		"the goyacc driver calls Lex only while it has no lookahead and never after it received the end-of-input token",
		"regexp/syntax: Star/Plus/Quest/Repeat/Capture nodes have exactly one sub-expression; regexp compilation of a pattern of bounded length terminates",
		"unicode.IsX(r) is false for the negative end-of-input rune; bufio.Reader.ReadRune keeps returning io.EOF at end of input",
		"calls made through function values or interfaces do not modify the variables a guard was evaluated on, other than through assignments visible in the same function",
		"distinct builtin type constants of package types (Int, Float, String, Pattern, …) are not Equal to each other",
		"two symbols of one scope never share a name without a redeclaration error having been recorded")
	x := c03NewCtx(c, sc)
	sites := c03Sites(x)
	if os.Getenv("C03_DEBUG") != "" {
		for _, f := range sc.order {
			fmt.Printf("REACH %-70s via %s\n", f.Key, sc.via[f])
		}
	}
	x.r1(sites)
	c.Floor("C03-R1", 230)
	kinds := map[string]int{}
	for _, st := range sites {
		kinds[st.Kind]++
	}
	c.Extra["c03_scope_functions"] = len(sc.order)
	c.Extra["c03_sites_by_kind"] = kinds
	x.loadGrammar()
	if x.prodOK {
		c.Extra["c03_productions"] = len(x.prods)
	} else {
		c.Undecided("C03-R1", "grammar", "internal/runtime/compiler/parser/parser.y", "productions of parser.y could not be matched with the generated parser: "+x.prodWhy)
	}
	c03Rest(x)
	if os.Getenv("C03_DEBUG") != "" {
		for _, o := range c.Obs {
			fmt.Printf("OB %-9s %s %s @%s :: %s\n", o.Status, o.Rule, o.Construct, o.Pos, o.Detail)
		}
	}
}

func c03Rest(x *c03Ctx) {
	x.r2()
	x.r3()
	x.r4()
	x.r5()
	x.r6()
	x.r7()
}

// stackIndex: inside a grammar action `<stack>[k]` where the action starts with
// `<stack> = <S>[pt-L : pt+1]`: the slice has L+1 elements, so k <= L is in range.
func (x *c03Ctx) stackIndex(st *c03Site, need int64) *c03Verdict {
	ie, ok := st.N.(*ast.IndexExpr)
	if !ok {
		return nil
	}
	f := st.F
	info := f.Info()
	obj := identObj(info, ie.X)
	if obj == nil {
		return nil
	}
	par := x.parentsOf(f)
	var cc *ast.CaseClause
	for p := par[ie]; p != nil; p = par[p] {
		if c, ok := p.(*ast.CaseClause); ok {
			cc = c
			break
		}
	}
	if cc == nil || len(cc.Body) == 0 {
		return nil
	}
	as, ok := cc.Body[0].(*ast.AssignStmt)
	if !ok || len(as.Lhs) != 1 || len(as.Rhs) != 1 || identObj(info, as.Lhs[0]) != obj {
		return nil
	}
	se, ok := core.Unparen(as.Rhs[0]).(*ast.SliceExpr)
	if !ok || se.Low == nil || se.High == nil {
		return nil
	}
	// low = pt - L, high = pt + 1 over the same variable pt
	lo, ok1 := core.Unparen(se.Low).(*ast.BinaryExpr)
	hi, ok2 := core.Unparen(se.High).(*ast.BinaryExpr)
	if !ok1 || !ok2 || lo.Op != token.SUB || hi.Op != token.ADD || identObj(info, lo.X) == nil || identObj(info, lo.X) != identObj(info, hi.X) {
		return nil
	}
	L, okL := constInt(info, lo.Y)
	one, okH := constInt(info, hi.Y)
	if !okL || !okH || one != 1 {
		return nil
	}
	// no other assignment to the stack window in this clause
	n := 0
	ast.Inspect(cc, func(m ast.Node) bool {
		if a, ok := m.(*ast.AssignStmt); ok {
			for _, l := range a.Lhs {
				if identObj(info, l) == obj {
					n++
				}
			}
		}
		return true
	})
	if n != 1 {
		return nil
	}
	if need <= L+1 {
		return &c03Verdict{"ok", fmt.Sprintf("the action's window of the value stack has %d elements", L+1)}
	}
	return &c03Verdict{"fail", fmt.Sprintf("the action reads element %d of a value-stack window of %d elements: the parser panics with index out of range whenever this production is reduced", need-1, L+1)}
}

// regexpSubIndex: Sub[0] of a *regexp/syntax.Regexp whose Op is restricted, by the enclosing test, to the
// operators that regexp/syntax documents as having exactly one sub-expression.
func (x *c03Ctx) regexpSubIndex(st *c03Site, need int64) *c03Verdict {
	if need != 1 {
		return nil
	}
	f := st.F
	info := f.Info()
	se, ok := core.Unparen(st.X).(*ast.SelectorExpr)
	if !ok || se.Sel.Name != "Sub" {
		return nil
	}
	bt := info.TypeOf(se.X)
	if bt == nil || !strings.HasSuffix(bt.String(), "regexp/syntax.Regexp") {
		return nil
	}
	unary := map[string]bool{"OpCapture": true, "OpStar": true, "OpPlus": true, "OpQuest": true, "OpRepeat": true}
	isOpOf := func(e ast.Expr) bool {
		s, ok := core.Unparen(e).(*ast.SelectorExpr)
		return ok && s.Sel.Name == "Op" && c03SamePath(info, s.X, se.X)
	}
	constName := func(e ast.Expr) string {
		if o, ok := usedObj(info, e).(*types.Const); ok && o.Pkg() != nil && o.Pkg().Path() == "regexp/syntax" {
			return o.Name()
		}
		return ""
	}
	facts, _ := x.factsAt(f, st.N)
	for _, ft := range facts {
		if ft.Tag != nil && ft.Val && isOpOf(ft.Tag) {
			all := len(ft.In) > 0
			var names []string
			for _, e := range ft.In {
				all = all && unary[constName(e)]
				names = append(names, constName(e))
			}
			if all {
				return &c03Verdict{"ok", "the node's operator is one of " + strings.Join(names, ", ") + ", which regexp/syntax documents as having exactly one sub-expression (trusted base)"}
			}
		}
		if ft.Cond != nil && ft.Val {
			found := ""
			var walk func(e ast.Expr)
			walk = func(e ast.Expr) {
				if be, ok := core.Unparen(e).(*ast.BinaryExpr); ok {
					if be.Op == token.LAND {
						walk(be.X)
						walk(be.Y)
					} else if be.Op == token.EQL {
						if isOpOf(be.X) && unary[constName(be.Y)] {
							found = constName(be.Y)
						}
						if isOpOf(be.Y) && unary[constName(be.X)] {
							found = constName(be.X)
						}
					}
				}
			}
			walk(ft.Cond)
			if found != "" {
				return &c03Verdict{"ok", "the node's operator is " + found + ", which regexp/syntax documents as having exactly one sub-expression (trusted base)"}
			}
		}
	}
	return nil
}

// operandDischarge: `i.Operand.(T)` inside `case code.A, code.B` of a switch over i.Opcode, where i is an
// element of the code generator's program: every way an instruction with one of those opcodes is produced
// (emit call sites with their resolved opcode sets, and opcode overwrites) supplies an operand of static type T.
func (x *c03Ctx) operandDischarge(st *c03Site, ts *c03TS) *c03Verdict {
	f := st.F
	info := f.Info()
	ta := st.N.(*ast.TypeAssertExpr)
	se, ok := core.Unparen(ta.X).(*ast.SelectorExpr)
	if !ok {
		return nil
	}
	sel := info.Selections[se]
	if sel == nil || sel.Obj().Name() != "Operand" || !strings.HasSuffix(typeStr(sel.Recv()), "code.Instr") {
		return nil
	}
	want := typeStr(info.TypeOf(ta.Type))
	// the enclosing opcode clause on the same instruction
	var ops []string
	facts, _ := x.factsAt(f, ta)
	for _, ft := range facts {
		if ft.Tag == nil || !ft.Val {
			continue
		}
		ts, ok := core.Unparen(ft.Tag).(*ast.SelectorExpr)
		if !ok || ts.Sel.Name != "Opcode" || !c03SamePath(info, ts.X, se.X) {
			continue
		}
		for _, e := range ft.In {
			if op, ok := constOpcode(info, e); ok {
				ops = append(ops, op)
			} else {
				return &c03Verdict{"undecided", "non-constant opcode case"}
			}
		}
	}
	if len(ops) == 0 {
		return nil
	}
	emits, problems := extractEmits(x.c)
	if len(problems) > 0 {
		return &c03Verdict{"undecided", "emit sites not resolved: " + strings.Join(problems, "; ")}
	}
	// the instruction must come from the generator's own program: Program is appended to only in emit
	appends := 0
	for _, g := range x.ship {
		if core.Rel(g.Pkg.PkgPath) != "internal/runtime/compiler/codegen" {
			continue
		}
		core.InspectNoLit(g.Body, func(n ast.Node) bool {
			if as, ok := n.(*ast.AssignStmt); ok {
				for _, l := range as.Lhs {
					if strings.HasSuffix(core.PathOf(l), ".Program") {
						appends++
						if !strings.HasSuffix(g.Key, "(*codegen).emit") {
							appends += 100
						}
					}
				}
			}
			return true
		})
	}
	if appends != 1 {
		return &c03Verdict{"undecided", "the program is extended somewhere other than in emit"}
	}
	var bad []string
	n := 0
	for _, es := range emits {
		hit := false
		for _, o := range es.Ops {
			if has(ops, o) {
				hit = true
			}
		}
		if !hit {
			continue
		}
		n++
		if es.Call == nil {
			bad = append(bad, fmt.Sprintf("opcode overwritten to %s at %s (operand kept from another instruction)", es.OpExpr, pos(x.c, es.Node)))
			continue
		}
		if es.OpndType != want {
			bad = append(bad, fmt.Sprintf("emit(%s, %s) at %s has a %s operand", es.OpExpr, c03Short(exprStr(es.Operand)), pos(x.c, es.Node), es.OpndType))
		}
	}
	// operands rewritten later
	for _, g := range x.ship {
		if core.Rel(g.Pkg.PkgPath) != "internal/runtime/compiler/codegen" {
			continue
		}
		gi := g.Info()
		core.InspectNoLit(g.Body, func(nd ast.Node) bool {
			as, ok := nd.(*ast.AssignStmt)
			if !ok || len(as.Lhs) != 1 || len(as.Rhs) != 1 {
				return true
			}
			l, ok := core.Unparen(as.Lhs[0]).(*ast.SelectorExpr)
			if !ok || l.Sel.Name != "Operand" {
				return true
			}
			if t := operandType(gi, as.Rhs[0]); t != want {
				bad = append(bad, fmt.Sprintf("operand rewritten with a %s at %s", t, pos(x.c, as)))
			}
			return true
		})
	}
	if len(bad) > 0 {
		return &c03Verdict{"fail", fmt.Sprintf("%s asserts %s for opcodes %s, but %s: the jump-resolution pass panics", exprStr(ta), want, strings.Join(ops, ","), strings.Join(bad, "; "))}
	}
	if n == 0 {
		return &c03Verdict{"undecided", "no emit site for opcodes " + strings.Join(ops, ",")}
	}
	return &c03Verdict{"ok", fmt.Sprintf("all %d emit sites that can produce %s pass an operand of static type %s; emit is the only place that extends the program", n, strings.Join(ops, ","), want)}
}

// ---------------------------------------------------------------------------
// Discriminated payloads: a struct whose interface-typed field F holds different dynamic types
// depending on a constant stored in a sibling integer field D (symbol.Symbol.Binding by Kind,
// ast.UnaryExpr.Expr by Op).  The read B.F is resolved against only those writes whose struct has D in K.
// ---------------------------------------------------------------------------

// c03CS is a set of constant values (exact strings); Unknown means not bounded.
type c03CS struct {
	V       map[string]bool
	Unknown bool
}

func c03NewCS() *c03CS { return &c03CS{V: map[string]bool{}} }
func (a *c03CS) union(b *c03CS) *c03CS {
	if b == nil {
		return a
	}
	for k := range b.V {
		a.V[k] = true
	}
	a.Unknown = a.Unknown || b.Unknown
	return a
}
func (a *c03CS) disjoint(b *c03CS) bool {
	if a.Unknown || b.Unknown {
		return false
	}
	for k := range a.V {
		if b.V[k] {
			return false
		}
	}
	return true
}
func (a *c03CS) String() string { return "{" + strings.Join(sortedKeys(a.V), ",") + "}" }

func c03ConstStr(info *types.Info, e ast.Expr) (string, bool) {
	if tv, ok := info.Types[e]; ok && tv.Value != nil {
		return tv.Value.ExactString(), true
	}
	return "", false
}

// fieldOf resolves B.D for the struct that expression B points to.
func c03StructOf(t types.Type) *types.Struct {
	if t == nil {
		return nil
	}
	if p, ok := t.Underlying().(*types.Pointer); ok {
		t = p.Elem()
	}
	st, _ := t.Underlying().(*types.Struct)
	return st
}

// discFromFacts: the facts at n pin B.<D> to constants.
func (x *c03Ctx) discFromFacts(f *core.Func, n ast.Node, B ast.Expr, D *types.Var) *c03CS {
	facts, w := x.factsAt(f, n)
	if w != "" {
		return nil
	}
	info := f.Info()
	isBD := func(e ast.Expr) bool {
		se, ok := core.Unparen(e).(*ast.SelectorExpr)
		if !ok {
			return false
		}
		sel := info.Selections[se]
		return sel != nil && sel.Obj() == types.Object(D) && c03SamePath(info, se.X, B)
	}
	var res *c03CS
	var visit func(c ast.Expr, val bool)
	visit = func(c ast.Expr, val bool) {
		switch v := core.Unparen(c).(type) {
		case *ast.UnaryExpr:
			if v.Op == token.NOT {
				visit(v.X, !val)
			}
		case *ast.BinaryExpr:
			if v.Op == token.LAND && val || v.Op == token.LOR && !val {
				visit(v.X, val)
				visit(v.Y, val)
				return
			}
			if (v.Op == token.EQL && val) || (v.Op == token.NEQ && !val) {
				for _, pr := range [][2]ast.Expr{{v.X, v.Y}, {v.Y, v.X}} {
					if isBD(pr[0]) {
						if k, ok := c03ConstStr(info, pr[1]); ok {
							res = c03NewCS()
							res.V[k] = true
						}
					}
				}
			}
		}
	}
	for _, ft := range facts {
		if ft.Cond != nil {
			visit(ft.Cond, ft.Val)
		} else if ft.Val && isBD(ft.Tag) {
			cs := c03NewCS()
			for _, e := range ft.In {
				k, ok := c03ConstStr(info, e)
				if !ok {
					cs.Unknown = true
				}
				cs.V[k] = true
			}
			res = cs
		}
	}
	return res
}

// discOf: the constants field D of the struct that expression B (evaluated in f at node `at`) points to can hold.
func (x *c03Ctx) discOf(f *core.Func, B ast.Expr, D *types.Var, at ast.Node, depth int) *c03CS {
	unknown := &c03CS{V: map[string]bool{}, Unknown: true}
	if depth > 6 {
		return unknown
	}
	if cs := x.discFromFacts(f, at, B, D); cs != nil {
		return cs
	}
	info := f.Info()
	B = core.Unparen(B)
	if isNilIdent(info, B) {
		return c03NewCS()
	}
	switch v := B.(type) {
	case *ast.UnaryExpr:
		if v.Op == token.AND {
			if cl, ok := core.Unparen(v.X).(*ast.CompositeLit); ok {
				return x.discOfLiteral(f, cl, D, depth)
			}
		}
	case *ast.CompositeLit:
		return x.discOfLiteral(f, v, D, depth)
	case *ast.CallExpr:
		g := f.CalleeFunc(v)
		if g == nil {
			return unknown
		}
		return x.discOfResult(g, D, func(p types.Object) *c03CS {
			sig := g.Obj.Type().(*types.Signature)
			for i := 0; i < sig.Params().Len(); i++ {
				if types.Object(sig.Params().At(i)) == p && i < len(v.Args) {
					return x.intConsts(f, v.Args[i], depth+1)
				}
			}
			return unknown
		}, depth)
	case *ast.Ident:
		obj, _ := identObj(info, v).(*types.Var)
		if obj == nil {
			return unknown
		}
		decl := x.c.Prog.FuncOf[f.Decl]
		if owner := x.paramOwner(decl, obj); owner != nil {
			sites, ok := x.callersOf(owner)
			if !ok || len(sites) == 0 || x.reassigned(owner, obj) {
				return unknown
			}
			sig := owner.Obj.Type().(*types.Signature)
			r := c03NewCS()
			for i := 0; i < sig.Params().Len(); i++ {
				if sig.Params().At(i) == obj {
					for _, cs := range sites {
						if i >= len(cs.Call.Args) {
							return unknown
						}
						r.union(x.discOf(cs.F, cs.Call.Args[i], D, cs.Call, depth+1))
					}
				}
			}
			return r
		}
		// local: all definitions
		r := c03NewCS()
		n := 0
		ast.Inspect(f.Decl, func(m ast.Node) bool {
			switch a := m.(type) {
			case *ast.AssignStmt:
				for i, l := range a.Lhs {
					if identObj(info, l) != types.Object(obj) {
						continue
					}
					n++
					if len(a.Rhs) == len(a.Lhs) {
						r.union(x.discOf(x.funcAt(decl, a), a.Rhs[i], D, a, depth+1))
					} else {
						r.Unknown = true
					}
				}
			case *ast.ValueSpec:
				for i, nm := range a.Names {
					if info.Defs[nm] == types.Object(obj) {
						n++
						if i < len(a.Values) && len(a.Values) == len(a.Names) {
							r.union(x.discOf(x.funcAt(decl, a), a.Values[i], D, a, depth+1))
						}
					}
				}
			case *ast.RangeStmt:
				if (a.Key != nil && identObj(info, a.Key) == types.Object(obj)) || (a.Value != nil && identObj(info, a.Value) == types.Object(obj)) {
					r.Unknown = true
				}
			}
			return true
		})
		if n == 0 {
			r.Unknown = true
		}
		return r
	case *ast.SelectorExpr:
		sel := info.Selections[v]
		if sel == nil || sel.Kind() != types.FieldVal {
			return unknown
		}
		G := sel.Obj().(*types.Var)
		r := c03NewCS()
		for _, w := range x.fieldWriteSites(G) {
			if w.F == nil {
				r.Unknown = true
				continue
			}
			if w.Zero {
				continue
			}
			r.union(x.discOf(w.F, w.Val, D, w.At, depth+1))
		}
		return r
	}
	return unknown
}

func (x *c03Ctx) discOfLiteral(f *core.Func, cl *ast.CompositeLit, D *types.Var, depth int) *c03CS {
	val, zero, ok := c03LitField(f.Info(), cl, D)
	if !ok {
		return &c03CS{V: map[string]bool{}, Unknown: true}
	}
	if zero {
		r := c03NewCS()
		r.V["0"] = true
		return r
	}
	return x.intConsts(f, val, depth+1)
}

// c03LitField: the expression a composite literal gives to field fld (zero=true if it is left out).
func c03LitField(info *types.Info, cl *ast.CompositeLit, fld *types.Var) (val ast.Expr, zero bool, ok bool) {
	st := c03StructOf(info.TypeOf(cl))
	if st == nil {
		return nil, false, false
	}
	idx := -1
	for i := 0; i < st.NumFields(); i++ {
		if st.Field(i) == fld {
			idx = i
		}
	}
	if idx < 0 {
		return nil, false, false
	}
	if len(cl.Elts) == 0 {
		return nil, true, true
	}
	if _, keyed := cl.Elts[0].(*ast.KeyValueExpr); keyed {
		for _, el := range cl.Elts {
			kv := el.(*ast.KeyValueExpr)
			if id, isId := kv.Key.(*ast.Ident); isId && info.Uses[id] == types.Object(fld) {
				return kv.Value, false, true
			}
		}
		return nil, true, true
	}
	if idx < len(cl.Elts) {
		return cl.Elts[idx], false, true
	}
	return nil, false, false
}

// intConsts: the constants an integer expression can evaluate to: a constant, a parameter (from in-scope
// callers), a local with constant definitions, or the operator field of a grammar symbol.
func (x *c03Ctx) intConsts(f *core.Func, e ast.Expr, depth int) *c03CS {
	unknown := &c03CS{V: map[string]bool{}, Unknown: true}
	if depth > 6 {
		return unknown
	}
	info := f.Info()
	if k, ok := c03ConstStr(info, e); ok {
		r := c03NewCS()
		r.V[k] = true
		return r
	}
	switch v := core.Unparen(e).(type) {
	case *ast.SelectorExpr:
		if cs := x.grammarConsts(f, v); cs != nil {
			return cs
		}
	case *ast.CallExpr:
		if tv, ok := info.Types[v.Fun]; ok && tv.IsType() && len(v.Args) == 1 {
			return x.intConsts(f, v.Args[0], depth+1)
		}
	case *ast.Ident:
		obj, _ := identObj(info, v).(*types.Var)
		if obj == nil {
			return unknown
		}
		decl := x.c.Prog.FuncOf[f.Decl]
		if owner := x.paramOwner(decl, obj); owner != nil {
			sites, ok := x.callersOf(owner)
			if !ok || len(sites) == 0 || x.reassigned(owner, obj) {
				return unknown
			}
			sig := owner.Obj.Type().(*types.Signature)
			r := c03NewCS()
			for i := 0; i < sig.Params().Len(); i++ {
				if sig.Params().At(i) == obj {
					for _, cs := range sites {
						if i >= len(cs.Call.Args) {
							return unknown
						}
						r.union(x.intConsts(cs.F, cs.Call.Args[i], depth+1))
					}
				}
			}
			return r
		}
	}
	return unknown
}

// discOfResult: what D holds in the struct returned by g: per return statement a literal's D expression, or a
// returned expression under the fact `<it>.D == <param>`; parameters are resolved by arg.
func (x *c03Ctx) discOfResult(g *core.Func, D *types.Var, arg func(types.Object) *c03CS, depth int) *c03CS {
	info := g.Info()
	r := c03NewCS()
	core.InspectNoLit(g.Body, func(n ast.Node) bool {
		rs, ok := n.(*ast.ReturnStmt)
		if !ok {
			return true
		}
		var e ast.Expr
		switch {
		case len(rs.Results) >= 1:
			e = core.Unparen(rs.Results[0])
		default:
			// named result: its single definition
			if g.Type.Results != nil && len(g.Type.Results.List) > 0 && len(g.Type.Results.List[0].Names) > 0 {
				if def := x.singleDef(g, info.Defs[g.Type.Results.List[0].Names[0]]); def != nil {
					e = core.Unparen(def)
				}
			}
		}
		if e == nil {
			r.Unknown = true
			return true
		}
		if isNilIdent(info, e) {
			return true
		}
		var cl *ast.CompositeLit
		if u, ok := e.(*ast.UnaryExpr); ok && u.Op == token.AND {
			cl, _ = core.Unparen(u.X).(*ast.CompositeLit)
		}
		var dexpr ast.Expr
		if cl != nil {
			v, zero, ok := c03LitField(info, cl, D)
			switch {
			case !ok:
				r.Unknown = true
				return true
			case zero:
				r.V["0"] = true
				return true
			}
			dexpr = v
		} else {
			// a fact e.D == X at the return
			facts, _ := x.factsAt(g, rs)
			for _, ft := range facts {
				if ft.Cond == nil || !ft.Val {
					continue
				}
				var walk func(c ast.Expr)
				walk = func(c ast.Expr) {
					be, ok := core.Unparen(c).(*ast.BinaryExpr)
					if !ok {
						return
					}
					if be.Op == token.LAND {
						walk(be.X)
						walk(be.Y)
						return
					}
					if be.Op != token.EQL {
						return
					}
					for _, pr := range [][2]ast.Expr{{be.X, be.Y}, {be.Y, be.X}} {
						se, ok := core.Unparen(pr[0]).(*ast.SelectorExpr)
						if !ok {
							continue
						}
						if sel := info.Selections[se]; sel != nil && sel.Obj() == types.Object(D) && c03SamePath(info, se.X, e) {
							dexpr = pr[1]
						}
					}
				}
				walk(ft.Cond)
			}
		}
		if dexpr == nil {
			r.Unknown = true
			return true
		}
		if k, ok := c03ConstStr(info, dexpr); ok {
			r.V[k] = true
			return true
		}
		if o := identObj(info, dexpr); o != nil && x.paramOwner(g, asVar(o)) != nil && !x.reassigned(g, o) {
			r.union(arg(o))
			return true
		}
		r.Unknown = true
		return true
	})
	return r
}

func asVar(o types.Object) *types.Var { v, _ := o.(*types.Var); return v }

type c03Write struct {
	F    *core.Func // nil for package-level initialisers
	At   ast.Node
	Val  ast.Expr          // value expression (nil when Zero)
	Zero bool              // field left at its zero value
	Lit  *ast.CompositeLit // the literal, for literal writes
	Base ast.Expr          // B of the assignment B.F = Val
	Call *ast.CallExpr     // tuple assignment from a call
	Idx  int
}

// fieldWriteSites lists the writes to a struct field in shipped code.
func (x *c03Ctx) fieldWriteSites(fld *types.Var) []c03Write {
	var out []c03Write
	scan := func(info *types.Info, root ast.Node, at func(n ast.Node) *core.Func) {
		ast.Inspect(root, func(n ast.Node) bool {
			switch v := n.(type) {
			case *ast.CompositeLit:
				val, zero, ok := c03LitField(info, v, fld)
				if ok {
					out = append(out, c03Write{F: at(v), At: v, Val: val, Zero: zero, Lit: v})
				}
			case *ast.AssignStmt:
				for i, l := range v.Lhs {
					se, ok := core.Unparen(l).(*ast.SelectorExpr)
					if !ok {
						continue
					}
					if sel := info.Selections[se]; sel == nil || sel.Obj() != types.Object(fld) {
						continue
					}
					w := c03Write{F: at(v), At: v, Base: se.X}
					if len(v.Rhs) == len(v.Lhs) {
						w.Val = v.Rhs[i]
					} else if call, ok := core.Unparen(v.Rhs[0]).(*ast.CallExpr); ok {
						w.Call, w.Idx = call, i
					}
					out = append(out, w)
				}
			}
			return true
		})
	}
	for _, f := range x.ship {
		if f.Lit != nil {
			continue
		}
		ff := f
		scan(f.Info(), f.Decl, func(n ast.Node) *core.Func { return x.funcAt(ff, n) })
	}
	for _, pk := range x.c.Prog.All {
		for _, file := range pk.Syntax {
			for _, d := range file.Decls {
				if gd, ok := d.(*ast.GenDecl); ok {
					scan(pk.TypesInfo, gd, func(ast.Node) *core.Func { return nil })
				}
			}
		}
	}
	return out
}

// bindingDischarge: discriminated-payload discharge of `B.F.(T)`.
func (x *c03Ctx) bindingDischarge(st *c03Site, all *c03TS) *c03Verdict {
	f := st.F
	info := f.Info()
	ta := st.N.(*ast.TypeAssertExpr)
	se, ok := core.Unparen(ta.X).(*ast.SelectorExpr)
	if !ok {
		return nil
	}
	sel := info.Selections[se]
	if sel == nil || sel.Kind() != types.FieldVal {
		return nil
	}
	F := sel.Obj().(*types.Var)
	S := c03StructOf(info.TypeOf(se.X))
	if S == nil {
		return nil
	}
	T := info.TypeOf(ta.Type)
	for i := 0; i < S.NumFields(); i++ {
		D := S.Field(i)
		b, isB := D.Type().Underlying().(*types.Basic)
		if D == F || !isB || b.Info()&types.IsInteger == 0 {
			continue
		}
		K := x.discOf(f, se.X, D, ta, 0)
		if K.Unknown || len(K.V) == 0 {
			continue
		}
		// D must never change after construction
		for _, w := range x.fieldWriteSites(D) {
			if w.Lit == nil {
				K = nil
			}
		}
		if K == nil {
			continue
		}
		key := fmt.Sprintf("rfield:%s|%s=%s", c03ObjKey(F), D.Name(), K)
		ts := x.solver.solve(func() *c03TS {
			r := x.solver.get(key, func() *c03TS { return x.restrictedWrites(F, D, K, key) })
			if r.hasNil() && x.nonNil(f, ta, ta.X) {
				return r.without("nil")
			}
			return r
		})
		if ts.Unknown != "" || len(ts.M) == 0 {
			continue
		}
		okAll := true
		for k, t := range ts.M {
			if k == "nil" || !types.Identical(t, T) {
				okAll = false
			}
		}
		if okAll {
			return &c03Verdict{"ok", fmt.Sprintf("%s.%s is %s here, and every %s stored into a %s with that %s has dynamic type %s", exprStr(se.X), D.Name(), K, F.Name(), c03TypeKey(info.TypeOf(se.X)), D.Name(), ts)}
		}
		return &c03Verdict{"fail", fmt.Sprintf("unchecked type assertion to %s: %s.%s is %s here, but a %s with that %s can hold %s — Compile panics with an interface-conversion error", c03TypeKey(T), exprStr(se.X), D.Name(), K, F.Name(), D.Name(), ts)}
	}
	return nil
}

// restrictedWrites: the values stored into field F of structs whose field D is (or may be) one of K.
func (x *c03Ctx) restrictedWrites(F, D *types.Var, K *c03CS, key string) *c03TS {
	r := c03Empty()
	for _, w := range x.fieldWriteSites(F) {
		if w.F == nil {
			r.union(c03Unknown("package-level write to " + F.Name()))
			continue
		}
		if w.Lit != nil {
			if x.discOfLiteral(w.F, w.Lit, D, 0).disjoint(K) {
				continue
			}
			if w.Zero {
				r.M["nil"] = nil
			} else {
				r.union(x.dynAt(w.F, w.Val, w.At, nil))
			}
			continue
		}
		if x.discOf(w.F, w.Base, D, w.At, 0).disjoint(K) {
			continue
		}
		switch {
		case w.Val != nil:
			// B.F = Walk(v, B.F): the value read back is itself restricted
			if call, ok := core.Unparen(w.Val).(*ast.CallExpr); ok && len(call.Args) == 2 {
				if g := w.F.CalleeFunc(call); g != nil && g.Key == c03Walk {
					if s2, ok := core.Unparen(call.Args[1]).(*ast.SelectorExpr); ok {
						if sl := w.F.Info().Selections[s2]; sl != nil && sl.Obj() == types.Object(F) && c03SamePath(w.F.Info(), s2.X, w.Base) {
							r.union(x.walkOver(w.F, call, x.solver.get(key, nil)))
							continue
						}
					}
				}
			}
			r.union(x.dynAt(w.F, w.Val, w.At, nil))
		case w.Call != nil:
			r.union(x.dynCallResult(w.F, w.Call, w.Idx))
		default:
			r.union(c03Unknown("tuple assignment to " + F.Name()))
		}
	}
	return r
}

// walkOver: ast.Walk(v, n) for a walked node of the given dynamic types.
func (x *c03Ctx) walkOver(f *core.Func, call *ast.CallExpr, in *c03TS) *c03TS {
	if in.Unknown != "" {
		return c03Unknown(in.Unknown)
	}
	all, it := x.visitorTypes()
	if it == nil {
		return c03Unknown("ast.Visitor not found")
	}
	vs := all
	if vt := f.Info().TypeOf(call.Args[0]); vt != nil {
		if _, isI := vt.Underlying().(*types.Interface); !isI {
			if nt := c03Named(vt); nt != nil {
				vs = []*types.Named{nt}
			}
		}
	}
	r := c03Empty()
	for k, T := range in.M {
		if k == "nil" {
			if !x.nonNil(f, call, call.Args[1]) {
				return c03Unknown("a nil node may be walked")
			}
			continue
		}
		for _, V := range vs {
			r.union(x.walkOne(V, T))
		}
	}
	return r
}

// ---- grammar: operator constants carried by symbols ---------------------------

// grammarConsts: inside an action, `<stack>[k].<intfield>`: the token constants the symbol's value can be.
func (x *c03Ctx) grammarConsts(f *core.Func, se *ast.SelectorExpr) *c03CS {
	n, k, ok := x.stackValue(f, se)
	if !ok || k == 0 {
		return nil
	}
	if k > len(x.prods[n].Syms) {
		return nil
	}
	return x.symConsts(x.prods[n].Syms[k-1], se.Sel.Name, 0)
}

func (x *c03Ctx) symConsts(sym, fld string, depth int) *c03CS {
	unknown := &c03CS{V: map[string]bool{}, Unknown: true}
	if depth > 8 {
		return unknown
	}
	pf := x.c.Prog.Fn(c03ParseKey)
	if _, isNT := x.gram.Rules[sym]; !isNT {
		// a token: the driver stores the token's own number in the field
		if x.gram.Tokens[sym] != fld {
			return unknown
		}
		if why := x.lexStoresKind(sym, fld); why != "" {
			return unknown
		}
		o := x.tokenConst(sym)
		c, _ := o.(*types.Const)
		if c == nil {
			return unknown
		}
		r := c03NewCS()
		r.V[c.Val().ExactString()] = true
		return r
	}
	if x.gram.Types[sym] != fld {
		return unknown
	}
	r := c03NewCS()
	for n := 1; n < len(x.prods); n++ {
		p := x.prods[n]
		if p.Head != sym {
			continue
		}
		ws := x.registerWrites(pf, p.Clause, fld)
		if len(ws) == 0 {
			if len(p.Syms) == 0 {
				return unknown
			}
			r.union(x.symConsts(p.Syms[0], fld, depth+1))
			continue
		}
		for _, as := range ws {
			if k, ok := c03ConstStr(pf.Info(), as.Rhs[0]); ok {
				r.V[k] = true
				continue
			}
			se, ok := core.Unparen(as.Rhs[0]).(*ast.SelectorExpr)
			if !ok {
				return unknown
			}
			cs := x.grammarConsts(pf, se)
			if cs == nil {
				return unknown
			}
			r.union(cs)
		}
	}
	return r
}

// lexStoresKind: in the driver's Lex, the clause listing the token assigns the token kind to lval.<fld>
// and the function returns that same kind.
func (x *c03Ctx) lexStoresKind(tok, fld string) string {
	lx := x.c.Prog.Fn(c03LexKey)
	if lx == nil {
		return "driver Lex not found"
	}
	info := lx.Info()
	to := x.tokenConst(tok)
	if to == nil {
		return "token not found"
	}
	why := "no clause for " + tok
	ast.Inspect(lx.Body, func(n ast.Node) bool {
		sw, ok := n.(*ast.SwitchStmt)
		if !ok || sw.Tag == nil {
			return true
		}
		for _, cl := range sw.Body.List {
			cc := cl.(*ast.CaseClause)
			listed := false
			for _, e := range cc.List {
				if usedObj(info, e) == to {
					listed = true
				}
			}
			if !listed {
				continue
			}
			why = "the clause for " + tok + " does not store the kind in " + fld
			for _, s := range cc.Body {
				as, ok := s.(*ast.AssignStmt)
				if !ok || len(as.Lhs) != 1 || len(as.Rhs) != 1 {
					continue
				}
				l, ok := core.Unparen(as.Lhs[0]).(*ast.SelectorExpr)
				if !ok || l.Sel.Name != fld {
					continue
				}
				if conv, ok := core.Unparen(as.Rhs[0]).(*ast.CallExpr); ok && len(conv.Args) == 1 && exprStr(conv.Args[0]) == exprStr(sw.Tag) {
					why = ""
				}
			}
		}
		// the value returned after the switch is the same kind
		return true
	})
	return why
}

// ---------------------------------------------------------------------------
// Builtin arity: after the type checker's unification of the call's argument list with the builtin's
// declared signature succeeded, the argument list has exactly the declared number of elements.
// ---------------------------------------------------------------------------

type c03Arity struct {
	shape   bool            // why is about an unrecognised shape, not a fact found wrong
	why     string          // non-empty: the facts could not be established
	builtin map[string]int  // name -> number of Function(...) arguments (parameters + result)
	clause  *ast.CaseClause // checker's BuiltinExpr clause
	guard   *ast.IfStmt     // the `if AsTypeError(unify result) { …; return }`
	got     types.Object    // the variable holding Function(argTypes...)
	nodeVar types.Object    // the clause-bound node variable
	facts   []string
}

const (
	c03CheckAfter  = "internal/runtime/compiler/checker.(*checker).VisitAfter"
	c03CheckFn     = "internal/runtime/compiler/checker.Check"
	c03GenAfter    = "internal/runtime/compiler/codegen.(*codegen).VisitAfter"
	c03TypesPkg    = "internal/runtime/compiler/types"
	c03UnifyKey    = "internal/runtime/compiler/types.Unify"
	c03FreshKey    = "internal/runtime/compiler/types.FreshType"
	c03FunctionKey = "internal/runtime/compiler/types.Function"
	c03AsTypeError = "internal/runtime/compiler/types.AsTypeError"
	c03ErrAdd      = "internal/runtime/compiler/errors.(*ErrorList).Add"
)

var c03ArityCache *c03Arity

// typeSwitchClause finds, in method g, the clause for *ast.<name> of the type switch on g's node parameter.
func (x *c03Ctx) nodeClause(g *core.Func, name string) (*ast.CaseClause, types.Object) {
	info := g.Info()
	sig := g.Obj.Type().(*types.Signature)
	if sig.Params().Len() != 1 {
		return nil, nil
	}
	P := types.Object(sig.Params().At(0))
	var out *ast.CaseClause
	ast.Inspect(g.Body, func(n ast.Node) bool {
		ts, ok := n.(*ast.TypeSwitchStmt)
		if !ok || !x.typeSwitchOn(info, ts, P) {
			return true
		}
		for _, cl := range ts.Body.List {
			cc := cl.(*ast.CaseClause)
			if len(cc.List) != 1 {
				continue
			}
			if nt := c03Named(info.TypeOf(cc.List[0])); nt != nil && nt.Obj().Name() == name && strings.HasSuffix(nt.Obj().Pkg().Path(), "compiler/ast") {
				out = cc
			}
		}
		return false
	})
	if out == nil {
		return nil, nil
	}
	return out, info.Implicits[out]
}

// oneAppendLoop: rs is `for _, e := range X { S = append(S, <one value>) }`.
func c03OneAppendLoop(info *types.Info, rs *ast.RangeStmt) (slice types.Object, ok bool) {
	if len(rs.Body.List) != 1 {
		return nil, false
	}
	as, isAs := rs.Body.List[0].(*ast.AssignStmt)
	if !isAs || len(as.Lhs) != 1 || len(as.Rhs) != 1 {
		return nil, false
	}
	call, isC := core.Unparen(as.Rhs[0]).(*ast.CallExpr)
	if !isC || len(call.Args) != 2 || call.Ellipsis.IsValid() {
		return nil, false
	}
	if id, isId := core.Unparen(call.Fun).(*ast.Ident); !isId || id.Name != "append" {
		return nil, false
	}
	o := identObj(info, as.Lhs[0])
	if o == nil || identObj(info, call.Args[0]) != o {
		return nil, false
	}
	return o, true
}

func (x *c03Ctx) arity() *c03Arity {
	if c03ArityCache != nil {
		return c03ArityCache
	}
	a := &c03Arity{builtin: map[string]int{}}
	c03ArityCache = a
	fail := func(s string) *c03Arity { a.why = s; return a }
	shape := func(s string) *c03Arity { a.why, a.shape = s, true; return a }
	// A4: types.Builtins
	tp := x.c.Prog.Pkgs[c03TypesPkg]
	if tp == nil {
		return shape("package types not loaded")
	}
	for _, file := range tp.Syntax {
		for _, d := range file.Decls {
			gd, ok := d.(*ast.GenDecl)
			if !ok {
				continue
			}
			for _, sp := range gd.Specs {
				vs, ok := sp.(*ast.ValueSpec)
				if !ok || len(vs.Names) != 1 || vs.Names[0].Name != "Builtins" || len(vs.Values) != 1 {
					continue
				}
				lit, ok := vs.Values[0].(*ast.CompositeLit)
				if !ok {
					return shape("types.Builtins is not a map literal")
				}
				for _, el := range lit.Elts {
					kv, ok := el.(*ast.KeyValueExpr)
					if !ok {
						return shape("types.Builtins entry not keyed")
					}
					name, okN := c03ConstStr(tp.TypesInfo, kv.Key)
					call, okC := core.Unparen(kv.Value).(*ast.CallExpr)
					if !okN || !okC || call.Ellipsis.IsValid() {
						return shape("types.Builtins entry not of the form name: Function(…)")
					}
					if fn, _ := c03CalleeObj(tp.TypesInfo, call).(*types.Func); fn == nil || core.FuncID(fn) != c03FunctionKey {
						return fail("types.Builtins entry for " + name + " is not built by types.Function")
					}
					a.builtin[strings.Trim(name, `"`)] = len(call.Args)
				}
			}
		}
	}
	if len(a.builtin) == 0 {
		return shape("types.Builtins not found")
	}
	a.facts = append(a.facts, fmt.Sprintf("types.Builtins declares %d signatures", len(a.builtin)))
	// A5: Function(args...) returns &Operator{<name>, args}
	if fn := x.c.Prog.Fn(c03FunctionKey); fn == nil {
		return shape("types.Function not found")
	} else {
		ok := false
		sig := fn.Obj.Type().(*types.Signature)
		core.InspectNoLit(fn.Body, func(n ast.Node) bool {
			if rs, isR := n.(*ast.ReturnStmt); isR && len(rs.Results) == 1 {
				if u, isU := core.Unparen(rs.Results[0]).(*ast.UnaryExpr); isU && u.Op == token.AND {
					if cl, isL := core.Unparen(u.X).(*ast.CompositeLit); isL {
						st := c03StructOf(fn.Info().TypeOf(cl))
						for i := 0; st != nil && i < st.NumFields(); i++ {
							if st.Field(i).Name() == "Args" {
								if v, _, okF := c03LitField(fn.Info(), cl, st.Field(i)); okF && v != nil && sig.Variadic() && identObj(fn.Info(), v) == types.Object(sig.Params().At(sig.Params().Len()-1)) {
									ok = true
								}
							}
						}
					}
				}
			}
			return true
		})
		if !ok {
			return fail("types.Function does not return an Operator whose Args is its argument list")
		}
	}
	// A2: Unify rejects operators of different arity
	un := x.c.Prog.Fn(c03UnifyKey)
	if un == nil {
		return shape("types.Unify not found")
	}
	{
		ok := false
		info := un.Info()
		ast.Inspect(un.Body, func(n ast.Node) bool {
			is, isIf := n.(*ast.IfStmt)
			if !isIf {
				return true
			}
			be, isB := core.Unparen(is.Cond).(*ast.BinaryExpr)
			if !isB || be.Op != token.NEQ {
				return true
			}
			lx, ly := x.lenOperand(un, be.X), x.lenOperand(un, be.Y)
			if lx == nil || ly == nil {
				return true
			}
			sx, okx := core.Unparen(lx).(*ast.SelectorExpr)
			sy, oky := core.Unparen(ly).(*ast.SelectorExpr)
			if !okx || !oky || sx.Sel.Name != "Args" || sy.Sel.Name != "Args" || c03RootObj(info, sx.X) == c03RootObj(info, sy.X) {
				return true
			}
			if len(is.Body.List) == 1 {
				if rs, isR := is.Body.List[0].(*ast.ReturnStmt); isR && len(rs.Results) == 1 {
					if nt := c03Named(info.TypeOf(rs.Results[0])); nt != nil && nt.Obj().Name() == "TypeError" {
						ok = true
					}
				}
			}
			return true
		})
		if !ok {
			return fail("types.Unify has no `len(a.Args) != len(b.Args)` test returning a TypeError: operators of different arity may unify")
		}
	}
	// A3: FreshType copies an operator with one fresh argument per argument
	if fr := x.c.Prog.Fn(c03FreshKey); fr == nil {
		return shape("types.FreshType not found")
	} else {
		ok := false
		ast.Inspect(fr.Decl, func(n ast.Node) bool {
			if rs, isR := n.(*ast.RangeStmt); isR {
				if se, isS := core.Unparen(rs.X).(*ast.SelectorExpr); isS && se.Sel.Name == "Args" {
					if _, one := c03OneAppendLoop(fr.Info(), rs); one {
						ok = true
					}
				}
			}
			return true
		})
		if !ok {
			return fail("types.FreshType does not rebuild an operator with one argument per argument")
		}
	}
	// AsTypeError(t, &e) is true exactly when t holds a *TypeError
	if at := x.c.Prog.Fn(c03AsTypeError); at == nil {
		return shape("types.AsTypeError not found")
	}
	// A1: the checker's BuiltinExpr clause
	ck := x.c.Prog.Fn(c03CheckAfter)
	if ck == nil {
		return shape("checker.VisitAfter not found")
	}
	cc, nodeVar := x.nodeClause(ck, "BuiltinExpr")
	if cc == nil {
		return fail("checker.VisitAfter has no clause for *ast.BuiltinExpr")
	}
	a.clause, a.nodeVar = cc, nodeVar
	info := ck.Info()
	var unifyCall *ast.CallExpr
	var unifyLhs types.Object
	for _, s := range cc.Body {
		as, ok := s.(*ast.AssignStmt)
		if !ok || len(as.Lhs) != 1 || len(as.Rhs) != 1 {
			continue
		}
		if call, ok := core.Unparen(as.Rhs[0]).(*ast.CallExpr); ok && ck.CalleeID(call) == c03UnifyKey && len(call.Args) == 2 {
			unifyCall, unifyLhs = call, identObj(info, as.Lhs[0])
		}
	}
	if unifyCall == nil {
		return shape("the BuiltinExpr clause does not unify the call with the builtin's signature at its top level")
	}
	// one operand is FreshType(Builtins[n.Name]), the other Function(argTypes...)
	var gotCall *ast.CallExpr
	wantOK := false
	for _, arg := range unifyCall.Args {
		def := x.singleDef(ck, identObj(info, arg))
		call, _ := core.Unparen(def).(*ast.CallExpr)
		if call == nil {
			continue
		}
		switch ck.CalleeID(call) {
		case c03FreshKey:
			if ix, ok := core.Unparen(call.Args[0]).(*ast.IndexExpr); ok {
				if se, ok := core.Unparen(ix.Index).(*ast.SelectorExpr); ok && se.Sel.Name == "Name" && identObj(info, se.X) == nodeVar {
					if o, _ := usedObj(info, ix.X).(*types.Var); o != nil && o.Name() == "Builtins" && o.Pkg() == tp.Types {
						wantOK = true
					}
				}
			}
		case c03FunctionKey:
			if call.Ellipsis.IsValid() && len(call.Args) == 1 {
				gotCall = call
				a.got = identObj(info, arg)
			}
		}
	}
	if !wantOK || gotCall == nil {
		return shape("the unification in the BuiltinExpr clause is not between FreshType(Builtins[n.Name]) and Function(<argument types>...)")
	}
	argTypes := identObj(info, gotCall.Args[0])
	// argTypes: empty literal, one append per child of n.Args.(*ast.ExprList), one unconditional append
	nInit, nLoop, nTop, other := 0, 0, 0, 0
	ast.Inspect(cc, func(n ast.Node) bool {
		switch v := n.(type) {
		case *ast.RangeStmt:
			if o, one := c03OneAppendLoop(info, v); one && o == argTypes {
				se, ok := core.Unparen(v.X).(*ast.SelectorExpr)
				if ok && se.Sel.Name == "Children" {
					// the ranged list is the ExprList obtained from n.Args by a comma-ok assertion
					if def := x.singleDefTuple(ck, identObj(info, se.X)); def != nil {
						if ta, ok := core.Unparen(def).(*ast.TypeAssertExpr); ok {
							if s2, ok := core.Unparen(ta.X).(*ast.SelectorExpr); ok && s2.Sel.Name == "Args" && identObj(info, s2.X) == nodeVar {
								nLoop++
								return false
							}
						}
					}
				}
				other++
				return false
			}
		case *ast.AssignStmt:
			for i, l := range v.Lhs {
				if identObj(info, l) != argTypes {
					continue
				}
				if len(v.Rhs) != len(v.Lhs) {
					other++
					continue
				}
				switch r := core.Unparen(v.Rhs[i]).(type) {
				case *ast.CompositeLit:
					if len(r.Elts) == 0 {
						nInit++
					} else {
						other++
					}
				case *ast.CallExpr:
					top := false
					for _, s := range cc.Body {
						top = top || s == ast.Stmt(v)
					}
					if id, ok := core.Unparen(r.Fun).(*ast.Ident); ok && id.Name == "append" && len(r.Args) == 2 && !r.Ellipsis.IsValid() && identObj(info, r.Args[0]) == argTypes && top && v.End() < gotCall.Pos() {
						nTop++
					} else {
						other++
					}
				default:
					other++
				}
			}
		}
		return true
	})
	if nInit != 1 || nLoop != 1 || nTop != 1 || other != 0 {
		return shape(fmt.Sprintf("the argument type list of the BuiltinExpr clause is not built as: empty, one element per argument, one result type (init=%d loop=%d result=%d other=%d)", nInit, nLoop, nTop, other))
	}
	// the guard
	for _, s := range cc.Body {
		is, ok := s.(*ast.IfStmt)
		if !ok || is.Pos() < unifyCall.End() {
			continue
		}
		call, ok := core.Unparen(is.Cond).(*ast.CallExpr)
		if !ok || ck.CalleeID(call) != c03AsTypeError || len(call.Args) != 2 || identObj(info, call.Args[0]) != unifyLhs {
			continue
		}
		if !c03Leaves(info, is.Body) {
			return fail("the BuiltinExpr clause does not leave when unification with the builtin's signature fails")
		}
		a.guard = is
		break
	}
	if a.guard == nil {
		return fail("the BuiltinExpr clause does not test the unification result with AsTypeError")
	}
	// A6: the failing branch records an error, Check reports it, Compile stops
	{
		g := ck.Graph()
		adds := g.CallsTo(c03ErrAdd)
		start, ok := branchStart(g, a.guard, true)
		if !ok {
			return shape("guard not located in the control-flow graph")
		}
		if tr, found := pathAvoiding(g, start, core.ExitPoints(normalExits(g)), core.HitPoints(adds)); found {
			return fail("a call whose arguments do not fit the builtin's signature is not reported as an error on the path " + strings.Join(tr, " > "))
		}
	}
	a.facts = append(a.facts, "checker unifies Function(one type per argument + result) with FreshType(Builtins[name]) and leaves, recording an error, on a TypeError", "Unify returns a TypeError for operators of different arity", "FreshType and Function keep the number of arguments")
	return a
}

// singleDefTuple: like singleDef but also accepts `v, ok := e` (returns e).
func (x *c03Ctx) singleDefTuple(f *core.Func, obj types.Object) ast.Expr {
	if obj == nil {
		return nil
	}
	if d := x.singleDef(f, obj); d != nil {
		return d
	}
	info := f.Info()
	var def ast.Expr
	n := 0
	ast.Inspect(f.Decl, func(nd ast.Node) bool {
		if as, ok := nd.(*ast.AssignStmt); ok {
			for i, l := range as.Lhs {
				if identObj(info, l) == obj {
					n++
					if i == 0 && len(as.Lhs) == 2 && len(as.Rhs) == 1 {
						def = as.Rhs[0]
					}
				}
			}
		}
		return true
	})
	if n == 1 {
		return def
	}
	return nil
}

// arityAt: the number of arguments the BuiltinExpr `base` is known to have at node n: the site is in the
// checker clause after the guard, or in the code generator (which runs only on checked trees), inside a
// `switch <base>.Name` clause; returns the minimum over the listed names of the declared parameter count.
func (x *c03Ctx) arityAt(f *core.Func, n ast.Node, base ast.Expr) (int, string, string) {
	a := x.arity()
	info := f.Info()
	decl := x.c.Prog.FuncOf[f.Decl]
	if decl == nil {
		return 0, "", "no declaration"
	}
	if a.why != "" {
		// a site that precedes the unification in the checker's clause is wrong whatever the other facts are
		if decl.Key == c03CheckAfter && a.clause != nil {
			before := true
			ast.Inspect(a.clause, func(m ast.Node) bool {
				if call, ok := m.(*ast.CallExpr); ok && decl.CalleeID(call) == c03UnifyKey && call.Pos() < n.Pos() {
					before = false
				}
				return true
			})
			if before && a.clause.Pos() <= n.Pos() && n.End() <= a.clause.End() {
				return 0, "", "it precedes the unification with the builtin's signature"
			}
		}
		if a.shape {
			return 0, "", "UNDECIDED: " + a.why
		}
		return 0, "", a.why
	}
	where := ""
	switch decl.Key {
	case c03CheckAfter:
		if !(a.clause.Pos() <= n.Pos() && n.End() <= a.clause.End()) || n.Pos() < a.guard.End() {
			return 0, "", "not after the signature check"
		}
		if identObj(info, base) != a.nodeVar || x.reassigned(decl, a.nodeVar) {
			return 0, "", "not the call being checked"
		}
		where = "after the signature unification succeeded"
	case c03GenAfter:
		cc, nv := x.nodeClause(decl, "BuiltinExpr")
		if cc == nil || !(cc.Pos() <= n.Pos() && n.End() <= cc.End()) || identObj(info, base) != nv {
			return 0, "", "not in the code generator's BuiltinExpr clause"
		}
		if why := x.codegenOnlyAfterCheck(); why != "" {
			return 0, "", why
		}
		where = "the code generator runs only on a tree the checker accepted"
	default:
		return 0, "", "outside checker and code generator"
	}
	facts, _ := x.factsAt(f, n)
	for _, ft := range facts {
		if ft.Tag == nil || !ft.Val {
			continue
		}
		se, ok := core.Unparen(ft.Tag).(*ast.SelectorExpr)
		if !ok || se.Sel.Name != "Name" || !c03SamePath(info, se.X, base) {
			continue
		}
		min := -1
		var names []string
		for _, e := range ft.In {
			k, ok := c03ConstStr(info, e)
			if !ok {
				return 0, "", "non-constant builtin name"
			}
			name := strings.Trim(k, `"`)
			ar, known := a.builtin[name]
			if !known {
				return 0, "", "builtin " + name + " has no declared signature"
			}
			names = append(names, name)
			if min < 0 || ar-1 < min {
				min = ar - 1
			}
		}
		return min, where + "; " + strings.Join(names, "/") + " take(s) at least " + fmt.Sprint(min) + " argument(s) by types.Builtins", ""
	}
	return 0, "", "not inside a clause of a switch on the builtin's name"
}

var c03CodegenAfterCheck *string

// codegenOnlyAfterCheck: in Compile every path to CodeGen passes the checker call and the test of its error,
// whose failing branch returns; and Check returns a non-nil error whenever the checker recorded one.
func (x *c03Ctx) codegenOnlyAfterCheck() string {
	if c03CodegenAfterCheck != nil {
		return *c03CodegenAfterCheck
	}
	res := ""
	c03CodegenAfterCheck = &res
	cf := x.c.Prog.Fn(c03Compile)
	if cf == nil {
		res = "Compile not found"
		return res
	}
	g := cf.Graph()
	gen := g.CallsTo("internal/runtime/compiler/codegen.CodeGen")
	chk := g.CallsTo(c03CheckFn)
	if len(gen) == 0 || len(chk) != 1 {
		res = "Compile does not call Check once and CodeGen"
		return res
	}
	if tr, found := pathAvoiding(g, nil, core.HitPoints(gen), core.HitPoints(chk)); found {
		res = "code generation can run without the type checker: " + strings.Join(tr, " > ")
		return res
	}
	// after Check: the error test
	info := cf.Info()
	var errObj types.Object
	par := x.parentsOf(cf)
	if as, ok := par[chk[0].N].(*ast.AssignStmt); ok && len(as.Lhs) == 2 {
		errObj = identObj(info, as.Lhs[1])
	}
	if errObj == nil {
		res = "the checker's error result is not kept"
		return res
	}
	tests := ifsWhere(cf, func(is *ast.IfStmt) bool {
		be, ok := core.Unparen(is.Cond).(*ast.BinaryExpr)
		return ok && be.Op == token.NEQ && ((identObj(info, be.X) == errObj && isNilIdent(info, be.Y)) || (identObj(info, be.Y) == errObj && isNilIdent(info, be.X))) && is.Pos() > chk[0].N.Pos()
	})
	okTest := false
	for _, is := range tests {
		cp, ok := g.PointOf(is.Cond)
		if !ok {
			continue
		}
		from := chk[0].P
		// the test is the first thing after the call: no path from the call to CodeGen avoids it
		if _, found := pathAvoiding(g, &from, core.HitPoints(gen), []core.Point{cp}); found {
			continue
		}
		if start, ok := branchStart(g, is, true); ok {
			if _, reach := pathAvoiding(g, start, core.HitPoints(gen), nil); !reach {
				okTest = true
			}
		}
	}
	if !okTest {
		res = "Compile reaches code generation although the checker reported errors"
		return res
	}
	// Check returns its error list whenever it is non-empty
	ck := x.c.Prog.Fn(c03CheckFn)
	if ck == nil {
		res = "checker.Check not found"
		return res
	}
	bad := ""
	core.InspectNoLit(ck.Body, func(n ast.Node) bool {
		rs, ok := n.(*ast.ReturnStmt)
		if !ok || len(rs.Results) != 2 || !isNilIdent(ck.Info(), rs.Results[1]) {
			return true
		}
		facts, _ := x.factsAt(ck, rs)
		okHere := false
		for _, ft := range facts {
			if ft.Cond != nil && !ft.Val {
				if be, ok := core.Unparen(ft.Cond).(*ast.BinaryExpr); ok && (be.Op == token.GTR || be.Op == token.NEQ) && (x.isLenOfErrorList(ck.Info(), be.X) || x.isErrorListExpr(ck.Info(), be.X)) {
					okHere = true
				}
			}
		}
		if !okHere {
			bad = "checker.Check can return a nil error although errors were recorded"
		}
		return true
	})
	res = bad
	return res
}

// baseOfArgs: e is <base>.Args.(*ast.ExprList).Children, <base>.Args.(*ast.ExprList) or <base>.Args: returns base.
func c03ArgsBase(e ast.Expr) (base ast.Expr, children bool) {
	e = core.Unparen(e)
	if se, ok := e.(*ast.SelectorExpr); ok && se.Sel.Name == "Children" {
		children = true
		e = core.Unparen(se.X)
	}
	if ta, ok := e.(*ast.TypeAssertExpr); ok {
		e = core.Unparen(ta.X)
	}
	if se, ok := e.(*ast.SelectorExpr); ok && se.Sel.Name == "Args" {
		return se.X, children
	}
	return nil, false
}

func (x *c03Ctx) arityAssert(st *c03Site, ts *c03TS) *c03Verdict {
	ta := st.N.(*ast.TypeAssertExpr)
	base, children := c03ArgsBase(ta.X)
	if base == nil || children {
		return nil
	}
	if nt := c03Named(st.F.Info().TypeOf(base)); nt == nil || nt.Obj().Name() != "BuiltinExpr" {
		return nil
	}
	// only nil stands between the provenance and the asserted type
	rest := ts.without("nil")
	if ts.Unknown != "" || len(rest.M) != 1 || !rest.has(st.F.Info().TypeOf(ta.Type)) {
		return nil
	}
	k, why, no := x.arityAt(st.F, ta, base)
	if strings.HasPrefix(no, "UNDECIDED: ") {
		return &c03Verdict{"undecided", "argument count not established: " + strings.TrimPrefix(no, "UNDECIDED: ")}
	}
	if no != "" {
		return &c03Verdict{"fail", fmt.Sprintf("unchecked type assertion on %s, which is nil for a call without arguments, and the argument count is not established here (%s): a call like `f()` panics the compiler", exprStr(ta.X), no)}
	}
	if k >= 1 {
		return &c03Verdict{"ok", "the argument list is present: " + why}
	}
	return &c03Verdict{"fail", fmt.Sprintf("unchecked type assertion on %s, which is nil for a call without arguments; %s — so a call with no arguments is accepted and panics here", exprStr(ta.X), why)}
}

func (x *c03Ctx) arityIndex(st *c03Site, need int64) *c03Verdict {
	f := st.F
	info := f.Info()
	// <base>.Args.(*ast.ExprList).Children[k]
	if base, children := c03ArgsBase(st.X); base != nil && children {
		if nt := c03Named(info.TypeOf(base)); nt == nil || nt.Obj().Name() != "BuiltinExpr" {
			return nil
		}
		k, why, no := x.arityAt(f, st.N, base)
		if strings.HasPrefix(no, "UNDECIDED: ") {
			return &c03Verdict{"undecided", "argument count not established: " + strings.TrimPrefix(no, "UNDECIDED: ")}
		}
		if no != "" {
			return &c03Verdict{"fail", fmt.Sprintf("%s needs at least %d argument(s) and the argument count is not established here (%s)", c03Short(exprStr(st.N.(ast.Expr))), need, no)}
		}
		if int64(k) >= need {
			return &c03Verdict{"ok", fmt.Sprintf("argument %d exists: %s", need, why)}
		}
		return &c03Verdict{"fail", fmt.Sprintf("%s reads argument %d but %s: a call with fewer arguments type-checks and panics the compiler here", c03Short(exprStr(st.N.(ast.Expr))), need, why)}
	}
	// <got>.Args[k] where got is the Function(argTypes...) of the checker clause
	if se, ok := core.Unparen(st.X).(*ast.SelectorExpr); ok && se.Sel.Name == "Args" {
		a := x.arity()
		if a.why != "" && a.shape {
			if def := x.singleDef(f, identObj(info, se.X)); def != nil {
				if dc, ok := core.Unparen(def).(*ast.CallExpr); ok && f.CalleeID(dc) == c03FunctionKey {
					return &c03Verdict{"undecided", "argument count not established: " + a.why}
				}
			}
		}
		if a.why != "" || identObj(info, se.X) != a.got || a.got == nil {
			return nil
		}
		// the node variable is implicit: use it
		facts, _ := x.factsAt(f, st.N)
		for _, ft := range facts {
			if ft.Tag == nil || !ft.Val {
				continue
			}
			s2, ok := core.Unparen(ft.Tag).(*ast.SelectorExpr)
			if !ok || s2.Sel.Name != "Name" || identObj(info, s2.X) != a.nodeVar {
				continue
			}
			kk, why2, no2 := x.arityAt(f, st.N, s2.X)
			if strings.HasPrefix(no2, "UNDECIDED: ") {
				return &c03Verdict{"undecided", "argument count not established: " + strings.TrimPrefix(no2, "UNDECIDED: ")}
			}
			if no2 != "" {
				return &c03Verdict{"fail", fmt.Sprintf("%s: the number of argument types is not established here (%s)", c03Short(exprStr(st.N.(ast.Expr))), no2)}
			}
			if int64(kk)+1 >= need {
				return &c03Verdict{"ok", fmt.Sprintf("the unified signature has %d types: %s", kk+1, why2)}
			}
			return &c03Verdict{"fail", fmt.Sprintf("%s reads type %d of the call's signature but %s", c03Short(exprStr(st.N.(ast.Expr))), need, why2)}
		}
	}
	return nil
}

// ---------------------------------------------------------------------------
// Type-operator arities
// ---------------------------------------------------------------------------

// typesConstName resolves a string constant or literal used as an Operator name.
func c03OperatorName(info *types.Info, cl *ast.CompositeLit) (string, bool) {
	st := c03StructOf(info.TypeOf(cl))
	if st == nil {
		return "", false
	}
	for i := 0; i < st.NumFields(); i++ {
		if st.Field(i).Name() == "Name" {
			v, zero, ok := c03LitField(info, cl, st.Field(i))
			if !ok || zero {
				return "", false
			}
			return c03ConstStr(info, v)
		}
	}
	return "", false
}

func (x *c03Ctx) typesConst(name string) (string, bool) {
	tp := x.c.Prog.Pkgs[c03TypesPkg]
	if tp == nil {
		return "", false
	}
	c, _ := tp.Types.Scope().Lookup(name).(*types.Const)
	if c == nil {
		return "", false
	}
	return c.Val().ExactString(), true
}

// notDimension: the value of e is never an Operator named dimensionName: a *Variable/*TypeError, a package-level
// type constant whose literal has another name, or a local all of whose definitions are such.
func (x *c03Ctx) notDimension(f *core.Func, e ast.Expr, depth int) bool {
	if depth > 4 {
		return false
	}
	info := f.Info()
	dim, okD := x.typesConst("dimensionName")
	if !okD {
		return false
	}
	if t := info.TypeOf(e); t != nil {
		if nt := c03Named(t); nt != nil && (nt.Obj().Name() == "Variable" || nt.Obj().Name() == "TypeError") {
			return true
		}
	}
	o, _ := usedObj(info, e).(*types.Var)
	if o == nil {
		return false
	}
	if o.Pkg() != nil && o.Parent() == o.Pkg().Scope() {
		// package-level: its initialiser
		for _, pk := range x.c.Prog.All {
			if pk.Types != o.Pkg() {
				continue
			}
			for _, file := range pk.Syntax {
				for _, d := range file.Decls {
					gd, ok := d.(*ast.GenDecl)
					if !ok {
						continue
					}
					for _, sp := range gd.Specs {
						vs, ok := sp.(*ast.ValueSpec)
						if !ok {
							continue
						}
						for i, nm := range vs.Names {
							if pk.TypesInfo.Defs[nm] != types.Object(o) || i >= len(vs.Values) {
								continue
							}
							if u, ok := core.Unparen(vs.Values[i]).(*ast.UnaryExpr); ok && u.Op == token.AND {
								if cl, ok := core.Unparen(u.X).(*ast.CompositeLit); ok {
									if nt := c03Named(pk.TypesInfo.TypeOf(cl)); nt != nil && nt.Obj().Name() == "TypeError" {
										return !x.globalAssigned(o)
									}
									name, ok := c03OperatorName(pk.TypesInfo, cl)
									return ok && name != dim && !x.globalAssigned(o)
								}
							}
						}
					}
				}
			}
		}
		return false
	}
	// local: every definition
	decl := x.c.Prog.FuncOf[f.Decl]
	n, good := 0, true
	ast.Inspect(f.Decl, func(m ast.Node) bool {
		switch a := m.(type) {
		case *ast.AssignStmt:
			for i, l := range a.Lhs {
				if identObj(info, l) == types.Object(o) {
					n++
					if len(a.Rhs) != len(a.Lhs) || !x.notDimension(x.funcAt(decl, a), a.Rhs[i], depth+1) {
						good = false
					}
				}
			}
		case *ast.ValueSpec:
			for i, nm := range a.Names {
				if info.Defs[nm] == types.Object(o) {
					if i < len(a.Values) {
						n++
						if !x.notDimension(x.funcAt(decl, a), a.Values[i], depth+1) {
							good = false
						}
					}
				}
			}
		}
		return true
	})
	return n > 0 && good
}

// globalAssigned: a package-level variable is assigned after its declaration somewhere in shipped code.
func (x *c03Ctx) globalAssigned(o *types.Var) bool {
	hit := false
	for _, f := range x.ship {
		info := f.Info()
		core.InspectNoLit(f.Body, func(n ast.Node) bool {
			switch v := n.(type) {
			case *ast.AssignStmt:
				for _, l := range v.Lhs {
					if usedObj(info, l) == types.Object(o) {
						hit = true
					}
				}
			case *ast.UnaryExpr:
				if v.Op == token.AND && usedObj(info, v.X) == types.Object(o) {
					hit = true
				}
			}
			return !hit
		})
	}
	return hit
}

// unconditionalAppends counts the statements `S = append(S, <one value>)` that sit directly in the statement list
// containing `before`, ahead of it; ok=false if S is reassigned in any other way than by appending or initialising.
func (x *c03Ctx) unconditionalAppends(f *core.Func, S types.Object, before ast.Node) (int, bool) {
	info := f.Info()
	par := x.parentsOf(f)
	// the statement list containing `before`
	var list []ast.Stmt
	var child ast.Node = before
	for p := par[before]; p != nil; child, p = p, par[p] {
		switch v := p.(type) {
		case *ast.BlockStmt:
			list = v.List
		case *ast.CaseClause:
			list = v.Body
		}
		if list != nil {
			break
		}
	}
	n := 0
	for _, s := range list {
		if ast.Node(s) == child {
			break
		}
		as, ok := s.(*ast.AssignStmt)
		if !ok || len(as.Lhs) != 1 || len(as.Rhs) != 1 || identObj(info, as.Lhs[0]) != S {
			continue
		}
		if call, ok := core.Unparen(as.Rhs[0]).(*ast.CallExpr); ok && len(call.Args) == 2 && !call.Ellipsis.IsValid() {
			if id, ok := core.Unparen(call.Fun).(*ast.Ident); ok && id.Name == "append" && identObj(info, call.Args[0]) == S {
				n++
			}
		}
	}
	// any other write must be an append to itself or an initialisation that precedes the first counted append
	okAll := true
	ast.Inspect(f.Decl, func(m ast.Node) bool {
		as, ok := m.(*ast.AssignStmt)
		if !ok {
			return true
		}
		for i, l := range as.Lhs {
			if identObj(info, l) != S || len(as.Rhs) != len(as.Lhs) {
				continue
			}
			if call, ok := core.Unparen(as.Rhs[i]).(*ast.CallExpr); ok {
				if id, ok := core.Unparen(call.Fun).(*ast.Ident); ok && id.Name == "append" && len(call.Args) >= 1 && identObj(info, call.Args[0]) == S {
					continue
				}
				if id, ok := core.Unparen(call.Fun).(*ast.Ident); ok && id.Name == "make" && as.Tok == token.DEFINE {
					continue
				}
			}
			if _, isLit := core.Unparen(as.Rhs[i]).(*ast.CompositeLit); isLit && as.Tok == token.DEFINE {
				continue
			}
			okAll = false
		}
		return true
	})
	return n, okAll
}

// dimensionIndex: E.Args[len(E.Args)-k] where E = t.(*types.Operator), t := <VarDecl or IDTerm>.Type() and the
// access is guarded by types.IsDimension(t): every dimension type a metric symbol can have is built by
// types.Dimension(list...) after at least k unconditional appends to the list.
func (x *c03Ctx) dimensionIndex(st *c03Site, need int64) *c03Verdict {
	f := st.F
	info := f.Info()
	se, ok := core.Unparen(st.X).(*ast.SelectorExpr)
	if !ok || se.Sel.Name != "Args" {
		return nil
	}
	ta, ok := core.Unparen(se.X).(*ast.TypeAssertExpr)
	if !ok {
		return nil
	}
	if nt := c03Named(info.TypeOf(se.X)); nt == nil || nt.Obj().Name() != "Operator" {
		return nil
	}
	// guarded by the dimension predicate on the same variable
	facts, _ := x.factsAt(f, st.N)
	guarded := false
	for _, ft := range facts {
		if ft.Cond == nil || !ft.Val {
			continue
		}
		if call, ok := core.Unparen(ft.Cond).(*ast.CallExpr); ok && f.CalleeID(call) == c03TypesPkg+".IsDimension" && len(call.Args) == 1 && c03SamePath(info, call.Args[0], ta.X) {
			if root := c03RootObj(info, ta.X); root != nil && !x.assignedBetween(f, root, exprStr(core.Unparen(ta.X)), ft.At, st.N.Pos()) {
				guarded = true
			}
		}
	}
	if !guarded {
		return nil
	}
	// IsDimension tests the operator's name against dimensionName
	if p := x.c.Prog.Fn(c03TypesPkg + ".IsDimension"); p == nil || x.typePredicate(p) == nil {
		return &c03Verdict{"undecided", "types.IsDimension is not a recognised type-and-name test"}
	}
	// t := <node>.Type() with node a VarDecl or an IDTerm
	def := x.singleDefBefore(f, identObj(info, ta.X), st.N)
	call, _ := core.Unparen(def).(*ast.CallExpr)
	if call == nil {
		return nil
	}
	ms, ok := core.Unparen(call.Fun).(*ast.SelectorExpr)
	if !ok || ms.Sel.Name != "Type" {
		return nil
	}
	nodeT := c03Named(info.TypeOf(ms.X))
	if nodeT == nil || (nodeT.Obj().Name() != "VarDecl" && nodeT.Obj().Name() != "IDTerm") {
		return nil
	}
	tm := x.methodOf(nodeT, "Type")
	if tm == nil {
		return nil
	}
	// what Type() returns: package-level non-dimension constants or <recv>.Symbol.Type
	var symType *types.Var
	var symFld *types.Var
	bad := ""
	core.InspectNoLit(tm.Body, func(n ast.Node) bool {
		rs, ok := n.(*ast.ReturnStmt)
		if !ok || len(rs.Results) != 1 {
			return true
		}
		e := core.Unparen(rs.Results[0])
		if x.notDimension(tm, e, 0) {
			return true
		}
		if s1, ok := e.(*ast.SelectorExpr); ok {
			if sl := tm.Info().Selections[s1]; sl != nil && sl.Kind() == types.FieldVal && sl.Obj().Name() == "Type" {
				if s2, ok := core.Unparen(s1.X).(*ast.SelectorExpr); ok {
					if sl2 := tm.Info().Selections[s2]; sl2 != nil && sl2.Kind() == types.FieldVal {
						symType = sl.Obj().(*types.Var)
						symFld = sl2.Obj().(*types.Var)
						return true
					}
				}
			}
		}
		bad = "(*" + nodeT.Obj().Name() + ").Type returns " + c03Short(exprStr(e))
		return true
	})
	if bad != "" {
		return &c03Verdict{"undecided", bad + ", which is not recognised as a symbol's type or a non-dimension constant"}
	}
	if symType == nil {
		return &c03Verdict{"ok", "the node's type is never a dimension"}
	}
	// the kind of the node's symbol
	S := c03StructOf(symFld.Type())
	var D *types.Var
	for i := 0; S != nil && i < S.NumFields(); i++ {
		if S.Field(i).Name() == "Kind" {
			D = S.Field(i)
		}
	}
	if D == nil {
		return nil
	}
	K := c03NewCS()
	for _, w := range x.fieldWriteSites(symFld) {
		if w.Zero {
			continue
		}
		if w.F == nil {
			K.Unknown = true
			continue
		}
		K.union(x.discOf(w.F, w.Val, D, w.At, 0))
	}
	// a guard on the symbol's kind at the site narrows further
	if cs := x.discFromFacts(f, st.N, &ast.SelectorExpr{X: ms.X, Sel: ast.NewIdent(symFld.Name())}, D); cs != nil {
		K = cs
	}
	var details []string
	for _, w := range x.fieldWriteSites(symType) {
		if w.F == nil {
			return &c03Verdict{"undecided", "package-level write to a symbol's type"}
		}
		if w.Lit != nil {
			if !K.Unknown && x.discOfLiteral(w.F, w.Lit, D, 0).disjoint(K) {
				continue
			}
			if w.Zero || x.notDimension(w.F, w.Val, 0) {
				continue
			}
			return &c03Verdict{"undecided", "symbol literal with an unrecognised type at " + pos(x.c, w.At)}
		}
		if !K.Unknown && x.discOf(w.F, w.Base, D, w.At, 0).disjoint(K) {
			continue
		}
		if w.Val == nil {
			return &c03Verdict{"undecided", "tuple assignment to a symbol's type"}
		}
		if x.notDimension(w.F, w.Val, 0) {
			continue
		}
		dc, ok := core.Unparen(w.Val).(*ast.CallExpr)
		if !ok || w.F.CalleeID(dc) != c03TypesPkg+".Dimension" {
			return &c03Verdict{"fail", fmt.Sprintf("%s indexes the last argument of a dimension type, but the symbol type stored at %s (%s) is not recognised as a non-dimension or as types.Dimension(list...)", c03Short(exprStr(st.N.(ast.Expr))), pos(x.c, w.At), c03Short(exprStr(w.Val)))}
		}
		n := int64(len(dc.Args))
		if dc.Ellipsis.IsValid() {
			k, okA := x.unconditionalAppends(w.F, identObj(w.F.Info(), dc.Args[0]), dc)
			if !okA {
				return &c03Verdict{"undecided", "the list passed to types.Dimension at " + pos(x.c, dc) + " is written in an unrecognised way"}
			}
			n = int64(k)
		}
		if n < need {
			return &c03Verdict{"fail", fmt.Sprintf("%s needs a dimension type with at least %d argument(s), but the one built at %s is only known to have %d: declaring such a metric panics the code generator", c03Short(exprStr(st.N.(ast.Expr))), need, pos(x.c, dc), n)}
		}
		details = append(details, fmt.Sprintf("types.Dimension at %s has >= %d arguments", pos(x.c, dc), n))
	}
	return &c03Verdict{"ok", "a metric symbol's dimension type is only built with its value type appended: " + strings.Join(details, "; ")}
}

// singleDefBefore: the last definition of obj that precedes node n in the same function, when every definition
// is a plain assignment (used for `t := n.Type()` followed by `t = …` after the site).
func (x *c03Ctx) singleDefBefore(f *core.Func, obj types.Object, n ast.Node) ast.Expr {
	if obj == nil {
		return nil
	}
	info := f.Info()
	var def ast.Expr
	var at token.Pos
	cnt := 0
	ast.Inspect(f.Decl, func(m ast.Node) bool {
		as, ok := m.(*ast.AssignStmt)
		if !ok || len(as.Lhs) != len(as.Rhs) {
			return true
		}
		for i, l := range as.Lhs {
			if identObj(info, l) == obj && as.End() <= n.Pos() && as.Pos() > at {
				def, at = as.Rhs[i], as.Pos()
				cnt++
			}
		}
		return true
	})
	if cnt == 1 {
		return def
	}
	return nil
}

// unifyIndex: U.Args[k] where U is the comma-ok *Operator view of types.Unify(a, b), a and b both built by
// types.Function with more than k explicit arguments.
func (x *c03Ctx) unifyIndex(st *c03Site, need int64) *c03Verdict {
	f := st.F
	info := f.Info()
	se, ok := core.Unparen(st.X).(*ast.SelectorExpr)
	if !ok || se.Sel.Name != "Args" {
		return nil
	}
	def := x.singleDefTuple(f, identObj(info, se.X))
	ta, ok := core.Unparen(def).(*ast.TypeAssertExpr)
	if !ok {
		return nil
	}
	udef := x.singleDef(f, identObj(info, ta.X))
	ucall, ok := core.Unparen(udef).(*ast.CallExpr)
	if !ok || f.CalleeID(ucall) != c03UnifyKey || len(ucall.Args) != 2 {
		return nil
	}
	m := int64(1 << 30)
	for _, a := range ucall.Args {
		adef := x.singleDef(f, identObj(info, a))
		ac, ok := core.Unparen(adef).(*ast.CallExpr)
		if !ok || f.CalleeID(ac) != c03FunctionKey || ac.Ellipsis.IsValid() {
			return nil
		}
		if int64(len(ac.Args)) < m {
			m = int64(len(ac.Args))
		}
	}
	// the comma-ok failure and a TypeError result both leave before the site
	if lb, _ := x.minLen(f, st.N, st.X); lb >= need {
		return nil
	}
	ar := x.arity()
	if ar.why != "" {
		return &c03Verdict{"undecided", "arity facts: " + ar.why}
	}
	// Unify's operator/operator branch: besides TypeErrors it returns an Operator whose Args is make(…, len(<operand>.Args)),
	// and the branches before it all require an alternate type
	un := x.c.Prog.Fn(c03UnifyKey)
	uinfo := un.Info()
	fn, okF := x.typesConst("functionName")
	alt, okA := x.typesConst("alternateName")
	if !okF || !okA || fn == alt {
		return &c03Verdict{"undecided", "operator name constants not found or equal"}
	}
	okMake := false
	ast.Inspect(un.Body, func(n ast.Node) bool {
		as, ok := n.(*ast.AssignStmt)
		if !ok || len(as.Lhs) != 1 || len(as.Rhs) != 1 {
			return true
		}
		l, ok := core.Unparen(as.Lhs[0]).(*ast.SelectorExpr)
		if !ok || l.Sel.Name != "Args" {
			return true
		}
		call, ok := core.Unparen(as.Rhs[0]).(*ast.CallExpr)
		if !ok || len(call.Args) != 2 {
			return true
		}
		if id, ok := core.Unparen(call.Fun).(*ast.Ident); !ok || id.Name != "make" {
			return true
		}
		if lx := x.lenOperand(un, call.Args[1]); lx != nil {
			if s2, ok := core.Unparen(lx).(*ast.SelectorExpr); ok && s2.Sel.Name == "Args" {
				okMake = true
			}
		}
		return true
	})
	if !okMake {
		return &c03Verdict{"fail", "types.Unify no longer allocates the unified operator's arguments with the length of its operand's: " + c03Short(exprStr(st.N.(ast.Expr))) + " may be out of range"}
	}
	// every case of the condition switch ahead of the default requires IsAlternate on an operand
	okAlt := true
	ast.Inspect(un.Body, func(n ast.Node) bool {
		sw, ok := n.(*ast.SwitchStmt)
		if !ok || sw.Tag != nil {
			return true
		}
		for _, cl := range sw.Body.List {
			cc := cl.(*ast.CaseClause)
			for _, e := range cc.List {
				pos := false
				var walk func(c ast.Expr)
				walk = func(c ast.Expr) {
					switch v := core.Unparen(c).(type) {
					case *ast.BinaryExpr:
						if v.Op == token.LAND {
							walk(v.X)
							walk(v.Y)
						}
					case *ast.CallExpr:
						if un.CalleeID(v) == c03TypesPkg+".IsAlternate" {
							pos = true
						}
					}
				}
				walk(e)
				if !pos {
					okAlt = false
				}
			}
		}
		return true
	})
	_ = uinfo
	if !okAlt {
		return &c03Verdict{"undecided", "types.Unify has a special case that does not require an alternate type"}
	}
	if m >= need {
		return &c03Verdict{"ok", fmt.Sprintf("both unified types are built by types.Function with %d arguments; Unify rejects different arities and allocates the result with its operand's arity; the special cases require an alternate type, which a function type is not", m)}
	}
	return &c03Verdict{"fail", fmt.Sprintf("%s reads argument %d of a unified function type that has only %d", c03Short(exprStr(st.N.(ast.Expr))), need-1, m)}
}

// ---------------------------------------------------------------------------
// Metric type <-> datum type (datum.SetInt / SetFloat default panics)
// ---------------------------------------------------------------------------

func (x *c03Ctx) datumSwitch(st *c03Site, sw *ast.TypeSwitchStmt, ta *ast.TypeAssertExpr, has func(types.Type) bool) *c03Verdict {
	g := x.c.Prog.FuncOf[st.F.Decl]
	if g == nil || g.Obj == nil || core.Rel(g.Pkg.PkgPath) != "internal/metrics/datum" {
		return nil
	}
	P := identObj(g.Info(), ta.X)
	if x.paramOwner(g, asVar(P)) == nil {
		return nil
	}
	sites, ok := x.callersOf(g)
	if !ok || len(sites) == 0 {
		return nil
	}
	getDatum := x.c.Prog.Fn("internal/metrics.(*Metric).GetDatum")
	newMetric := x.c.Prog.Fn("internal/metrics.NewMetric")
	if getDatum == nil || newMetric == nil {
		return &c03Verdict{"undecided", "metrics.GetDatum/NewMetric not found"}
	}
	// GetDatum: switch m.Type { case K: d = <constructor>() }
	byConst := map[types.Object]*c03TS{}
	var typeFld *types.Var
	gi := getDatum.Info()
	ast.Inspect(getDatum.Body, func(n ast.Node) bool {
		s, ok := n.(*ast.SwitchStmt)
		if !ok || s.Tag == nil {
			return true
		}
		tse, ok := core.Unparen(s.Tag).(*ast.SelectorExpr)
		if !ok {
			return true
		}
		sl := gi.Selections[tse]
		if sl == nil || sl.Kind() != types.FieldVal || sl.Obj().Name() != "Type" {
			return true
		}
		typeFld = sl.Obj().(*types.Var)
		for _, cl := range s.Body.List {
			cc := cl.(*ast.CaseClause)
			res := c03Empty()
			for _, b := range cc.Body {
				if as, ok := b.(*ast.AssignStmt); ok && len(as.Lhs) == 1 && len(as.Rhs) == 1 {
					if call, ok := core.Unparen(as.Rhs[0]).(*ast.CallExpr); ok {
						res.union(x.solver.solve(func() *c03TS { return x.dynCallResult(getDatum, call, 0) }))
					}
				}
			}
			for _, e := range cc.List {
				if o := usedObj(gi, e); o != nil {
					byConst[o] = res
				}
			}
		}
		return false
	})
	if typeFld == nil || len(byConst) == 0 {
		return &c03Verdict{"undecided", "GetDatum's switch over the metric type not recognised"}
	}
	// the only label values of a metric are the ones GetDatum creates
	lvWrites := 0
	for _, f := range x.sc.bodies() {
		core.InspectNoLit(f.Body, func(n ast.Node) bool {
			if cl, ok := n.(*ast.CompositeLit); ok {
				if nt := c03Named(f.Info().TypeOf(cl)); nt != nil && nt.Obj().Name() == "LabelValue" {
					lvWrites++
					if x.c.Prog.FuncOf[f.Decl] != getDatum {
						lvWrites += 100
					}
				}
			}
			return true
		})
	}
	if lvWrites != 1 {
		return &c03Verdict{"undecided", "label values are created outside GetDatum"}
	}
	// NewMetric stores its type parameter in the Type field
	var typParam types.Object
	ast.Inspect(newMetric.Body, func(n ast.Node) bool {
		if as, ok := n.(*ast.AssignStmt); ok && len(as.Lhs) == 1 && len(as.Rhs) == 1 {
			if l, ok := core.Unparen(as.Lhs[0]).(*ast.SelectorExpr); ok {
				if sl := newMetric.Info().Selections[l]; sl != nil && sl.Obj() == types.Object(typeFld) {
					typParam = identObj(newMetric.Info(), as.Rhs[0])
				}
			}
		}
		return true
	})
	pidx := -1
	if typParam != nil {
		sig := newMetric.Obj.Type().(*types.Signature)
		for i := 0; i < sig.Params().Len(); i++ {
			if types.Object(sig.Params().At(i)) == typParam {
				pidx = i
			}
		}
	}
	if pidx < 0 {
		return &c03Verdict{"undecided", "NewMetric does not store its type parameter in Metric.Type"}
	}
	// the Type field is written nowhere else in scope
	for _, w := range x.fieldWriteSites(typeFld) {
		if w.F != nil && w.Lit == nil && x.c.Prog.FuncOf[w.F.Decl] != newMetric {
			if d := x.c.Prog.FuncOf[w.F.Decl]; d != nil && x.sc.in[d] {
				return &c03Verdict{"undecided", "Metric.Type is also assigned at " + pos(x.c, w.At)}
			}
		}
	}
	var okSites []string
	for _, cs := range sites {
		f := cs.F
		info := f.Info()
		// d from <m>.GetDatum()
		ddef := x.singleDefTuple(f, identObj(info, cs.Call.Args[0]))
		dc, ok := core.Unparen(ddef).(*ast.CallExpr)
		if !ok || f.CalleeFunc(dc) != getDatum {
			return &c03Verdict{"fail", fmt.Sprintf("the default clause panics, and the datum passed at %s does not come from GetDatum of a metric whose type is known", pos(x.c, cs.Call))}
		}
		mexpr := core.RecvExpr(dc)
		mdef := x.singleDef(f, identObj(info, mexpr))
		mc, ok := core.Unparen(mdef).(*ast.CallExpr)
		if !ok || f.CalleeFunc(mc) != newMetric || pidx >= len(mc.Args) {
			return &c03Verdict{"fail", fmt.Sprintf("the default clause panics, and the metric whose datum is passed at %s is not built by NewMetric in the same function", pos(x.c, cs.Call))}
		}
		tvar := identObj(info, mc.Args[pidx])
		// the call sits in `case <K>` of a switch on the same variable, not reassigned since NewMetric
		facts, _ := x.factsAt(f, cs.Call)
		var ks []ast.Expr
		for _, ft := range facts {
			if ft.Tag != nil && ft.Val && identObj(info, ft.Tag) == tvar && tvar != nil {
				if !x.assignedBetween(f, tvar, exprStr(core.Unparen(ft.Tag)), mc.End(), cs.Call.Pos()) {
					ks = ft.In
				}
			}
		}
		if len(ks) == 0 {
			return &c03Verdict{"fail", fmt.Sprintf("the default clause panics, and the call at %s is not inside a case of a switch on the metric's value type: a metric of another value type reaches it", pos(x.c, cs.Call))}
		}
		for _, k := range ks {
			res := byConst[usedObj(info, k)]
			if res == nil || res.Unknown != "" || len(res.M) == 0 {
				return &c03Verdict{"fail", fmt.Sprintf("GetDatum has no datum constructor for metric type %s", exprStr(k))}
			}
			for name, t := range res.M {
				if name == "nil" || !has(t) {
					return &c03Verdict{"fail", fmt.Sprintf("%s is called at %s for a metric of type %s, whose datum is a %s: the default clause panics while compiling any program that declares such a scalar counter", g.Key, pos(x.c, cs.Call), exprStr(k), name)}
				}
			}
			okSites = append(okSites, fmt.Sprintf("%s -> %s", exprStr(k), res))
		}
	}
	return &c03Verdict{"ok", "each call is inside the case of the metric's value type, and GetDatum builds for that type a datum the switch lists: " + strings.Join(okSites, "; ")}
}

// ---------------------------------------------------------------------------
// Visitor stacks
// ---------------------------------------------------------------------------

// stackField: st.X is <recv>.<field> of the visitor the method belongs to.
func (x *c03Ctx) stackField(st *c03Site) (*core.Func, *types.Var) {
	f := x.c.Prog.FuncOf[st.F.Decl]
	if f == nil || f.Obj == nil {
		return nil, nil
	}
	sig := f.Obj.Type().(*types.Signature)
	if sig.Recv() == nil {
		return nil, nil
	}
	se, ok := core.Unparen(st.X).(*ast.SelectorExpr)
	if !ok || identObj(f.Info(), se.X) != types.Object(sig.Recv()) {
		return nil, nil
	}
	sl := f.Info().Selections[se]
	if sl == nil || sl.Kind() != types.FieldVal {
		return nil, nil
	}
	return f, sl.Obj().(*types.Var)
}

type c03StackWrite struct {
	F      *core.Func
	Clause string // node type of the enclosing clause ("" if none)
	Push   bool
	At     *ast.AssignStmt
}

func (x *c03Ctx) stackWrites(fld *types.Var) ([]c03StackWrite, string) {
	var out []c03StackWrite
	for _, w := range x.fieldWriteSites(fld) {
		if w.Lit != nil {
			if !w.Zero {
				return nil, "initialised by a literal"
			}
			continue
		}
		if w.F == nil || w.Val == nil {
			return nil, "unrecognised write"
		}
		as := w.At.(*ast.AssignStmt)
		sw := c03StackWrite{F: w.F, At: as}
		switch v := core.Unparen(w.Val).(type) {
		case *ast.CallExpr:
			id, ok := core.Unparen(v.Fun).(*ast.Ident)
			if !ok || id.Name != "append" || len(v.Args) != 2 || v.Ellipsis.IsValid() || !c03SamePath(w.F.Info(), v.Args[0], as.Lhs[0]) {
				return nil, "unrecognised write at " + pos(x.c, as)
			}
			sw.Push = true
		case *ast.SliceExpr:
			if !c03SamePath(w.F.Info(), v.X, as.Lhs[0]) || v.Low != nil || v.High == nil {
				return nil, "unrecognised write at " + pos(x.c, as)
			}
			if X, off := x.lenLinear(w.F, v.High, 0); X == nil || off != -1 || !c03SamePath(w.F.Info(), X, as.Lhs[0]) {
				return nil, "a pop that is not [:len-1] at " + pos(x.c, as)
			}
		default:
			return nil, "unrecognised write at " + pos(x.c, as)
		}
		// enclosing node clause
		decl := x.c.Prog.FuncOf[w.F.Decl]
		par := x.parentsOf(w.F)
		for p := par[as]; p != nil; p = par[p] {
			if cc, ok := p.(*ast.CaseClause); ok && len(cc.List) == 1 {
				if blk, ok := par[cc].(*ast.BlockStmt); ok {
					if _, isTS := par[blk].(*ast.TypeSwitchStmt); isTS {
						if nt := c03Named(decl.Info().TypeOf(cc.List[0])); nt != nil {
							sw.Clause = nt.Obj().Name()
						}
					}
				}
			}
		}
		out = append(out, sw)
	}
	return out, ""
}

// pairedStackIndex: S[len(S)-1] in VisitAfter's clause for node type T, where S is pushed exactly once in
// VisitBefore's clause for T on every path that lets the walk descend (non-nil visitor) and popped only in
// VisitAfter's clause for T, after the read: pushes and pops nest with the walk, so the element exists.
func (x *c03Ctx) pairedStackIndex(st *c03Site, need int64) *c03Verdict {
	if need != 1 {
		return nil
	}
	f, fld := x.stackField(st)
	if f == nil || f.Obj.Name() != "VisitAfter" {
		return nil
	}
	ws, why := x.stackWrites(fld)
	if why != "" || len(ws) == 0 {
		return nil
	}
	// clause of the site
	par := x.parentsOf(st.F)
	var T string
	var siteClause *ast.CaseClause
	for p := par[st.N]; p != nil; p = par[p] {
		if cc, ok := p.(*ast.CaseClause); ok && len(cc.List) == 1 {
			if nt := c03Named(f.Info().TypeOf(cc.List[0])); nt != nil {
				T, siteClause = nt.Obj().Name(), cc
			}
		}
	}
	if T == "" {
		return nil
	}
	var push, pop *c03StackWrite
	for i := range ws {
		w := &ws[i]
		d := x.c.Prog.FuncOf[w.F.Decl]
		switch {
		case w.Push && d.Obj != nil && d.Obj.Name() == "VisitBefore" && w.Clause == T && push == nil:
			push = w
		case !w.Push && d == f && w.Clause == T && pop == nil:
			pop = w
		default:
			return nil
		}
	}
	if push == nil || pop == nil {
		return nil
	}
	if pop.At.Pos() < st.N.Pos() {
		return &c03Verdict{"fail", fmt.Sprintf("%s is read after the stack was popped in the same clause", c03Short(exprStr(st.N.(ast.Expr))))}
	}
	// every return of VisitBefore's clause T with a non-nil visitor passes the push
	vb := x.c.Prog.FuncOf[push.F.Decl]
	g := vb.Graph()
	pp, ok := g.PointOf(push.At)
	if !ok {
		return &c03Verdict{"undecided", "push not located in the control-flow graph"}
	}
	cc, _ := x.nodeClause(vb, T)
	if cc == nil || len(cc.Body) == 0 {
		return nil
	}
	var goals []core.Point
	for _, e := range normalExits(g) {
		if e.Kind == "return" && cc.Pos() <= e.Ret.Pos() && e.Ret.End() <= cc.End() && len(e.Ret.Results) == 2 && !isNilIdent(vb.Info(), e.Ret.Results[0]) {
			goals = append(goals, e.P)
		}
	}
	start, ok := c03ClauseStart(g, cc)
	if !ok {
		return &c03Verdict{"undecided", "clause not located in the control-flow graph"}
	}
	if tr, found := pathAvoiding(g, &start, goals, []core.Point{pp}); found {
		return &c03Verdict{"fail", fmt.Sprintf("VisitBefore lets the walk descend into a %s without pushing onto %s (%s): the matching VisitAfter reads an element that is not there", T, fld.Name(), strings.Join(tr, " > "))}
	}
	_ = siteClause
	// VisitAfter runs only for nodes whose VisitBefore returned a visitor (ast.Walk's shape)
	if why := x.walkSkipsAfterOnNil(); why != "" {
		return &c03Verdict{"undecided", why}
	}
	return &c03Verdict{"ok", fmt.Sprintf("%s is pushed in VisitBefore's %s clause on every descending path and popped only in VisitAfter's %s clause after this read; ast.Walk calls VisitAfter only after a descending VisitBefore", fld.Name(), T, T)}
}

var c03WalkShape *string

// walkSkipsAfterOnNil: ast.Walk returns without calling VisitAfter when VisitBefore returned a nil visitor.
func (x *c03Ctx) walkSkipsAfterOnNil() string {
	if c03WalkShape != nil {
		return *c03WalkShape
	}
	res := ""
	c03WalkShape = &res
	wf := x.c.Prog.Fn(c03Walk)
	if wf == nil {
		res = "ast.Walk not found"
		return res
	}
	g := wf.Graph()
	info := wf.Info()
	after := g.Calls(func(id string, call *ast.CallExpr) bool {
		se, ok := core.Unparen(call.Fun).(*ast.SelectorExpr)
		return ok && se.Sel.Name == "VisitAfter" && info.Selections[se] != nil
	})
	if len(after) == 0 {
		res = "ast.Walk does not call VisitAfter"
		return res
	}
	// an `if v == nil { return }` (v assigned from VisitBefore) dominates the call
	guards := ifsWhere(wf, func(is *ast.IfStmt) bool {
		be, ok := core.Unparen(is.Cond).(*ast.BinaryExpr)
		return ok && be.Op == token.EQL && (isNilIdent(info, be.Y) || isNilIdent(info, be.X)) && c03Leaves(info, is.Body)
	})
	okG := false
	for _, is := range guards {
		if cp, ok := g.PointOf(is.Cond); ok {
			if _, found := pathAvoiding(g, nil, core.HitPoints(after), []core.Point{cp}); !found {
				okG = true
			}
		}
	}
	if !okG {
		res = "ast.Walk may call VisitAfter although VisitBefore returned no visitor"
	}
	return res
}

// decoStackIndex: the code generator's stack of decorator applications, read in the NextStmt clause.
// Facts checked: the checker records an error for a `next` outside any decorator definition and for a second
// `next` in one definition; the code generator does not descend into a definition (DecoDecl clause returns a nil
// visitor and walks nothing) and walks a definition's block only in the DecoStmt clause, after pushing the application.
func (x *c03Ctx) decoStackIndex(st *c03Site, need int64) *c03Verdict {
	if need != 1 {
		return nil
	}
	f, fld := x.stackField(st)
	if f == nil || f.Obj.Name() != "VisitBefore" || core.Rel(f.Pkg.PkgPath) != "internal/runtime/compiler/codegen" {
		return nil
	}
	par := x.parentsOf(st.F)
	T := ""
	for p := par[st.N]; p != nil; p = par[p] {
		if cc, ok := p.(*ast.CaseClause); ok && len(cc.List) == 1 {
			if nt := c03Named(f.Info().TypeOf(cc.List[0])); nt != nil {
				T = nt.Obj().Name()
			}
		}
	}
	if T != "NextStmt" {
		return nil
	}
	ws, why := x.stackWrites(fld)
	if why != "" {
		return &c03Verdict{"undecided", "decorator stack: " + why}
	}
	var push *c03StackWrite
	for i := range ws {
		w := &ws[i]
		switch {
		case w.Push && w.Clause == "DecoStmt" && push == nil:
			push = w
		case !w.Push && w.Clause == "NextStmt":
		default:
			return &c03Verdict{"undecided", "decorator stack written outside the DecoStmt/NextStmt clauses"}
		}
	}
	if push == nil {
		return &c03Verdict{"fail", "the NextStmt clause pops the stack of decorator applications but nothing pushes an application"}
	}
	info := f.Info()
	g := f.Graph()
	// DecoStmt: the walk of the definition's block is dominated by the push
	ccStmt, _ := x.nodeClause(f, "DecoStmt")
	ccDecl, _ := x.nodeClause(f, "DecoDecl")
	if ccStmt == nil || ccDecl == nil {
		return &c03Verdict{"undecided", "DecoStmt/DecoDecl clauses not found"}
	}
	pp, _ := g.PointOf(push.At)
	walks := g.Calls(func(id string, call *ast.CallExpr) bool {
		return id == c03Walk && ccStmt.Pos() <= call.Pos() && call.End() <= ccStmt.End()
	})
	start, ok := c03ClauseStart(g, ccStmt)
	if !ok || len(walks) == 0 {
		return &c03Verdict{"undecided", "DecoStmt clause not located"}
	}
	if tr, found := pathAvoiding(g, &start, core.HitPoints(walks), []core.Point{pp}); found {
		return &c03Verdict{"fail", "the code generator walks a decorator's definition without pushing the application first (" + strings.Join(tr, " > ") + "): the `next` inside it pops an empty stack"}
	}
	// DecoDecl: nil visitor, no walk
	badDecl := ""
	ast.Inspect(ccDecl, func(n ast.Node) bool {
		switch v := n.(type) {
		case *ast.ReturnStmt:
			if len(v.Results) != 2 || !isNilIdent(info, v.Results[0]) {
				badDecl = "the code generator descends into a decorator definition"
			}
		case *ast.CallExpr:
			if f.CalleeID(v) == c03Walk {
				badDecl = "the code generator walks a decorator definition directly"
			}
		}
		return true
	})
	if badDecl == "" {
		// the clause must end in a return (not fall out to the common `return c, node`)
		if len(ccDecl.Body) == 0 || !c03Leaves(info, ccDecl.Body[len(ccDecl.Body)-1]) {
			badDecl = "the code generator descends into a decorator definition"
		}
	}
	if badDecl != "" {
		return &c03Verdict{"fail", badDecl + ": its `next` is visited with no application on the stack and " + c03Short(exprStr(st.N.(ast.Expr))) + " panics"}
	}
	// checker: `next` outside a definition and a second `next` are errors
	ck := x.c.Prog.Fn(c03CheckAfter)
	if ck == nil {
		return &c03Verdict{"undecided", "checker.VisitAfter not found"}
	}
	ccNext, _ := x.nodeClause(ck, "NextStmt")
	if ccNext == nil {
		return &c03Verdict{"fail", "the checker has no clause for `next`: one outside a decorator definition reaches the code generator and pops an empty stack"}
	}
	cg := ck.Graph()
	adds := cg.CallsTo(c03ErrAdd)
	nGuards := 0
	type guard struct {
		cond  ast.Expr
		start *core.Point
	}
	var guards []guard
	for _, s := range ccNext.Body {
		switch v := s.(type) {
		case *ast.IfStmt:
			if c03Leaves(ck.Info(), v.Body) {
				if st, ok := branchStart(cg, v, true); ok {
					guards = append(guards, guard{v.Cond, st})
				}
			}
		case *ast.SwitchStmt:
			if v.Tag != nil {
				continue
			}
			for _, cl := range v.Body.List {
				cc := cl.(*ast.CaseClause)
				if len(cc.List) == 1 && len(cc.Body) > 0 && c03Leaves(ck.Info(), cc.Body[len(cc.Body)-1]) {
					if st, ok := c03ClauseStart(cg, cc); ok {
						stc := st
						guards = append(guards, guard{cc.List[0], &stc})
					}
				}
			}
		}
	}
	for _, gd := range guards {
		if _, found := pathAvoiding(cg, gd.start, core.ExitPoints(normalExits(cg)), core.HitPoints(adds)); found {
			continue
		}
		// the condition is a bound on a stack length or a symbol count
		be, ok := core.Unparen(gd.cond).(*ast.BinaryExpr)
		if !ok {
			continue
		}
		X, _ := x.lenLinear(ck, be.X, 0)
		Y, _ := x.lenLinear(ck, be.Y, 0)
		if X != nil || Y != nil {
			nGuards++
		}
	}
	if nGuards < 2 {
		return &c03Verdict{"fail", fmt.Sprintf("the checker's `next` clause has %d of the 2 error exits (outside a definition; second `next` in a definition) that keep the code generator's stack of applications from being popped when empty", nGuards)}
	}
	if why := x.codegenOnlyAfterCheck(); why != "" {
		return &c03Verdict{"fail", why}
	}
	return &c03Verdict{"ok", "a `next` reaches the code generator only inside a definition being expanded for an application pushed just before; the checker rejects `next` outside a definition and a second `next` in one definition"}
}

// ---------------------------------------------------------------------------
// C03-R2: error shape — "either code or a non-empty list of errors, never both, never neither"
// ---------------------------------------------------------------------------

const (
	c03ErrListAdd  = "internal/runtime/compiler/errors.(*ErrorList).Add"
	c03CodeGenKey  = "internal/runtime/compiler/codegen.CodeGen"
	c03OptimiseKey = "internal/runtime/compiler/opt.Optimise"
	c03YaccParse   = "internal/runtime/compiler/parser.mtailParse"
)

// nonEmptyList: a fact at n says the ErrorList path L is non-empty.
func (x *c03Ctx) nonEmptyList(f *core.Func, n ast.Node, L ast.Expr) bool {
	if lb, why := x.minLen(f, n, L); why == "" && lb >= 1 {
		return true
	}
	return x.nonNil(f, n, L)
}

// condImpliesNonEmpty: the boolean expression, when true, implies that L is non-empty.
func (x *c03Ctx) condImpliesNonEmpty(f *core.Func, c ast.Expr, L ast.Expr) (bool, string) {
	info := f.Info()
	switch v := core.Unparen(c).(type) {
	case *ast.Ident:
		if def := x.singleDef(f, identObj(info, v)); def != nil {
			if _, again := core.Unparen(def).(*ast.Ident); !again {
				return x.condImpliesNonEmpty(f, def, L)
			}
		}
	case *ast.BinaryExpr:
		switch v.Op {
		case token.LOR:
			a, wa := x.condImpliesNonEmpty(f, v.X, L)
			b, wb := x.condImpliesNonEmpty(f, v.Y, L)
			if !a {
				return false, wa
			}
			if !b {
				return false, wb
			}
			return true, ""
		case token.LAND:
			a, wa := x.condImpliesNonEmpty(f, v.X, L)
			b, _ := x.condImpliesNonEmpty(f, v.Y, L)
			if a || b {
				return true, ""
			}
			return false, wa
		case token.NEQ:
			for _, pr := range [][2]ast.Expr{{v.X, v.Y}, {v.Y, v.X}} {
				if isNilIdent(info, pr[1]) && c03SamePath(info, pr[0], L) {
					return true, ""
				}
				if k, ok := constInt(info, pr[1]); ok && k == 0 {
					if lx := x.lenOperand(f, pr[0]); lx != nil && c03SamePath(info, lx, L) {
						return true, ""
					}
					// r != 0 where r is the result of the generated parser
					def := core.Unparen(pr[0])
					if id, isId := def.(*ast.Ident); isId {
						def = x.singleDef(f, identObj(info, id))
					}
					if def != nil {
						if call, ok := core.Unparen(def).(*ast.CallExpr); ok {
							if why := x.driverRecordsError(f, call, L); why == "" {
								return true, ""
							} else {
								return false, why
							}
						}
					}
				}
			}
		case token.GTR, token.GEQ:
			if k, ok := constInt(info, v.Y); ok && ((v.Op == token.GTR && k >= 0) || (v.Op == token.GEQ && k >= 1)) {
				if lx := x.lenOperand(f, v.X); lx != nil && c03SamePath(info, lx, L) {
					return true, ""
				}
			}
		}
	}
	return false, "the condition " + c03Short(exprStr(c)) + " does not imply that " + exprStr(L) + " is non-empty"
}

var c03DriverCache = map[string]string{}

// driverRecordsError: call is mtailParse(p) and L is p.errors: a non-zero result implies that p.Error was
// called, which appends to p.errors.
func (x *c03Ctx) driverRecordsError(f *core.Func, call *ast.CallExpr, L ast.Expr) string {
	info := f.Info()
	g := f.CalleeFunc(call)
	if g == nil || g.Key != c03YaccParse || len(call.Args) != 1 {
		return "the value tested is not the result of the generated parser"
	}
	lse, ok := core.Unparen(L).(*ast.SelectorExpr)
	if !ok || identObj(info, lse.X) == nil || identObj(info, lse.X) != identObj(info, call.Args[0]) {
		return "the error list returned does not belong to the lexer object handed to the generated parser"
	}
	if r, ok := c03DriverCache["driver"]; ok {
		return r
	}
	res := x.driverFacts(f, call, lse)
	c03DriverCache["driver"] = res
	return res
}

func (x *c03Ctx) driverFacts(f *core.Func, call *ast.CallExpr, lse *ast.SelectorExpr) string {
	c := x.c
	// mtailParse passes its argument to (*mtailParserImpl).Parse and returns its result
	yp := c.Prog.Fn(c03YaccParse)
	pm := c.Prog.Fn(c03ParseKey)
	if yp == nil || pm == nil {
		return "generated parser not found"
	}
	c.Analysed(yp, pm)
	okPass := false
	core.InspectNoLit(yp.Body, func(n ast.Node) bool {
		if rs, ok := n.(*ast.ReturnStmt); ok && len(rs.Results) == 1 {
			if c2, ok := core.Unparen(rs.Results[0]).(*ast.CallExpr); ok && len(c2.Args) == 1 {
				if se, ok := core.Unparen(c2.Fun).(*ast.SelectorExpr); ok && se.Sel.Name == "Parse" && identObj(yp.Info(), c2.Args[0]) == types.Object(yp.Obj.Type().(*types.Signature).Params().At(0)) {
					okPass = true
				}
			}
		}
		return true
	})
	if !okPass {
		return "mtailParse does not return the result of Parse on its own argument"
	}
	info := pm.Info()
	P := types.Object(pm.Obj.Type().(*types.Signature).Params().At(0))
	g := pm.Graph()
	// the error-recovery switch: a switch over a local whose `case 0` begins by calling P.Error
	var S *ast.SwitchStmt
	var E types.Object
	var errCall *ast.CallExpr
	ast.Inspect(pm.Body, func(n ast.Node) bool {
		sw, ok := n.(*ast.SwitchStmt)
		if !ok || sw.Tag == nil || identObj(info, sw.Tag) == nil {
			return true
		}
		for _, cl := range sw.Body.List {
			cc := cl.(*ast.CaseClause)
			if len(cc.List) != 1 || len(cc.Body) == 0 {
				continue
			}
			if k, isC := constInt(info, cc.List[0]); !isC || k != 0 {
				continue
			}
			if es, ok := cc.Body[0].(*ast.ExprStmt); ok {
				if c2, ok := es.X.(*ast.CallExpr); ok {
					if se, ok := core.Unparen(c2.Fun).(*ast.SelectorExpr); ok && se.Sel.Name == "Error" && identObj(info, se.X) == P {
						S, E, errCall = sw, identObj(info, sw.Tag), c2
					}
				}
			}
		}
		return true
	})
	if S == nil {
		return "the generated parser has no error-recovery switch whose `case 0` starts by reporting the syntax error"
	}
	// the flag: initialised to 0, set to non-zero constants only inside S, decremented only when positive
	bad := ""
	inits := 0
	par := x.parentsOf(pm)
	ast.Inspect(pm.Body, func(n ast.Node) bool {
		switch v := n.(type) {
		case *ast.AssignStmt:
			for i, l := range v.Lhs {
				if identObj(info, l) != E || len(v.Rhs) != len(v.Lhs) {
					continue
				}
				k, isC := constInt(info, v.Rhs[i])
				switch {
				case !isC:
					bad = "the recovery flag is assigned a non-constant"
				case v.Tok == token.DEFINE && k == 0:
					inits++
				case k != 0 && S.Pos() <= v.Pos() && v.End() <= S.End():
				default:
					bad = "the recovery flag is set outside the error-recovery switch"
				}
			}
		case *ast.IncDecStmt:
			if identObj(info, v.X) == E {
				okDec := false
				if v.Tok == token.DEC {
					for p := par[v]; p != nil; p = par[p] {
						if is, ok := p.(*ast.IfStmt); ok {
							if be, ok := core.Unparen(is.Cond).(*ast.BinaryExpr); ok && be.Op == token.GTR && identObj(info, be.X) == E {
								if k, isC := constInt(info, be.Y); isC && k == 0 {
									okDec = true
								}
							}
						}
					}
				}
				if !okDec {
					bad = "the recovery flag is incremented, or decremented without a positivity test"
				}
			}
		case *ast.UnaryExpr:
			if v.Op == token.AND && identObj(info, v.X) == E {
				bad = "the address of the recovery flag is taken"
			}
		}
		return true
	})
	if bad != "" || inits != 1 {
		if bad == "" {
			bad = "the recovery flag is not initialised to 0 exactly once"
		}
		return bad
	}
	// every non-zero return is reached only through the switch
	tagPt, ok := g.PointOf(S.Tag)
	if !ok {
		return "error-recovery switch not located in the control-flow graph"
	}
	var goals []core.Point
	for _, e := range normalExits(g) {
		if e.Kind != "return" || len(e.Ret.Results) != 1 {
			return "the generated parser has a return that is not a single value"
		}
		if k, isC := constInt(info, e.Ret.Results[0]); !isC || k != 0 {
			goals = append(goals, e.P)
		}
	}
	if len(goals) == 0 {
		return "the generated parser never returns non-zero"
	}
	if tr, found := pathAvoiding(g, nil, goals, []core.Point{tagPt}); found {
		return "the generated parser can return non-zero without passing the error-recovery switch (" + strings.Join(tr, " > ") + ")"
	}
	_ = errCall
	// P.Error is (*parser).Error, which appends to the list returned
	pts := x.solver.solve(func() *c03TS {
		return x.solver.get("param:"+c03ObjKey(P), func() *c03TS { return x.paramArgs(pm, P.(*types.Var)) })
	})
	if pts.Unknown != "" || len(pts.M) != 1 {
		return "the lexer handed to the generated parser is not of a single known type: " + pts.String()
	}
	var lexT types.Type
	for _, t := range pts.M {
		lexT = t
	}
	nt := c03Named(lexT)
	if nt == nil {
		return "lexer type not named"
	}
	em := x.methodOf(nt, "Error")
	if em == nil {
		return "lexer type has no Error method in the module"
	}
	c.Analysed(em)
	eg := em.Graph()
	adds := eg.Calls(func(id string, c2 *ast.CallExpr) bool {
		if id != c03ErrListAdd {
			return false
		}
		r, ok := core.Unparen(core.RecvExpr(c2)).(*ast.SelectorExpr)
		if !ok {
			return false
		}
		sl := em.Info().Selections[r]
		lsl := f.Info().Selections[lse]
		return sl != nil && lsl != nil && sl.Obj() == lsl.Obj() && identObj(em.Info(), r.X) == types.Object(em.Obj.Type().(*types.Signature).Recv())
	})
	if tr, found := pathAvoiding(eg, nil, core.ExitPoints(normalExits(eg)), core.HitPoints(adds)); found || len(adds) == 0 {
		return em.Key + " can return without adding to the error list (" + strings.Join(tr, " > ") + ")"
	}
	// Add appends on every path
	ad := c.Prog.Fn(c03ErrListAdd)
	if ad == nil {
		return "ErrorList.Add not found"
	}
	c.Analysed(ad)
	ag := ad.Graph()
	apps := ag.Find(func(n ast.Node) bool {
		as, ok := n.(*ast.AssignStmt)
		if !ok || len(as.Rhs) != 1 {
			return false
		}
		c2, ok := core.Unparen(as.Rhs[0]).(*ast.CallExpr)
		if !ok || len(c2.Args) < 2 {
			return false
		}
		id, ok := core.Unparen(c2.Fun).(*ast.Ident)
		return ok && id.Name == "append"
	})
	if tr, found := pathAvoiding(ag, nil, core.ExitPoints(normalExits(ag)), core.HitPoints(apps)); found || len(apps) == 0 {
		return "ErrorList.Add can return without appending (" + strings.Join(tr, " > ") + ")"
	}
	return ""
}

func (x *c03Ctx) r2() {
	c := x.c
	c.Rule("C03-R2", "ERROR-SHAPE: (a) an ErrorList is returned as an error only where it is known to be non-empty (a non-nil error holding an empty list would be 'neither code nor errors'); (b) a stage returns a nil error only where its list is known to be empty; (c) in Compile every stage call is followed on every path by the test of its error, whose failing branch returns at once, and the object result is assigned only from the code generator; (d) the code generator returns either (nil, errors) or (object, nil)")
	// (a) and (b)
	n := 0
	for _, f := range x.sc.bodies() {
		decl := c.Prog.FuncOf[f.Decl]
		if f.Lit != nil || decl == nil || decl.Obj == nil {
			continue
		}
		sig := decl.Obj.Type().(*types.Signature)
		ei := -1
		for i := 0; i < sig.Results().Len(); i++ {
			if types.Identical(sig.Results().At(i).Type(), types.Universe.Lookup("error").Type()) {
				ei = i
			}
		}
		if ei < 0 {
			continue
		}
		info := f.Info()
		// the function's own error list, if it returns one anywhere
		var lists []ast.Expr
		core.InspectNoLit(f.Body, func(nd ast.Node) bool {
			if rs, ok := nd.(*ast.ReturnStmt); ok && ei < len(rs.Results) && x.isErrorListExpr(info, rs.Results[ei]) {
				lists = append(lists, rs.Results[ei])
			}
			return true
		})
		if len(lists) == 0 {
			continue
		}
		k := 0
		core.InspectNoLit(f.Body, func(nd ast.Node) bool {
			rs, ok := nd.(*ast.ReturnStmt)
			if !ok || ei >= len(rs.Results) {
				return true
			}
			k++
			key := fmt.Sprintf("%s|return#%d", f.Key, k)
			e := rs.Results[ei]
			switch {
			case x.isErrorListExpr(info, e):
				n++
				if x.nonEmptyList(f, rs, e) {
					c.Ok("C03-R2", key+"|list", pos(c, rs), "the list is non-empty here")
					return true
				}
				// a disjunctive guard
				facts, _ := x.factsAt(f, rs)
				why := "no test of the list dominates the return"
				for _, ft := range facts {
					if ft.Cond == nil || !ft.Val {
						continue
					}
					ok2, w := x.condImpliesNonEmpty(f, ft.Cond, e)
					if ok2 {
						c.Ok("C03-R2", key+"|list", pos(c, rs), "the guard "+c03Short(exprStr(ft.Cond))+" implies a non-empty list (for the generated parser: a non-zero result is only returned after the lexer's Error was called, which appends)")
						return true
					}
					why = w
				}
				c.Fail("C03-R2", key+"|list", pos(c, rs), fmt.Sprintf("%s is returned as an error without being known non-empty (%s): with an empty list the caller gets a non-nil error that lists nothing — Compile returns neither code nor compile errors", exprStr(e), why))
			case isNilIdent(info, e):
				n++
				okAll := true
				for _, L := range lists {
					if lb, _ := x.minLenUpper(f, rs, L); !lb {
						okAll = false
					}
				}
				if okAll {
					c.Ok("C03-R2", key+"|nil", pos(c, rs), "the list is empty here")
				} else {
					c.Fail("C03-R2", key+"|nil", pos(c, rs), fmt.Sprintf("%s returns a nil error without testing that %s is empty: errors recorded by this stage are dropped and compilation continues on a tree the stage rejected", f.Key, exprStr(lists[0])))
				}
			}
			return true
		})
	}
	c.Floor("C03-R2", 7)
	x.r2Compile()
}

// minLenUpper: a fact at n says the list L is empty (len(L) > 0 is false, len(L) == 0, L == nil …).
func (x *c03Ctx) minLenUpper(f *core.Func, n ast.Node, L ast.Expr) (bool, string) {
	facts, w := x.factsAt(f, n)
	if w != "" {
		return false, w
	}
	info := f.Info()
	root := c03RootObj(info, L)
	path := exprStr(core.Unparen(L))
	ok := false
	var visit func(c ast.Expr, val bool, at token.Pos)
	visit = func(c ast.Expr, val bool, at token.Pos) {
		switch v := core.Unparen(c).(type) {
		case *ast.UnaryExpr:
			if v.Op == token.NOT {
				visit(v.X, !val, at)
			}
		case *ast.BinaryExpr:
			if v.Op == token.LAND && val || v.Op == token.LOR && !val {
				visit(v.X, val, at)
				visit(v.Y, val, at)
				return
			}
			empty := false
			if isNilIdent(info, v.Y) && c03SamePath(info, v.X, L) {
				empty = (v.Op == token.EQL && val) || (v.Op == token.NEQ && !val)
			}
			if k, isC := constInt(info, v.Y); isC {
				if lx := x.lenOperand(f, v.X); lx != nil && c03SamePath(info, lx, L) {
					switch {
					case k == 0 && ((v.Op == token.EQL && val) || (v.Op == token.NEQ && !val) || (v.Op == token.GTR && !val) || (v.Op == token.LEQ && val)):
						empty = true
					case k == 1 && ((v.Op == token.LSS && val) || (v.Op == token.GEQ && !val)):
						empty = true
					}
				}
			}
			if empty && root != nil && !x.assignedBetween(f, root, path, at, n.Pos()) {
				ok = true
			}
		}
	}
	for _, ft := range facts {
		if ft.Cond != nil {
			visit(ft.Cond, ft.Val, ft.At)
		}
	}
	return ok, ""
}

func (x *c03Ctx) r2Compile() {
	c := x.c
	cf := c.Prog.Fn(c03Compile)
	if cf == nil {
		return
	}
	info := cf.Info()
	g := cf.Graph()
	par := x.parentsOf(cf)
	sig := cf.Obj.Type().(*types.Signature)
	if sig.Results().Len() != 2 {
		c.Undecided("C03-R2", c03Compile+"|results", pos(c, cf.Decl), "Compile does not return (object, error)")
		return
	}
	objRes, errRes := types.Object(sig.Results().At(0)), types.Object(sig.Results().At(1))
	// stage calls: assignments whose last left-hand side is the error result (or a variable returned as it)
	type stage struct {
		hit  core.Hit
		as   *ast.AssignStmt
		name string
	}
	var stages []stage
	for _, h := range g.Calls(func(id string, call *ast.CallExpr) bool { return strings.HasPrefix(id, "internal/runtime/compiler/") }) {
		as, ok := par[h.N].(*ast.AssignStmt)
		if !ok || len(as.Rhs) != 1 || len(as.Lhs) != 2 {
			continue
		}
		if identObj(info, as.Lhs[1]) != errRes {
			continue
		}
		stages = append(stages, stage{h, as, cf.CalleeID(h.N.(*ast.CallExpr))})
	}
	if len(stages) == 0 {
		c.Undecided("C03-R2", c03Compile+"|stages", pos(c, cf.Decl), "no stage call assigning the error result found")
		return
	}
	var stagePts []core.Point
	for _, s := range stages {
		stagePts = append(stagePts, s.hit.P)
	}
	errTests := ifsWhere(cf, func(is *ast.IfStmt) bool {
		be, ok := core.Unparen(is.Cond).(*ast.BinaryExpr)
		return ok && be.Op == token.NEQ && ((identObj(info, be.X) == errRes && isNilIdent(info, be.Y)) || (identObj(info, be.Y) == errRes && isNilIdent(info, be.X)))
	})
	exits := core.ExitPoints(normalExits(g))
	cnt := map[string]int{}
	for i, s := range stages {
		cnt[s.name]++
		key := fmt.Sprintf("%s|stage %s#%d", c03Compile, s.name, cnt[s.name])
		from := s.hit.P
		var others []core.Point
		for j, o := range stages {
			if j != i {
				others = append(others, o.hit.P)
			}
		}
		// the test that follows this call
		var test *ast.IfStmt
		for _, is := range errTests {
			if is.Pos() > s.as.End() && (test == nil || is.Pos() < test.Pos()) {
				test = is
			}
		}
		last := true
		if _, reach := pathAvoiding(g, &from, others, nil); reach {
			last = false
		}
		if last {
			// the final stage: every path from it leaves without overwriting the results
			c.Ok("C03-R2", key, pos(c, s.as), "final stage: its results are Compile's results")
			if identObj(info, s.as.Lhs[0]) != objRes {
				c.Fail("C03-R2", key+"|object", pos(c, s.as), "the last stage's first result is not Compile's object result")
			}
			continue
		}
		if test == nil {
			c.Fail("C03-R2", key, pos(c, s.as), fmt.Sprintf("the error of %s is never tested: a failing stage is followed by the next stage on a rejected tree", s.name))
			continue
		}
		cp, ok := g.PointOf(test.Cond)
		if !ok {
			c.Undecided("C03-R2", key, pos(c, s.as), "error test not located in the control-flow graph")
			continue
		}
		if tr, found := pathAvoiding(g, &from, append(append([]core.Point{}, others...), exits...), []core.Point{cp}); found {
			c.Fail("C03-R2", key, pos(c, s.as), fmt.Sprintf("after %s the compiler can go on (to another stage or to its return) without testing the stage's error", s.name), tr...)
			continue
		}
		start, ok := branchStart(g, test, true)
		if !ok {
			c.Undecided("C03-R2", key, pos(c, test), "branch not located")
			continue
		}
		if tr, found := pathAvoiding(g, start, others, nil); found {
			c.Fail("C03-R2", key, pos(c, test), fmt.Sprintf("when %s fails, Compile does not return at once: a later stage still runs on the rejected tree", s.name), tr...)
			continue
		}
		// the failing branch assigns nothing to the results
		badAssign := ""
		ast.Inspect(test.Body, func(n ast.Node) bool {
			if as, ok := n.(*ast.AssignStmt); ok {
				for _, l := range as.Lhs {
					if o := identObj(info, l); o == objRes || o == errRes {
						badAssign = exprStr(l)
					}
				}
			}
			return true
		})
		if badAssign != "" {
			c.Fail("C03-R2", key, pos(c, test), "the failing branch overwrites "+badAssign)
			continue
		}
		c.Ok("C03-R2", key, pos(c, s.as), "error tested first; the failing branch returns")
	}
	// the object result is assigned only by the code generator's call
	nObj := 0
	ast.Inspect(cf.Body, func(n ast.Node) bool {
		as, ok := n.(*ast.AssignStmt)
		if !ok {
			return true
		}
		for i, l := range as.Lhs {
			if identObj(info, l) != objRes {
				continue
			}
			nObj++
			call, _ := core.Unparen(as.Rhs[0]).(*ast.CallExpr)
			if i != 0 || len(as.Rhs) != 1 || call == nil || cf.CalleeID(call) != c03CodeGenKey {
				c.Fail("C03-R2", c03Compile+"|object result", pos(c, as), "Compile's object result is assigned from something other than the code generator: it can be non-nil together with an error")
			}
		}
		return true
	})
	// returns: bare, or the two results themselves
	ast.Inspect(cf.Body, func(n ast.Node) bool {
		if _, isLit := n.(*ast.FuncLit); isLit {
			return false
		}
		rs, ok := n.(*ast.ReturnStmt)
		if !ok || len(rs.Results) == 0 {
			return true
		}
		if len(rs.Results) != 2 || identObj(info, rs.Results[0]) != objRes || identObj(info, rs.Results[1]) != errRes {
			if !(len(rs.Results) == 2 && isNilIdent(info, rs.Results[0])) {
				c.Fail("C03-R2", c03Compile+"|return", pos(c, rs), "Compile returns values other than its named results: the pairing of object and error is no longer the stages'")
			}
		}
		return true
	})
	c.Verdict(nObj == 1, "C03-R2", c03Compile+"|object result", pos(c, cf.Decl), "assigned once, from the code generator", fmt.Sprintf("Compile's object result is assigned %d times", nObj))
	// (d) CodeGen's returns
	if cg := c.MustFn("C03-R2", c03CodeGenKey); cg != nil {
		k := 0
		core.InspectNoLit(cg.Body, func(n ast.Node) bool {
			rs, ok := n.(*ast.ReturnStmt)
			if !ok {
				return true
			}
			k++
			key := fmt.Sprintf("%s|return#%d|exclusive", c03CodeGenKey, k)
			if len(rs.Results) != 2 {
				c.Undecided("C03-R2", key, pos(c, rs), "return of other than two values")
				return true
			}
			objNil := isNilIdent(cg.Info(), rs.Results[0])
			errNil := isNilIdent(cg.Info(), rs.Results[1])
			switch {
			case objNil && !errNil, !objNil && errNil:
				c.Ok("C03-R2", key, pos(c, rs), "exactly one of object and error")
			case objNil && errNil:
				c.Fail("C03-R2", key, pos(c, rs), "the code generator returns neither an object nor an error")
			default:
				c.Fail("C03-R2", key, pos(c, rs), "the code generator returns an object together with an error: Compile hands both to its caller")
			}
			return true
		})
	}
}

// ---------------------------------------------------------------------------
// C03-R3: the lexer makes progress and never blocks
// ---------------------------------------------------------------------------

const (
	c03LexerNext   = "internal/runtime/compiler/parser.(*Lexer).next"
	c03LexerBackup = "internal/runtime/compiler/parser.(*Lexer).backup"
	c03NewLexer    = "internal/runtime/compiler/parser.NewLexer"
	c03NextToken   = "internal/runtime/compiler/parser.(*Lexer).NextToken"
)

type c03Lex struct {
	x       *c03Ctx
	states  []*core.Func // state functions
	isState map[*core.Func]bool
	senders map[*core.Func]bool // functions that send on the token channel
	cap     int64
	tokFld  *types.Var
}

// lexEvents classifies the calls of a state function: N(ext), B(ackup), E(mit: sends a token).
func (lx *c03Lex) events(f *core.Func) (N, B, E []core.Point) {
	g := f.Graph()
	for _, h := range g.Calls(func(id string, call *ast.CallExpr) bool { return true }) {
		call := h.N.(*ast.CallExpr)
		switch f.CalleeID(call) {
		case c03LexerNext:
			N = append(N, h.P)
		case c03LexerBackup:
			B = append(B, h.P)
		default:
			if cf := f.CalleeFunc(call); cf != nil && lx.senders[cf] {
				E = append(E, h.P)
			}
		}
	}
	// direct sends
	for _, h := range g.Find(func(n ast.Node) bool {
		s, ok := n.(*ast.SendStmt)
		if !ok {
			return false
		}
		se, ok := core.Unparen(s.Chan).(*ast.SelectorExpr)
		return ok && f.Info().Selections[se] != nil && f.Info().Selections[se].Obj() == types.Object(lx.tokFld)
	}) {
		E = append(E, h.P)
	}
	return
}

// c03Flow runs a forward dataflow over the CFG with a small finite state set encoded as a bitmask.
// step maps (state bit index, point) to the next state index; it is applied to every node in order.
// It returns the state set just before each point of interest and at block ends.
type c03Flow struct {
	g    *core.Graph
	in   map[*cfg.Block]uint
	step func(s int, p core.Point) int
	n    int
}

func c03RunFlow(g *core.Graph, nstates int, start *core.Point, init uint, step func(s int, p core.Point) int, stopAt map[*cfg.Block]bool) *c03Flow {
	fl := &c03Flow{g: g, in: map[*cfg.Block]uint{}, step: step, n: nstates}
	sb, si := g.C.Blocks[0], 0
	if start != nil {
		sb, si = start.B, start.I+1
	}
	out := func(b *cfg.Block, in uint, from int) uint {
		cur := in
		for i := from; i < len(b.Nodes); i++ {
			var nx uint
			for s := 0; s < nstates; s++ {
				if cur&(1<<uint(s)) != 0 {
					nx |= 1 << uint(step(s, core.Point{B: b, I: i}))
				}
			}
			cur = nx
		}
		return cur
	}
	var work []*cfg.Block
	push := func(b *cfg.Block, v uint) {
		old, seen := fl.in[b]
		if !seen || old|v != old {
			fl.in[b] = old | v
			work = append(work, b)
		}
	}
	first := out(sb, init, si)
	for _, s := range sb.Succs {
		push(s, first)
	}
	if start == nil {
		fl.in[sb] |= init
	}
	for len(work) > 0 {
		b := work[0]
		work = work[1:]
		if stopAt[b] {
			continue
		}
		o := out(b, fl.in[b], 0)
		for _, s := range b.Succs {
			push(s, o)
		}
	}
	return fl
}

// at returns the state set just before point p (only for blocks reached through their entry).
func (fl *c03Flow) at(p core.Point) uint {
	cur := fl.in[p.B]
	for i := 0; i < p.I && i < len(p.B.Nodes); i++ {
		var nx uint
		for s := 0; s < fl.n; s++ {
			if cur&(1<<uint(s)) != 0 {
				nx |= 1 << uint(fl.step(s, core.Point{B: p.B, I: i}))
			}
		}
		cur = nx
	}
	return cur
}

// progressStep: 0 = nothing consumed and no read pending, 1 = one rune read that a backup could still
// return, 2 = progress made for good (a rune consumed, or a token sent).
func c03ProgressStep(N, B, E []core.Point) func(int, core.Point) int {
	isN, isB, isE := core.At(N...), core.At(B...), core.At(E...)
	return func(s int, p core.Point) int {
		switch {
		case isE(p):
			return 2
		case isN(p):
			if s == 0 {
				return 1
			}
			return 2
		case isB(p):
			if s == 1 {
				return 0
			}
		}
		return s
	}
}

func (x *c03Ctx) r3() {
	c := x.c
	c.Rule("C03-R3", "LEXER-PROGRESS: (a) a state function sends at most cap(tokens) tokens per invocation and NextToken runs it only when the channel is empty, so the sender never blocks; (b) every loop of a state function consumes a rune on each iteration and leaves when the rune read is the end of input; (c) the states that can return without having consumed a rune or sent a token form no cycle; every cycle of the state graph passes a state that, at end of input, sends EOF and stops the machine; (d) from the initial configuration, for every class of first runes that the lexer's comparisons and predicates can tell apart, the chain of transitions that consume nothing does not come back to a configuration (state, flags) it has visited — a rune pushed back for another state is accepted by that state")
	pkg := c.Prog.Pkgs["internal/runtime/compiler/parser"]
	nl := c.MustFn("C03-R3", c03NewLexer)
	nt := c.MustFn("C03-R3", c03NextToken)
	if pkg == nil || nl == nil || nt == nil {
		return
	}
	lx := &c03Lex{x: x, isState: map[*core.Func]bool{}, senders: map[*core.Func]bool{}}
	// the token channel and its capacity, and the initial state
	var initState *core.Func
	ast.Inspect(nl.Body, func(n ast.Node) bool {
		cl, ok := n.(*ast.CompositeLit)
		if !ok {
			return true
		}
		st := c03StructOf(nl.Info().TypeOf(cl))
		if st == nil {
			return true
		}
		for i := 0; i < st.NumFields(); i++ {
			fld := st.Field(i)
			v, zero, ok := c03LitField(nl.Info(), cl, fld)
			if !ok || zero {
				continue
			}
			if _, isChan := fld.Type().Underlying().(*types.Chan); isChan {
				if call, ok := core.Unparen(v).(*ast.CallExpr); ok {
					if id, isId := core.Unparen(call.Fun).(*ast.Ident); isId && id.Name == "make" {
						switch len(call.Args) {
						case 1:
							lx.cap, lx.tokFld = 0, fld // unbuffered
						case 2:
							if k, isC := constInt(nl.Info(), call.Args[1]); isC {
								lx.cap, lx.tokFld = k, fld
							}
						}
					}
				}
			}
			if _, isSig := fld.Type().Underlying().(*types.Signature); isSig {
				if fn, ok := usedObj(nl.Info(), v).(*types.Func); ok {
					initState = c.Prog.ByObj[fn]
				}
			}
		}
		return true
	})
	if lx.tokFld == nil || initState == nil {
		c.Undecided("C03-R3", c03NewLexer, pos(c, nl.Decl), "token channel (make(chan Token, k)) or initial state not found in the lexer's constructor")
		return
	}
	stateT := initState.Obj.Type().(*types.Signature).Results().At(0).Type()
	for _, f := range x.sc.order {
		if f.Obj == nil || f.Pkg != pkg {
			continue
		}
		sig := f.Obj.Type().(*types.Signature)
		if sig.Recv() == nil && sig.Params().Len() == 1 && sig.Results().Len() == 1 && types.Identical(sig.Results().At(0).Type(), stateT) {
			lx.states = append(lx.states, f)
			lx.isState[f] = true
		}
		// senders
		core.InspectNoLit(f.Body, func(n ast.Node) bool {
			if s, ok := n.(*ast.SendStmt); ok {
				if se, ok := core.Unparen(s.Chan).(*ast.SelectorExpr); ok {
					if sl := f.Info().Selections[se]; sl != nil && sl.Obj() == types.Object(lx.tokFld) {
						lx.senders[f] = true
					}
				}
			}
			return true
		})
	}
	c.Extra["c03_lexer"] = map[string]any{"capacity": lx.cap, "states": len(lx.states), "initial": initState.Key}
	// (a0) NextToken runs a state only when the channel is empty
	{
		okSel := false
		ast.Inspect(nt.Body, func(n ast.Node) bool {
			sel, ok := n.(*ast.SelectStmt)
			if !ok {
				return true
			}
			recv, runs := false, false
			for _, cl := range sel.Body.List {
				cc := cl.(*ast.CommClause)
				if cc.Comm == nil {
					ast.Inspect(cc, func(m ast.Node) bool {
						if call, ok := m.(*ast.CallExpr); ok {
							if se, ok := core.Unparen(call.Fun).(*ast.SelectorExpr); ok {
								if sl := nt.Info().Selections[se]; sl != nil && sl.Kind() == types.FieldVal {
									if _, isSig := sl.Obj().Type().Underlying().(*types.Signature); isSig {
										runs = true
									}
								}
							}
						}
						return true
					})
					continue
				}
				ast.Inspect(cc.Comm, func(m ast.Node) bool {
					if u, ok := m.(*ast.UnaryExpr); ok && u.Op == token.ARROW {
						if se, ok := core.Unparen(u.X).(*ast.SelectorExpr); ok {
							if sl := nt.Info().Selections[se]; sl != nil && sl.Obj() == types.Object(lx.tokFld) {
								recv = true
							}
						}
					}
					return true
				})
			}
			if recv && runs {
				okSel = true
			}
			return true
		})
		// the state is not run anywhere else
		nRuns := 0
		for _, f := range x.sc.bodies() {
			core.InspectNoLit(f.Body, func(n ast.Node) bool {
				if call, ok := n.(*ast.CallExpr); ok {
					if se, ok := core.Unparen(call.Fun).(*ast.SelectorExpr); ok {
						if sl := f.Info().Selections[se]; sl != nil && sl.Kind() == types.FieldVal && types.Identical(sl.Obj().Type(), stateT) {
							nRuns++
						}
					}
				}
				return true
			})
		}
		c.Verdict(okSel && nRuns == 1, "C03-R3", c03NextToken+"|runs state only when empty", pos(c, nt.Decl), "the state runs in the default arm of a select that first tries to receive a pending token", "NextToken does not run the state function exclusively in the default arm of a select on the token channel: a state can be started with tokens still queued and block on a full channel (the lexer and its consumer are one goroutine: deadlock)")
	}
	// per state function
	type edge struct {
		to   *core.Func
		zero bool
		at   string
	}
	edges := map[*core.Func][]edge{}
	eofStops := map[*core.Func]bool{}
	nLoops := 0
	for _, f := range lx.states {
		g := f.Graph()
		N, B, E := lx.events(f)
		// (a) emits per invocation
		capN := int(lx.cap) + 1
		isE := core.At(E...)
		fl := c03RunFlow(g, capN+1, nil, 1, func(s int, p core.Point) int {
			if isE(p) && s < capN {
				return s + 1
			}
			return s
		}, nil)
		worst := 0
		for _, e := range normalExits(g) {
			m := fl.at(e.P)
			if e.Kind == "return" {
				// the return expression itself may send (return l.errorf(...))
				m = fl.at(core.Point{B: e.P.B, I: e.P.I + 1})
			}
			for s := capN; s >= 0; s-- {
				if m&(1<<uint(s)) != 0 {
					if s > worst {
						worst = s
					}
					break
				}
			}
		}
		c.Verdict(int64(worst) <= lx.cap, "C03-R3", f.Key+"|tokens per invocation", pos(c, f.Decl), fmt.Sprintf("at most %d, capacity %d", worst, lx.cap),
			fmt.Sprintf("%s can send more than %d tokens in one invocation (in a loop, or on one path): the channel holds %d and nobody receives while the state function runs — NextToken blocks forever", f.Key, lx.cap, lx.cap))
		// (c) progress at returns
		step := c03ProgressStep(N, B, E)
		pf := c03RunFlow(g, 3, nil, 1, step, nil)
		for _, e := range normalExits(g) {
			if e.Kind != "return" || len(e.Ret.Results) != 1 {
				c.Undecided("C03-R3", f.Key+"|exit="+e.String(), ppos(c, e.P, f), "state function leaves other than by returning one state")
				continue
			}
			m := pf.at(core.Point{B: e.P.B, I: e.P.I + 1})
			zero := m&1 != 0
			tos, nilRet, why := lx.targets(f, e.Ret.Results[0])
			if why != "" {
				c.Undecided("C03-R3", f.Key+"|exit="+e.String(), ppos(c, e.P, f), why)
				continue
			}
			if nilRet {
				// stopping the machine: EOF must have been sent on this path
				sent := c03RunFlow(g, 2, nil, 1, func(s int, p core.Point) int {
					if isE(p) {
						return 1
					}
					return s
				}, nil)
				ms := sent.at(e.P)
				c.Verdict(ms&1 == 0, "C03-R3", f.Key+"|exit="+e.String()+"|stops", ppos(c, e.P, f), "a token is sent before the machine stops", "the state machine is stopped on a path that sent no token: NextToken then calls a nil state function and panics")
			}
			for _, t := range tos {
				edges[f] = append(edges[f], edge{t, zero, e.String()})
			}
		}
		// (b) loops
		for _, loop := range x.loopsOf(f) {
			nLoops++
			key := fmt.Sprintf("%s|loop#%d", f.Key, nLoops)
			head, body, _ := c03LoopBlocks(g, loop)
			if head == nil || body == nil {
				c.Undecided("C03-R3", key, pos(c, loop), "loop blocks not found")
				continue
			}
			// per-iteration consumption: from the start of the body to the back edge
			start := core.Point{B: body, I: -1}
			it := c03RunFlow(g, 3, &start, 1, step, map[*cfg.Block]bool{head: true})
			back := it.in[head]
			// for a loop with a condition the read happened before the test: the pending read carries in
			if fs, ok := loop.(*ast.ForStmt); ok && fs.Cond != nil && x.mentionsRuneVar(f, fs.Cond) {
				it = c03RunFlow(g, 3, &start, 2, step, map[*cfg.Block]bool{head: true})
				back = it.in[head]
				// the iteration must read again before coming back
				rd := c03RunFlow(g, 2, &start, 1, func(s int, p core.Point) int {
					if core.At(N...)(p) {
						return 1
					}
					return s
				}, map[*cfg.Block]bool{head: true})
				if rd.in[head]&1 != 0 {
					back |= 1
				}
			}
			if back&1 != 0 {
				c.Fail("C03-R3", key+"|consumes", pos(c, loop), "an iteration of this lexer loop can come back to the loop head without having consumed a rune (no next, or next followed by backup): the same input is lexed again forever")
			} else {
				c.Ok("C03-R3", key+"|consumes", pos(c, loop), "every iteration consumes a rune")
			}
			// end of input leaves the loop
			okEof, why := x.loopLeavesAtEof(f, loop)
			switch {
			case why != "":
				c.Undecided("C03-R3", key+"|eof", pos(c, loop), why)
			case okEof:
				c.Ok("C03-R3", key+"|eof", pos(c, loop), "the branch taken when the rune read is the end of input leaves the loop")
			default:
				c.Fail("C03-R3", key+"|eof", pos(c, loop), "when next() returns the end-of-input rune the loop goes round again; at end of input next() returns it forever, so an unterminated token never ends (and the token text grows without bound)")
			}
		}
		// does this state stop the machine at end of input?
		eofStops[f] = x.stateStopsAtEof(lx, f)
	}
	c.Floor("C03-R3", 9+14)
	// (c) cycles
	var zeroCycle []string
	color := map[*core.Func]int{}
	var dfs func(f *core.Func, path []string, zeroOnly bool, skip map[*core.Func]bool) []string
	dfs = func(f *core.Func, path []string, zeroOnly bool, skip map[*core.Func]bool) []string {
		color[f] = 1
		for _, e := range edges[f] {
			if (zeroOnly && !e.zero) || skip[e.to] {
				continue
			}
			if color[e.to] == 1 {
				return append(path, f.Key+" -"+e.at+"-> "+e.to.Key)
			}
			if color[e.to] == 0 {
				if r := dfs(e.to, append(path, f.Key+" -"+e.at+"-> "+e.to.Key), zeroOnly, skip); r != nil {
					return r
				}
			}
		}
		color[f] = 2
		return nil
	}
	for _, f := range lx.states {
		if color[f] == 0 {
			if r := dfs(f, nil, true, nil); r != nil {
				zeroCycle = r
				break
			}
		}
	}
	c.Verdict(zeroCycle == nil, "C03-R3", "state graph|no zero-progress cycle", pos(c, initState.Decl), fmt.Sprintf("%d states", len(lx.states)),
		"the state functions can hand control round a cycle in which none consumes a rune or sends a token: NextToken spins forever on some input: "+strings.Join(zeroCycle, "; "))
	color = map[*core.Func]int{}
	var eofCycle []string
	for _, f := range lx.states {
		if color[f] == 0 && !eofStops[f] {
			if r := dfs(f, nil, false, eofStops); r != nil {
				eofCycle = r
				break
			}
		}
	}
	nStop := 0
	for _, v := range eofStops {
		if v {
			nStop++
		}
	}
	c.Verdict(eofCycle == nil && nStop > 0, "C03-R3", "state graph|every cycle stops at end of input", pos(c, initState.Decl), fmt.Sprintf("%d state(s) send EOF and stop at end of input; no cycle avoids them", nStop),
		"there is a cycle of states none of which stops the machine at end of input (reads there consume nothing): the lexer never delivers EOF: "+strings.Join(eofCycle, "; "))
	// (d) a rune pushed back for another state is accepted by that state
	lx.reread(initState, nl)
}

// targets: the state functions a returned expression can denote.
func (lx *c03Lex) targets(f *core.Func, e ast.Expr) (tos []*core.Func, isNil bool, why string) {
	info := f.Info()
	e = core.Unparen(e)
	if isNilIdent(info, e) {
		return nil, true, ""
	}
	if fn, ok := usedObj(info, e).(*types.Func); ok {
		if t := lx.x.c.Prog.ByObj[fn]; t != nil && lx.isState[t] {
			return []*core.Func{t}, false, ""
		}
	}
	if call, ok := e.(*ast.CallExpr); ok {
		if g := f.CalleeFunc(call); g != nil {
			var out []*core.Func
			bad := ""
			core.InspectNoLit(g.Body, func(n ast.Node) bool {
				if rs, ok := n.(*ast.ReturnStmt); ok && len(rs.Results) == 1 {
					t, nl, w := lx.targets(g, rs.Results[0])
					if w != "" || nl {
						bad = "the helper " + g.Key + " returns something other than a state function"
					}
					out = append(out, t...)
				}
				return true
			})
			if bad == "" && len(out) > 0 {
				return out, false, ""
			}
			return nil, false, bad
		}
	}
	return nil, false, "returned state " + c03Short(exprStr(e)) + " not resolved"
}

// loopsOf lists the for/range statements of f.
func (x *c03Ctx) loopsOf(f *core.Func) []ast.Stmt {
	var out []ast.Stmt
	core.InspectNoLit(f.Body, func(n ast.Node) bool {
		switch n.(type) {
		case *ast.ForStmt, *ast.RangeStmt:
			out = append(out, n.(ast.Stmt))
		}
		return true
	})
	return out
}

// runeVars: locals of f all of whose assignments are results of (*Lexer).next.
func (x *c03Ctx) runeVars(f *core.Func) map[types.Object]bool {
	info := f.Info()
	cnt, good := map[types.Object]int{}, map[types.Object]int{}
	ast.Inspect(f.Decl, func(n ast.Node) bool {
		as, ok := n.(*ast.AssignStmt)
		if !ok {
			return true
		}
		for i, l := range as.Lhs {
			o := identObj(info, l)
			if o == nil {
				continue
			}
			cnt[o]++
			if len(as.Rhs) == len(as.Lhs) {
				if call, ok := core.Unparen(as.Rhs[i]).(*ast.CallExpr); ok && f.CalleeID(call) == c03LexerNext {
					good[o]++
				}
			}
		}
		return true
	})
	out := map[types.Object]bool{}
	for o, n := range cnt {
		if good[o] == n {
			out[o] = true
		}
	}
	return out
}

func (x *c03Ctx) mentionsRuneVar(f *core.Func, e ast.Expr) bool {
	rv := x.runeVars(f)
	found := false
	ast.Inspect(e, func(n ast.Node) bool {
		if id, ok := n.(*ast.Ident); ok && rv[f.Info().Uses[id]] {
			found = true
		}
		return true
	})
	return found
}

// evalEof evaluates a boolean expression under "the rune last read is the end-of-input rune".
// env binds parameters of predicate helpers to that rune.  Returns (value, known).
func (x *c03Ctx) evalEof(f *core.Func, e ast.Expr, runes map[types.Object]bool, depth int) (bool, bool) {
	if depth > 5 {
		return false, false
	}
	info := f.Info()
	eofC, _ := x.tokenConst("eof").(*types.Const)
	if eofC == nil {
		return false, false
	}
	isRune := func(a ast.Expr) bool {
		a = core.Unparen(a)
		if id, ok := a.(*ast.Ident); ok {
			return runes[identObj(info, id)]
		}
		if call, ok := a.(*ast.CallExpr); ok {
			return f.CalleeID(call) == c03LexerNext
		}
		return false
	}
	switch v := core.Unparen(e).(type) {
	case *ast.UnaryExpr:
		if v.Op == token.NOT {
			b, ok := x.evalEof(f, v.X, runes, depth)
			return !b, ok
		}
	case *ast.BinaryExpr:
		switch v.Op {
		case token.LAND, token.LOR:
			a, oka := x.evalEof(f, v.X, runes, depth)
			b, okb := x.evalEof(f, v.Y, runes, depth)
			if v.Op == token.LAND {
				if (oka && !a) || (okb && !b) {
					return false, true
				}
				return a && b, oka && okb
			}
			if (oka && a) || (okb && b) {
				return true, true
			}
			return a || b, oka && okb
		case token.EQL, token.NEQ:
			for _, pr := range [][2]ast.Expr{{v.X, v.Y}, {v.Y, v.X}} {
				if !isRune(pr[0]) {
					continue
				}
				tv, ok := info.Types[pr[1]]
				if !ok || tv.Value == nil {
					return false, false
				}
				eq := tv.Value.ExactString() == eofC.Val().ExactString()
				return eq == (v.Op == token.EQL), true
			}
		case token.LSS, token.LEQ, token.GTR, token.GEQ:
			// an ordered comparison of the rune with a constant: '0' <= r, r <= '9'
			if isRune(v.X) {
				if tv, ok := info.Types[v.Y]; ok && tv.Value != nil {
					return constant.Compare(constant.ToInt(eofC.Val()), v.Op, constant.ToInt(tv.Value)), true
				}
			}
			if isRune(v.Y) {
				if tv, ok := info.Types[v.X]; ok && tv.Value != nil {
					return constant.Compare(constant.ToInt(tv.Value), v.Op, constant.ToInt(eofC.Val())), true
				}
			}
		}
	case *ast.CallExpr:
		if len(v.Args) != 1 || !isRune(v.Args[0]) {
			return false, false
		}
		id := f.CalleeID(v)
		if strings.HasPrefix(id, "unicode.Is") {
			return false, true // documented: false for runes that are not valid code points (the end-of-input rune is negative)
		}
		g := f.CalleeFunc(v)
		if g == nil || g.Obj == nil {
			return false, false
		}
		sig := g.Obj.Type().(*types.Signature)
		if sig.Params().Len() != 1 || x.reassigned(g, sig.Params().At(0)) {
			return false, false
		}
		return x.evalEofBody(g, g.Body.List, map[types.Object]bool{sig.Params().At(0): true}, depth+1)
	}
	return false, false
}

// evalEofBody evaluates a predicate helper's body: returns of boolean expressions and switches on the rune.
func (x *c03Ctx) evalEofBody(g *core.Func, stmts []ast.Stmt, runes map[types.Object]bool, depth int) (bool, bool) {
	info := g.Info()
	eofC, _ := x.tokenConst("eof").(*types.Const)
	for _, st := range stmts {
		switch s := st.(type) {
		case *ast.ReturnStmt:
			if len(s.Results) != 1 {
				return false, false
			}
			if b, ok := constBool(info, s.Results[0]); ok {
				return b, true
			}
			return x.evalEof(g, s.Results[0], runes, depth)
		case *ast.SwitchStmt:
			if s.Tag == nil || s.Init != nil || !runes[identObj(info, s.Tag)] {
				return false, false
			}
			var chosen, deflt *ast.CaseClause
			for _, cl := range s.Body.List {
				cc := cl.(*ast.CaseClause)
				if cc.List == nil {
					deflt = cc
				}
				for _, e := range cc.List {
					tv, ok := info.Types[e]
					if !ok || tv.Value == nil {
						return false, false
					}
					if eofC != nil && tv.Value.ExactString() == eofC.Val().ExactString() {
						chosen = cc
					}
				}
			}
			if chosen == nil {
				chosen = deflt
			}
			if chosen != nil {
				if b, ok := x.evalEofBody(g, chosen.Body, runes, depth); ok {
					return b, true
				}
				// the clause may fall out of the switch
				for _, cs := range chosen.Body {
					if _, isRet := cs.(*ast.ReturnStmt); isRet {
						return false, false
					}
				}
			}
		case *ast.IfStmt:
			if s.Init != nil {
				return false, false
			}
			b, ok := x.evalEof(g, s.Cond, runes, depth)
			if !ok {
				return false, false
			}
			if b {
				return x.evalEofBody(g, s.Body.List, runes, depth)
			}
			if s.Else != nil {
				if eb, ok := s.Else.(*ast.BlockStmt); ok {
					if r, ok := x.evalEofBody(g, eb.List, runes, depth); ok {
						return r, true
					}
				}
			}
		default:
			return false, false
		}
	}
	return false, false
}

// eofClause: for a switch whose tag is the rune read (or whose clauses test it), the clause taken when that
// rune is the end of input; deflt=true when no clause matches and there is no default (falls out of the switch).
func (x *c03Ctx) eofClause(f *core.Func, sw *ast.SwitchStmt) (cc *ast.CaseClause, fallsOut bool, why string) {
	info := f.Info()
	runes := x.runeVars(f)
	eofC, _ := x.tokenConst("eof").(*types.Const)
	if eofC == nil {
		return nil, false, "end-of-input rune constant not found"
	}
	var deflt *ast.CaseClause
	if sw.Tag != nil {
		tagIsRune := false
		if call, ok := core.Unparen(sw.Tag).(*ast.CallExpr); ok && f.CalleeID(call) == c03LexerNext {
			tagIsRune = true
		}
		if id, ok := core.Unparen(sw.Tag).(*ast.Ident); ok && runes[identObj(info, id)] {
			tagIsRune = true
		}
		if !tagIsRune {
			return nil, false, "switch tag is not the rune read"
		}
		for _, cl := range sw.Body.List {
			c := cl.(*ast.CaseClause)
			if c.List == nil {
				deflt = c
			}
			for _, e := range c.List {
				tv, ok := info.Types[e]
				if !ok || tv.Value == nil {
					return nil, false, "non-constant case"
				}
				if tv.Value.ExactString() == eofC.Val().ExactString() {
					return c, false, ""
				}
			}
		}
	} else {
		for _, cl := range sw.Body.List {
			c := cl.(*ast.CaseClause)
			if c.List == nil {
				deflt = c
				continue
			}
			for _, e := range c.List {
				b, ok := x.evalEof(f, e, runes, 0)
				if !ok {
					return nil, false, "case condition " + c03Short(exprStr(e)) + " cannot be evaluated for the end-of-input rune"
				}
				if b {
					return c, false, ""
				}
			}
		}
	}
	if deflt != nil {
		return deflt, false, ""
	}
	return nil, true, ""
}

// loopLeavesAtEof: when the rune read in an iteration is the end of input, control leaves the loop.
func (x *c03Ctx) loopLeavesAtEof(f *core.Func, loop ast.Stmt) (bool, string) {
	fs, ok := loop.(*ast.ForStmt)
	if !ok {
		return false, "range loop in a lexer state function"
	}
	g := f.Graph()
	head, _, _ := c03LoopBlocks(g, loop)
	if fs.Cond != nil {
		b, known := x.evalEof(f, fs.Cond, x.runeVars(f), 0)
		if !known {
			return false, "loop condition " + c03Short(exprStr(fs.Cond)) + " cannot be evaluated for the end-of-input rune"
		}
		return !b, ""
	}
	// `for { switch … }`: the first statement reading the rune is a switch
	if len(fs.Body.List) == 0 {
		return false, ""
	}
	sw, ok := fs.Body.List[0].(*ast.SwitchStmt)
	if !ok {
		return false, "loop body does not start with a switch on the rune read"
	}
	cc, fallsOut, why := x.eofClause(f, sw)
	if why != "" {
		return false, why
	}
	if fallsOut {
		return len(fs.Body.List) > 1 && c03Leaves(f.Info(), fs.Body.List[len(fs.Body.List)-1]), ""
	}
	if len(cc.Body) == 0 {
		return false, ""
	}
	start, ok := c03ClauseStart(g, cc)
	if !ok {
		return false, "clause not located in the control-flow graph"
	}
	_, back := g.Search(core.Query{From: &start, Goal: func(p core.Point) bool { return p.B == head }})
	return !back, ""
}

// stateStopsAtEof: the state function reads a rune in a switch and, when it is the end of input, every path of
// the clause taken sends a token and returns nil.
func (x *c03Ctx) stateStopsAtEof(lx *c03Lex, f *core.Func) bool {
	g := f.Graph()
	_, _, E := lx.events(f)
	res := false
	for _, st := range f.Body.List {
		sw, ok := st.(*ast.SwitchStmt)
		if !ok {
			continue
		}
		cc, fallsOut, why := x.eofClause(f, sw)
		if why != "" || fallsOut || cc == nil || len(cc.Body) == 0 {
			continue
		}
		start, ok := c03ClauseStart(g, cc)
		if !ok {
			continue
		}
		okAll := true
		n := 0
		for _, e := range normalExits(g) {
			if _, reach := g.Search(core.Query{From: &start, Goal: core.At(e.P)}); !reach {
				continue
			}
			n++
			if e.Kind != "return" || len(e.Ret.Results) != 1 || !isNilIdent(f.Info(), e.Ret.Results[0]) {
				okAll = false
			}
			if _, found := pathAvoiding(g, &start, []core.Point{e.P}, E); found {
				okAll = false
			}
		}
		if okAll && n > 0 {
			res = true
		}
	}
	return res
}

// c03LoopBlocks: like loopBlocks, but a `for {` without condition has no separate head block in go/cfg:
// its body block is the target of the back edge.
func c03LoopBlocks(g *core.Graph, s ast.Stmt) (head, body, done *cfg.Block) {
	head, body, done = loopBlocks(g, s)
	if head == nil {
		head = body
	}
	return
}

// c03ClauseStart returns the pseudo point just before the first node of a case clause's body.
func c03ClauseStart(g *core.Graph, cc *ast.CaseClause) (core.Point, bool) {
	for _, b := range g.C.Blocks {
		if b.Stmt == ast.Stmt(cc) && (b.Kind == cfg.KindSwitchCaseBody) {
			return core.Point{B: b, I: -1}, true
		}
	}
	return core.Point{}, false
}

// ---------------------------------------------------------------------------
// C03-R4: the recursion limit
// ---------------------------------------------------------------------------

const c03CheckBefore = "internal/runtime/compiler/checker.(*checker).VisitBefore"

// recvField: e is <recv>.<field> of method f; returns the field.
func c03RecvField(f *core.Func, e ast.Expr) *types.Var {
	se, ok := core.Unparen(e).(*ast.SelectorExpr)
	if !ok || f.Obj == nil {
		return nil
	}
	sig := f.Obj.Type().(*types.Signature)
	if sig.Recv() == nil || identObj(f.Info(), se.X) != types.Object(sig.Recv()) {
		return nil
	}
	if sl := f.Info().Selections[se]; sl != nil && sl.Kind() == types.FieldVal {
		return sl.Obj().(*types.Var)
	}
	return nil
}

func (x *c03Ctx) r4() {
	c := x.c
	c.Rule("C03-R4", "DEPTH-LIMIT: the checker's VisitBefore counts the depth on every path before comparing it with the limit; the cut-off branch does not descend (nil visitor), records a compile error the first time and sets a flag that is set nowhere else; VisitAfter tests that flag before anything else, so no ancestor of a cut-off node is type-checked over children that were never annotated")
	vb := c.MustFn("C03-R4", c03CheckBefore)
	va := c.MustFn("C03-R4", c03CheckAfter)
	if vb == nil || va == nil {
		return
	}
	info := vb.Info()
	g := vb.Graph()
	// the cut-off test: `if <recv>.D > <recv>.M` with D incremented earlier
	var cut *ast.IfStmt
	var D, M *types.Var
	for _, st := range vb.Body.List {
		is, ok := st.(*ast.IfStmt)
		if !ok {
			continue
		}
		be, ok := core.Unparen(is.Cond).(*ast.BinaryExpr)
		if !ok || (be.Op != token.GTR && be.Op != token.GEQ) {
			continue
		}
		d, m := c03RecvField(vb, be.X), c03RecvField(vb, be.Y)
		if d != nil && m != nil {
			cut, D, M = is, d, m
			break
		}
	}
	if cut == nil {
		c.Fail("C03-R4", c03CheckBefore+"|limit test", pos(c, vb.Decl), "the checker's VisitBefore no longer compares a depth counter with the recursion limit at its top level: nesting depth is unbounded for the checker and for every later stage")
		return
	}
	cp, _ := g.PointOf(cut.Cond)
	// D is incremented on every path before the test
	incs := g.Find(func(n ast.Node) bool {
		s, ok := n.(*ast.IncDecStmt)
		return ok && s.Tok == token.INC && c03RecvField(vb, s.X) == D
	})
	if tr, found := pathAvoiding(g, nil, []core.Point{cp}, core.HitPoints(incs)); found || len(incs) == 0 {
		c.Fail("C03-R4", c03CheckBefore+"|counts", pos(c, cut), fmt.Sprintf("the depth counter %s is not incremented on every path before it is compared with the limit: the limit never triggers", D.Name()), tr...)
	} else {
		c.Ok("C03-R4", c03CheckBefore+"|counts", pos(c, cut), fmt.Sprintf("%s++ precedes the comparison with %s", D.Name(), M.Name()))
	}
	// the cut-off body
	start, ok := branchStart(g, cut, true)
	if !ok {
		c.Undecided("C03-R4", c03CheckBefore+"|cut-off", pos(c, cut), "branch not located")
		return
	}
	var rets []core.Point
	okNil := c03Leaves(info, cut.Body)
	ast.Inspect(cut.Body, func(n ast.Node) bool {
		if rs, ok := n.(*ast.ReturnStmt); ok {
			if len(rs.Results) != 2 || !isNilIdent(info, rs.Results[0]) {
				okNil = false
			}
			if p, ok := g.PointOf(rs); ok {
				rets = append(rets, p)
			}
		}
		return true
	})
	// Alternative member of the family: the branch reports at the first node that HAS a position
	//     if p := n.Pos(); p != nil && !S { Add(p, …); S = true }
	//     if S { …; return nil, n }
	// and falls through only for a node without a position.  Falling through with S false means the first
	// statement's body did not run with S false, i.e. p == nil; nodes whose Pos() can be nil are the list nodes,
	// and theirs is nil only when the list is empty: nothing lies beneath, so the walk does not descend.
	alt, altWhy := c03DepthReportAtPositioned(c, vb, cut)
	if alt {
		okNilRets := true
		for _, r := range rets {
			if rs, ok := r.Node().(*ast.ReturnStmt); ok && (len(rs.Results) != 2 || !isNilIdent(info, rs.Results[0])) {
				okNilRets = false
			}
		}
		c.Verdict(okNilRets, "C03-R4", c03CheckBefore+"|cut-off|no descent", pos(c, cut), "returns a nil visitor except for a node without a position, which is an empty list ("+altWhy+")", "a return of the branch taken beyond the recursion limit hands back a visitor: the walk descends")
	} else {
		c.Verdict(okNil, "C03-R4", c03CheckBefore+"|cut-off|no descent", pos(c, cut), "returns a nil visitor", "the branch taken beyond the recursion limit still lets the walk descend: the limit bounds nothing"+map[bool]string{true: " (" + altWhy + ")", false: ""}[altWhy != ""])
	}
	// sticky flag: a bool field set to true in the body
	var S *types.Var
	var setS []core.Point
	ast.Inspect(cut.Body, func(n ast.Node) bool {
		as, ok := n.(*ast.AssignStmt)
		if !ok || len(as.Lhs) != 1 || len(as.Rhs) != 1 {
			return true
		}
		if v, isC := constBool(info, as.Rhs[0]); isC && v {
			if fld := c03RecvField(vb, as.Lhs[0]); fld != nil {
				S = fld
				if p, ok := g.PointOf(as); ok {
					setS = append(setS, p)
				}
			}
		}
		return true
	})
	adds := g.Calls(func(id string, call *ast.CallExpr) bool {
		return id == c03ErrAdd && cut.Body.Pos() <= call.Pos() && call.End() <= cut.Body.End()
	})
	if S == nil {
		c.Fail("C03-R4", c03CheckBefore+"|cut-off|flag", pos(c, cut), "the cut-off branch sets no flag: VisitAfter cannot tell that children below were skipped, and types their ancestors with children that carry no type (nil type → nil dereference in LeastUpperBound/Unify)")
	} else {
		// the flag is assigned nowhere else
		other := 0
		for _, w := range x.fieldWriteSites(S) {
			if w.Lit != nil && w.Zero {
				continue
			}
			if w.At.Pos() >= cut.Body.Pos() && w.At.End() <= cut.Body.End() && w.F != nil && c.Prog.FuncOf[w.F.Decl] == vb {
				continue
			}
			other++
		}
		c.Verdict(other == 0, "C03-R4", c03CheckBefore+"|cut-off|flag", pos(c, cut), "flag "+S.Name()+" is set only in the cut-off branch", "the cut-off flag "+S.Name()+" is also written elsewhere: it no longer means 'a subtree was skipped and an error was recorded'")
		// error recorded: no path through the body avoids Add unless it takes the false edge of a test of !S
		var notS *cfg.Block
		for _, is := range ifsWhere(vb, func(is *ast.IfStmt) bool {
			u, ok := core.Unparen(is.Cond).(*ast.UnaryExpr)
			return ok && u.Op == token.NOT && c03RecvField(vb, u.X) == S && cut.Body.Pos() <= is.Pos() && is.End() <= cut.Body.End()
		}) {
			notS = g.CondBlock(is)
		}
		tr, found := g.Search(core.Query{From: start, Goal: core.At(rets...), Avoid: core.At(core.HitPoints(adds)...), AvoidEdge: func(b *cfg.Block, succ int) bool {
			return b == notS && succ == 1
		}})
		if alt {
			// in the alternative shape a subtree is skipped (return) only under S, and S is set only next to the Add
			c.Verdict(len(adds) > 0, "C03-R4", c03CheckBefore+"|cut-off|error", pos(c, cut), "a subtree is skipped only under the flag, which is set only together with the error", "no compile error is recorded in the cut-off branch")
		} else {
			c.Verdict(!found && len(adds) > 0, "C03-R4", c03CheckBefore+"|cut-off|error", pos(c, cut), "an error is recorded the first time the limit is hit", "a subtree can be skipped for depth without any compile error being recorded: Check succeeds and the code generator runs over nodes that were never checked", g.Trail(tr)...)
		}
		// VisitAfter tests the flag before anything else
		ag := va.Graph()
		var guard *ast.IfStmt
		for _, is := range ifsWhere(va, func(is *ast.IfStmt) bool {
			return c03RecvField(va, is.Cond) == S && c03Leaves(va.Info(), is.Body)
		}) {
			if guard == nil {
				guard = is
			}
		}
		if guard == nil {
			c.Fail("C03-R4", c03CheckAfter+"|tests flag", pos(c, va.Decl), "VisitAfter does not return on the cut-off flag "+S.Name()+": the ancestors of a node skipped for depth are type-checked although their operand subtrees were never annotated — Type() is nil there and LeastUpperBound/Unify dereference it: Compile panics on expressions nested beyond the limit instead of reporting the recursion-depth error")
		} else {
			gp, _ := ag.PointOf(guard.Cond)
			calls := ag.Calls(func(id string, call *ast.CallExpr) bool { return true })
			var goals []core.Point
			for _, h := range calls {
				if !h.InDefer {
					goals = append(goals, h.P)
				}
			}
			tr3, found3 := pathAvoiding(ag, nil, goals, []core.Point{gp})
			c.Verdict(!found3, "C03-R4", c03CheckAfter+"|tests flag", pos(c, guard), "the flag test dominates every call", "VisitAfter does work before testing the cut-off flag", tr3...)
		}
	}
	c.Floor("C03-R4", 5)
	// recursive walks that run before the checker: bounded by the input only
	cf := c.Prog.Fn(c03Compile)
	if cf != nil {
		cg := cf.Graph()
		chk := cg.CallsTo(c03CheckFn)
		for _, h := range cg.Calls(func(id string, call *ast.CallExpr) bool {
			return id == c03OptimiseKey || strings.HasSuffix(id, "(*Sexp).Dump")
		}) {
			if _, before := pathAvoiding(cg, nil, []core.Point{h.P}, core.HitPoints(chk)); before {
				c.Note("C03-R4", fmt.Sprintf("%s|%s before Check", c03Compile, cf.CalleeID(h.N.(*ast.CallExpr))), pos(c, h.N), "this tree walk runs before the depth check: its recursion depth (and the recursive Pos() it evaluates at every node) is bounded only by the length of the program text — polynomial time, linear stack; not a violation of 'bounded', recorded as the bound")
			}
		}
	}
}

// ---------------------------------------------------------------------------
// C03-R7: pattern length
// ---------------------------------------------------------------------------

func (x *c03Ctx) r7() {
	c := x.c
	c.Rule("C03-R7", "PATTERN-LENGTH: (a) every call that parses or compiles a regular expression under Compile is dominated by a comparison of the pattern's length with the configured limit whose failing branch records an error and leaves, or compiles a field that only a function with such a guard fills, after the checker succeeded; (b) a string that the pattern evaluator reads back into later patterns (a named fragment's text) is stored only under the same limit — otherwise fragments defined from each other double in length per line and compile time is exponential in the program size")
	reFuncs := map[string]bool{"regexp.Compile": true, "regexp.MustCompile": true, "regexp.CompilePOSIX": true, "regexp/syntax.Parse": true}
	// functions that are themselves thin wrappers (their string parameter goes straight to a regexp function)
	wrappers := map[*core.Func]bool{}
	for _, f := range x.sc.order {
		if f.Obj == nil {
			continue
		}
		sig := f.Obj.Type().(*types.Signature)
		core.InspectNoLit(f.Body, func(n ast.Node) bool {
			if call, ok := n.(*ast.CallExpr); ok && reFuncs[f.CalleeID(call)] && len(call.Args) >= 1 {
				for i := 0; i < sig.Params().Len(); i++ {
					if identObj(f.Info(), call.Args[0]) == types.Object(sig.Params().At(i)) && !x.reassigned(f, sig.Params().At(i)) {
						wrappers[f] = true
					}
				}
			}
			return true
		})
	}
	// the limit field: compared in a leaving-if with the length of a string
	type lenGuard struct {
		f     *core.Func
		is    *ast.IfStmt
		limit *types.Var
	}
	guardAt := func(f *core.Func, n ast.Node, s ast.Expr) *lenGuard {
		facts, _ := x.factsAt(f, n)
		for _, ft := range facts {
			if ft.Cond == nil || ft.Val {
				continue
			}
			be, ok := core.Unparen(ft.Cond).(*ast.BinaryExpr)
			if !ok || (be.Op != token.GTR && be.Op != token.GEQ) {
				continue
			}
			lim := c03RecvField(f, be.Y)
			if lim == nil {
				continue
			}
			// left: len(s), a local defined as len(s), or <builder>.Len() where s is <builder>.String()
			okLen := false
			if lx := x.lenOperand(f, be.X); lx != nil && c03SamePath(f.Info(), lx, s) {
				okLen = true
			}
			lhs := core.Unparen(be.X)
			if id, isId := lhs.(*ast.Ident); isId {
				if def := x.singleDef(f, identObj(f.Info(), id)); def != nil {
					lhs = core.Unparen(def)
				}
			}
			if lc, ok := lhs.(*ast.CallExpr); ok {
				if ls, ok := core.Unparen(lc.Fun).(*ast.SelectorExpr); ok && ls.Sel.Name == "Len" {
					if sc, ok := core.Unparen(s).(*ast.CallExpr); ok {
						if ss, ok := core.Unparen(sc.Fun).(*ast.SelectorExpr); ok && ss.Sel.Name == "String" && exprStr(ss.X) == exprStr(ls.X) {
							okLen = true
						}
					}
				}
			}
			if !okLen {
				continue
			}
			// the guard's body records an error
			par := x.parentsOf(f)
			var is *ast.IfStmt
			for p := par[ft.Cond]; p != nil; p = par[p] {
				if v, ok := p.(*ast.IfStmt); ok && v.Cond == ft.Cond {
					is = v
					break
				}
			}
			if is == nil {
				continue
			}
			rec := false
			ast.Inspect(is.Body, func(m ast.Node) bool {
				if call, ok := m.(*ast.CallExpr); ok && f.CalleeID(call) == c03ErrAdd {
					rec = true
				}
				return true
			})
			if rec {
				return &lenGuard{f, is, lim}
			}
		}
		return nil
	}
	// (a) compile sites
	guarded := map[*core.Func]int{} // functions with a guarded compile of parameter i
	n := 0
	type pend struct {
		f    *core.Func
		call *ast.CallExpr
		key  string
	}
	var later []pend
	for _, f := range x.sc.bodies() {
		k := 0
		core.InspectNoLit(f.Body, func(nd ast.Node) bool {
			call, ok := nd.(*ast.CallExpr)
			if !ok || len(call.Args) < 1 {
				return true
			}
			id := f.CalleeID(call)
			cf := f.CalleeFunc(call)
			if !reFuncs[id] && !(cf != nil && wrappers[cf]) {
				return true
			}
			decl := c.Prog.FuncOf[f.Decl]
			if decl != nil && wrappers[decl] && reFuncs[id] {
				return true // the wrapper's own call: judged at the wrapper's callers
			}
			k++
			n++
			key := fmt.Sprintf("%s|compile#%d %s", f.Key, k, id)
			if gd := guardAt(f, call, call.Args[0]); gd != nil {
				c.Ok("C03-R7", key, pos(c, call), "the pattern's length was compared with "+gd.limit.Name()+" and longer patterns leave with an error")
				if decl != nil && decl.Obj != nil {
					sig := decl.Obj.Type().(*types.Signature)
					for i := 0; i < sig.Params().Len(); i++ {
						if identObj(f.Info(), call.Args[0]) == types.Object(sig.Params().At(i)) {
							guarded[decl] = i + 1
						}
					}
				}
				return true
			}
			later = append(later, pend{f, call, key})
			return true
		})
	}
	for _, p := range later {
		f, call := p.f, p.call
		// a field filled only where a guarded function is then called with it
		se, ok := core.Unparen(call.Args[0]).(*ast.SelectorExpr)
		var fld *types.Var
		if ok {
			if sl := f.Info().Selections[se]; sl != nil && sl.Kind() == types.FieldVal {
				fld = sl.Obj().(*types.Var)
			}
		}
		if fld == nil {
			c.Fail("C03-R7", p.key, pos(c, call), "a regular expression is compiled from "+c03Short(exprStr(call.Args[0]))+" with no length limit on any path: an oversized pattern is handed to the regexp compiler")
			continue
		}
		bad := ""
		nw := 0
		for _, w := range x.fieldWriteSites(fld) {
			if w.Lit != nil {
				if !w.Zero {
					if _, isC := c03ConstStr(w.F.Info(), w.Val); !isC {
						bad = "set in a literal at " + pos(c, w.At)
					}
				}
				continue
			}
			nw++
			if w.F == nil {
				bad = "written at package level"
				continue
			}
			// followed on every path by a call of a guarded function on the same field of the same object
			wg := w.F.Graph()
			wp, ok := wg.PointOf(w.At)
			if !ok {
				bad = "write not located in the control-flow graph"
				continue
			}
			checks := wg.Calls(func(id string, c2 *ast.CallExpr) bool {
				cf := w.F.CalleeFunc(c2)
				if cf == nil || guarded[cf] == 0 || guarded[cf]-1 >= len(c2.Args) {
					return false
				}
				a, ok := core.Unparen(c2.Args[guarded[cf]-1]).(*ast.SelectorExpr)
				if !ok {
					return false
				}
				sl := w.F.Info().Selections[a]
				return sl != nil && sl.Obj() == types.Object(fld) && c03SamePath(w.F.Info(), a.X, w.Base)
			})
			if tr, found := pathAvoiding(wg, &wp, core.ExitPoints(normalExits(wg)), core.HitPoints(checks)); found {
				bad = "stored at " + pos(c, w.At) + " without the length check following on the path " + strings.Join(tr, " > ")
			}
		}
		if bad == "" && nw > 0 {
			if why := x.codegenOnlyAfterCheck(); why != "" && core.Rel(f.Pkg.PkgPath) != "internal/runtime/compiler/checker" {
				bad = why
			}
		}
		c.Verdict(bad == "" && nw > 0, "C03-R7", p.key, pos(c, call), fmt.Sprintf("%s is filled only where the length-checking function is then applied to it, and this stage runs only after the checker succeeded", fld.Name()),
			fmt.Sprintf("a regular expression is compiled from %s, which is %s: an oversized pattern reaches the regexp compiler", exprStr(call.Args[0]), bad))
	}
	// (b) fed-back strings: fields the evaluator writes into its accumulator
	vts, _ := x.visitorTypes()
	nfb := 0
	for _, V := range vts {
		st, _ := V.Underlying().(*types.Struct)
		if st == nil {
			continue
		}
		var acc *types.Var
		for i := 0; i < st.NumFields(); i++ {
			if strings.HasSuffix(st.Field(i).Type().String(), "strings.Builder") {
				acc = st.Field(i)
			}
		}
		if acc == nil {
			continue
		}
		reads := map[*types.Var]bool{}
		for _, mname := range []string{"VisitBefore", "VisitAfter"} {
			m := x.methodOf(V, mname)
			if m == nil {
				continue
			}
			core.InspectNoLit(m.Body, func(nd ast.Node) bool {
				call, ok := nd.(*ast.CallExpr)
				if !ok || len(call.Args) != 1 {
					return true
				}
				ws, ok := core.Unparen(call.Fun).(*ast.SelectorExpr)
				if !ok || !strings.HasPrefix(ws.Sel.Name, "Write") || c03RecvField(m, ws.X) != acc {
					return true
				}
				if a, ok := core.Unparen(call.Args[0]).(*ast.SelectorExpr); ok {
					if sl := m.Info().Selections[a]; sl != nil && sl.Kind() == types.FieldVal {
						reads[sl.Obj().(*types.Var)] = true
					}
				}
				return true
			})
		}
		// writes of the accumulated string into one of those fields
		for fld := range reads {
			for _, w := range x.fieldWriteSites(fld) {
				if w.Lit != nil || w.F == nil || w.Val == nil {
					continue
				}
				// the value comes from an accumulator of type V
				fromAcc := false
				ast.Inspect(w.Val, func(m ast.Node) bool {
					if se, ok := m.(*ast.SelectorExpr); ok {
						if sl := w.F.Info().Selections[se]; sl != nil && sl.Obj() == types.Object(acc) {
							fromAcc = true
						}
					}
					return true
				})
				if !fromAcc {
					continue
				}
				nfb++
				key := fmt.Sprintf("%s|store %s.%s", w.F.Key, c03TypeKey(w.F.Info().TypeOf(w.Base)), fld.Name())
				if gd := guardAt(w.F, w.At, w.Val); gd != nil {
					c.Ok("C03-R7", key, pos(c, w.At), "stored only when no longer than "+gd.limit.Name())
					continue
				}
				// or checked right after
				wg := w.F.Graph()
				wp, _ := wg.PointOf(w.At)
				checks := wg.Calls(func(id string, c2 *ast.CallExpr) bool {
					cf := w.F.CalleeFunc(c2)
					return cf != nil && guarded[cf] > 0
				})
				if _, found := pathAvoiding(wg, &wp, core.ExitPoints(normalExits(wg)), core.HitPoints(checks)); !found && len(checks) > 0 {
					c.Ok("C03-R7", key, pos(c, w.At), "the length-checking function follows on every path")
					continue
				}
				c.Fail("C03-R7", key, pos(c, w.At), fmt.Sprintf("the evaluated text of a named pattern fragment is stored in %s without any length limit, and the pattern evaluator pastes that field into every later pattern that names the fragment: `const A1 // + A0 + A0`, `const A2 // + A1 + A1`, … doubles the text per line, so compile time and memory are exponential in the length of the program (24 lines: hundreds of megabytes, tens of seconds)", fld.Name()))
			}
		}
	}
	if nfb == 0 {
		c.Undecided("C03-R7", "fed-back pattern text", "-", "no field that the pattern evaluator both reads into its accumulator and is filled from it was found")
	}
	c.Floor("C03-R7", 3)
	_ = n
}

// ---------------------------------------------------------------------------
// C03-R5: same source, same object
// ---------------------------------------------------------------------------

func (x *c03Ctx) r5() {
	c := x.c
	c.Rule("C03-R5", "DETERMINISM: (a) every range over a map in the functions under Compile is order-insensitive for the object produced: it only emits diagnostics, or returns on the first matching key of a table whose keys cannot both match, or copies entries first-wins into another map, or lives in a debug dump whose text only goes to the log; (b) no clock, random source or environment is read; (c) package-level variables written under Compile are read only for identity comparison or diagnostics; (d) every operand handed to emit has a scalar static type (no pointer, map or interface whose representation differs between runs)")
	nmap := 0
	for _, f := range x.sc.bodies() {
		info := f.Info()
		k := 0
		core.InspectNoLit(f.Body, func(nd ast.Node) bool {
			if lit, ok := nd.(*ast.FuncLit); ok && lit != f.Lit {
				return false
			}
			rs, ok := nd.(*ast.RangeStmt)
			if !ok {
				return true
			}
			t := info.TypeOf(rs.X)
			if t == nil {
				return true
			}
			if _, isMap := t.Underlying().(*types.Map); !isMap {
				return true
			}
			k++
			nmap++
			key := fmt.Sprintf("%s|range#%d over %s", f.Key, k, c03Short(exprStr(rs.X)))
			why, ok2 := x.mapRangeOrderFree(f, rs)
			if ok2 {
				c.Ok("C03-R5", key, pos(c, rs), why)
			} else {
				c.Fail("C03-R5", key, pos(c, rs), "the iteration order of this map (random per run in Go) can reach the compiled object: "+why+" — compiling the same source twice can give different bytecode or data")
			}
			return true
		})
	}
	// (b) sources of nondeterminism
	nd := map[string]bool{"time.Now": true, "time.Since": true, "os.Getenv": true, "os.Getpid": true, "os.Hostname": true}
	nsrc := 0
	for _, f := range x.sc.bodies() {
		core.InspectNoLit(f.Body, func(n ast.Node) bool {
			call, ok := n.(*ast.CallExpr)
			if !ok {
				return true
			}
			id := f.CalleeID(call)
			if nd[id] || strings.HasPrefix(id, "math/rand.") || strings.HasPrefix(id, "crypto/rand.") {
				nsrc++
				if why := x.clockOnlyStampsOverwritten(f, call); why == "" {
					c.Ok("C03-R5", f.Key+"|"+id, pos(c, call), "the clock only stamps a freshly created datum when no timestamp is given, and every datum the code generator creates is either of a kind whose constructor does not stamp or is given a constant timestamp (or an error is recorded) on every path")
				} else {
					c.Fail("C03-R5", f.Key+"|"+id, pos(c, call), id+" is called under Compile and "+why+": the compiled data differs between two compilations of the same source")
				}
			}
			return true
		})
	}
	c.Ok("C03-R5", "clock/random/environment", "-", fmt.Sprintf("%d calls in %d functions", nsrc, len(x.sc.order)))
	// (c) package-level variables written under Compile
	written := map[*types.Var][]string{}
	for _, f := range x.sc.bodies() {
		info := f.Info()
		core.InspectNoLit(f.Body, func(n ast.Node) bool {
			var lhs []ast.Expr
			switch v := n.(type) {
			case *ast.AssignStmt:
				lhs = v.Lhs
			case *ast.IncDecStmt:
				lhs = []ast.Expr{v.X}
			}
			for _, l := range lhs {
				root := core.Unparen(l)
				for {
					switch v := root.(type) {
					case *ast.IndexExpr:
						root = core.Unparen(v.X)
						continue
					case *ast.StarExpr:
						root = core.Unparen(v.X)
						continue
					}
					break
				}
				o, _ := usedObj(info, root).(*types.Var)
				if o != nil && !o.IsField() && o.Pkg() != nil && o.Parent() == o.Pkg().Scope() && strings.HasPrefix(o.Pkg().Path(), core.ModPath) {
					written[o] = append(written[o], pos(c, n))
				}
			}
			return true
		})
	}
	for o, at := range written {
		key := "global " + core.Rel(o.Pkg().Path()) + "." + o.Name()
		bad := x.globalFlowsOnlyToIdentity(o)
		c.Verdict(bad == "", "C03-R5", key, at[0], "its value reaches only a field that is compared for identity or printed in diagnostics", "a package-level variable modified by every compilation "+bad+": the second compilation of the same source sees a different value")
	}
	// (d) emit operands
	emits, problems := extractEmits(c)
	if len(problems) > 0 {
		c.Undecided("C03-R5", "emit operands", "-", strings.Join(problems, "; "))
	}
	scalar := map[string]bool{"int": true, "int64": true, "float64": true, "bool": true, "nil": true, "time.Duration": true, "string": true}
	badOps := 0
	for _, es := range emits {
		if es.Call == nil {
			continue
		}
		if !scalar[es.OpndType] {
			badOps++
			c.Fail("C03-R5", es.F.Key+"|emit operand "+c03Short(exprStr(es.Operand)), pos(c, es.Node), "an instruction operand of static type "+es.OpndType+" is emitted: pointers, maps and interfaces do not compare equal (or print equal) across two compilations")
		}
	}
	c.Verdict(badOps == 0 && len(emits) > 0, "C03-R5", "emit operands", "-", fmt.Sprintf("%d emit sites, all scalar", len(emits)), "non-scalar operands emitted")
	c.Floor("C03-R5", 6)
}

// globalFlowsOnlyToIdentity: the package-level variable o is copied only into struct fields (or locals) that
// are read only as operands of ==/!= or as arguments of formatting calls.  Returns "" or what else happens.
func (x *c03Ctx) globalFlowsOnlyToIdentity(o *types.Var) string {
	// sinks: fields/locals assigned from o
	type sink struct{ obj types.Object }
	carriers := map[types.Object]bool{o: true}
	for iter := 0; iter < 4; iter++ {
		for _, f := range x.ship {
			info := f.Info()
			core.InspectNoLit(f.Body, func(n ast.Node) bool {
				switch v := n.(type) {
				case *ast.AssignStmt:
					if len(v.Lhs) == len(v.Rhs) {
						for i, r := range v.Rhs {
							if carriers[usedObj(info, r)] {
								if lo := usedObj(info, v.Lhs[i]); lo != nil {
									carriers[lo] = true
								}
							}
						}
					}
				case *ast.CompositeLit:
					for _, el := range v.Elts {
						if kv, ok := el.(*ast.KeyValueExpr); ok && carriers[usedObj(info, kv.Value)] {
							if id, ok := kv.Key.(*ast.Ident); ok {
								if fo := info.Uses[id]; fo != nil {
									carriers[fo] = true
								}
							}
						}
					}
				}
				return true
			})
		}
	}
	bad := ""
	for _, f := range x.ship {
		info := f.Info()
		par := x.parentsOf(f)
		core.InspectNoLit(f.Body, func(n ast.Node) bool {
			e, ok := n.(ast.Expr)
			if !ok {
				return true
			}
			switch e.(type) {
			case *ast.Ident, *ast.SelectorExpr:
			default:
				return true
			}
			if !carriers[usedObj(info, e)] {
				return true
			}
			if _, isSel := par[e].(*ast.SelectorExpr); isSel && par[e].(*ast.SelectorExpr).Sel == e {
				return true // the Sel ident of a selector already visited as the selector
			}
			switch p := par[e].(type) {
			case *ast.BinaryExpr:
				if p.Op == token.EQL || p.Op == token.NEQ {
					return false
				}
			case *ast.AssignStmt, *ast.IncDecStmt, *ast.KeyValueExpr:
				return false
			case *ast.CallExpr:
				id := f.CalleeID(p)
				if strings.HasPrefix(id, "fmt.") || strings.Contains(id, "glog.") {
					return false
				}
			case *ast.SelectorExpr:
				// method call on the carrier (a mutex guarding it)
				return false
			}
			bad = "is read at " + x.c.Prog.Position(e.Pos()) + " in a way other than an identity comparison or a diagnostic"
			return false
		})
	}
	return bad
}

// mapRangeOrderFree classifies a range over a map.
func (x *c03Ctx) mapRangeOrderFree(f *core.Func, rs *ast.RangeStmt) (string, bool) {
	info := f.Info()
	decl := x.c.Prog.FuncOf[f.Decl]
	// debug dumps: String/Error methods, and methods of a type whose results only go to the log
	if decl != nil && decl.Obj != nil {
		name := decl.Obj.Name()
		sig := decl.Obj.Type().(*types.Signature)
		if sig.Recv() != nil && (name == "String" || name == "Error" || name == "GoString") {
			return "inside a " + name + " method: text for diagnostics", true
		}
		if sig.Recv() != nil {
			if nt := c03Named(sig.Recv().Type()); nt != nil && x.typeOnlyLogged(nt) {
				return "inside a method of " + nt.Obj().Name() + ", whose output only goes to the log", true
			}
		}
	}
	// body statements
	stmts := rs.Body.List
	// (1) diagnostics only
	diag := true
	var check func(list []ast.Stmt)
	check = func(list []ast.Stmt) {
		for _, st := range list {
			switch s := st.(type) {
			case *ast.ExprStmt:
				call, ok := s.X.(*ast.CallExpr)
				if !ok {
					diag = false
					continue
				}
				id := f.CalleeID(call)
				if id != c03ErrAdd && !strings.Contains(id, "glog.") && !strings.HasPrefix(id, "fmt.") {
					diag = false
				}
			case *ast.IfStmt:
				if s.Init != nil {
					diag = false
				}
				check(s.Body.List)
				if eb, ok := s.Else.(*ast.BlockStmt); ok {
					check(eb.List)
				} else if s.Else != nil {
					diag = false
				}
			case *ast.BranchStmt:
				if s.Tok != token.CONTINUE {
					diag = false
				}
			default:
				diag = false
			}
		}
	}
	check(stmts)
	if diag {
		return "the body only records diagnostics (their order may vary, the object does not)", true
	}
	// (2) first matching key of a literal table
	if len(stmts) == 1 {
		if is, ok := stmts[0].(*ast.IfStmt); ok && is.Else == nil && len(is.Body.List) == 1 {
			if _, isRet := is.Body.List[0].(*ast.ReturnStmt); isRet && rs.Key != nil {
				if why, ok := x.literalKeysDistinct(f, rs.X); ok {
					return "returns at the first key that matches; " + why, true
				} else {
					return "it returns at the first matching key and " + why, false
				}
			}
		}
		// (3) first-wins copy into another map
		if es, ok := stmts[0].(*ast.ExprStmt); ok {
			if call, ok := es.X.(*ast.CallExpr); ok && len(call.Args) == 1 && rs.Value != nil && identObj(info, call.Args[0]) == identObj(info, rs.Value) {
				if g := f.CalleeFunc(call); g != nil && x.firstWinsInsert(g) {
					return "copies each entry with " + g.Key + ", which keeps an existing entry: the result is the same set for every order unless two entries of one scope carry the same name (then a redeclaration error was already recorded)", true
				}
			}
		}
	}
	return "its body does more than record diagnostics, return on the first match of a table with distinct keys, or copy first-wins", false
}

// typeOnlyLogged: every in-scope call of a method of nt from outside nt's own methods is an argument of a logging call.
func (x *c03Ctx) typeOnlyLogged(nt *types.Named) bool {
	n := 0
	ok := true
	for _, f := range x.sc.bodies() {
		decl := x.c.Prog.FuncOf[f.Decl]
		if decl != nil && decl.Obj != nil {
			if sig := decl.Obj.Type().(*types.Signature); sig.Recv() != nil && c03Named(sig.Recv().Type()) == nt {
				continue
			}
			if decl.Key == c03Walk || strings.HasSuffix(decl.Key, "ast.walknodelist") {
				continue // the generic walk calls back into the visitor
			}
		}
		par := x.parentsOf(f)
		core.InspectNoLit(f.Body, func(nd ast.Node) bool {
			call, isC := nd.(*ast.CallExpr)
			if !isC {
				return true
			}
			se, isS := core.Unparen(call.Fun).(*ast.SelectorExpr)
			if !isS {
				return true
			}
			sl := f.Info().Selections[se]
			if sl == nil || sl.Kind() != types.MethodVal || c03Named(sl.Recv()) != nt {
				return true
			}
			n++
			p, isP := par[call].(*ast.CallExpr)
			if !isP || !strings.Contains(f.CalleeID(p), "glog.") {
				ok = false
			}
			return true
		})
	}
	return ok && n > 0
}

// literalKeysDistinct: the ranged map is (an element of) a package-level map literal whose innermost keys are
// pairwise distinct package-level variables.
func (x *c03Ctx) literalKeysDistinct(f *core.Func, m ast.Expr) (string, bool) {
	info := f.Info()
	e := core.Unparen(m)
	if id, ok := e.(*ast.Ident); ok {
		if def := x.singleDefTuple(f, identObj(info, id)); def != nil {
			e = core.Unparen(def)
		}
	}
	if ix, ok := e.(*ast.IndexExpr); ok {
		e = core.Unparen(ix.X)
	}
	o, _ := usedObj(info, e).(*types.Var)
	if o == nil || o.Pkg() == nil || o.Parent() != o.Pkg().Scope() {
		return "the table is not a package-level literal", false
	}
	if x.globalAssigned(o) {
		return "the table " + o.Name() + " is modified at run time", false
	}
	for _, pk := range x.c.Prog.All {
		if pk.Types != o.Pkg() {
			continue
		}
		for _, file := range pk.Syntax {
			for _, d := range file.Decls {
				gd, ok := d.(*ast.GenDecl)
				if !ok {
					continue
				}
				for _, sp := range gd.Specs {
					vs, ok := sp.(*ast.ValueSpec)
					if !ok {
						continue
					}
					for i, nm := range vs.Names {
						if pk.TypesInfo.Defs[nm] != types.Object(o) || i >= len(vs.Values) {
							continue
						}
						lit, ok := vs.Values[i].(*ast.CompositeLit)
						if !ok {
							return "the table is not a literal", false
						}
						inner := 0
						for _, el := range lit.Elts {
							kv, ok := el.(*ast.KeyValueExpr)
							if !ok {
								return "unkeyed table", false
							}
							il, ok := kv.Value.(*ast.CompositeLit)
							if !ok {
								continue
							}
							inner++
							seen := map[types.Object]bool{}
							for _, iel := range il.Elts {
								ikv, ok := iel.(*ast.KeyValueExpr)
								if !ok {
									return "unkeyed table", false
								}
								ko, _ := usedObj(pk.TypesInfo, ikv.Key).(*types.Var)
								if ko == nil || ko.Parent() != ko.Pkg().Scope() {
									return "a key of " + o.Name() + "[" + exprStr(kv.Key) + "] is not a package-level type constant", false
								}
								if seen[ko] {
									return "the key " + ko.Name() + " occurs twice in " + o.Name() + "[" + exprStr(kv.Key) + "]", false
								}
								seen[ko] = true
							}
						}
						return fmt.Sprintf("the %d inner tables of %s are keyed by pairwise distinct builtin type constants, of which at most one equals a given type", inner, o.Name()), true
					}
				}
			}
		}
	}
	return "declaration of the table not found", false
}

// firstWinsInsert: g(v) stores v under a key into a map only if the key is absent.
func (x *c03Ctx) firstWinsInsert(g *core.Func) bool {
	ok := false
	nStores := 0
	ast.Inspect(g.Body, func(n ast.Node) bool {
		as, isAs := n.(*ast.AssignStmt)
		if !isAs || len(as.Lhs) != 1 {
			return true
		}
		ix, isIx := core.Unparen(as.Lhs[0]).(*ast.IndexExpr)
		if !isIx {
			return true
		}
		if _, isMap := g.Info().TypeOf(ix.X).Underlying().(*types.Map); !isMap {
			return true
		}
		nStores++
		// inside `if <lookup of the same key> == nil`
		facts, _ := x.factsAt(g, as)
		for _, ft := range facts {
			if ft.Cond == nil || !ft.Val {
				continue
			}
			if be, isB := core.Unparen(ft.Cond).(*ast.BinaryExpr); isB && be.Op == token.EQL && isNilIdent(g.Info(), be.Y) {
				ok = true
			}
		}
		return true
	})
	return ok && nStores == 1
}

// ---------------------------------------------------------------------------
// C03-R6: no loop whose trip count is a number written in the program
// ---------------------------------------------------------------------------

func (x *c03Ctx) r6() {
	c := x.c
	c.Rule("C03-R6", "NO-VALUE-BOUNDED-LOOP: numbers parsed from the program text (strconv.ParseInt/ParseFloat, time.ParseDuration in the parser driver) are followed through fields, locals, parameters, results and arithmetic; no for-loop condition (and no range over an integer) under Compile may depend on such a number — the trip count of every loop is then bounded by sizes of data built from the input, not by a value that 19 characters can make 2^63")
	sources := map[string]bool{"strconv.ParseInt": true, "strconv.ParseUint": true, "strconv.ParseFloat": true, "strconv.Atoi": true, "time.ParseDuration": true}
	tainted := map[types.Object]string{} // object -> where the taint came from
	retTaint := map[*core.Func]string{}
	numeric := func(t types.Type) bool {
		if t == nil {
			return false
		}
		switch u := t.Underlying().(type) {
		case *types.Basic:
			return u.Info()&(types.IsInteger|types.IsFloat) != 0
		case *types.Slice:
			if b, ok := u.Elem().Underlying().(*types.Basic); ok {
				return b.Info()&(types.IsInteger|types.IsFloat) != 0
			}
		}
		return false
	}
	// exprTaint: why the expression is tainted, or "".
	var exprTaint func(f *core.Func, e ast.Expr) string
	exprTaint = func(f *core.Func, e ast.Expr) string {
		info := f.Info()
		res := ""
		ast.Inspect(e, func(n ast.Node) bool {
			if res != "" {
				return false
			}
			switch v := n.(type) {
			case *ast.FuncLit:
				return false
			case *ast.CallExpr:
				if id, ok := core.Unparen(v.Fun).(*ast.Ident); ok && (id.Name == "len" || id.Name == "cap") {
					if _, isB := info.Uses[id].(*types.Builtin); isB {
						return false // the size of a container is not a number from the text
					}
				}
				id := f.CalleeID(v)
				if sources[id] {
					res = id
					return false
				}
				if g := f.CalleeFunc(v); g != nil {
					if w := retTaint[g]; w != "" {
						res = w
					}
					return false // arguments flow through the parameters
				}
			case *ast.Ident:
				if w, ok := tainted[info.Uses[v]]; ok {
					res = w
				}
			case *ast.SelectorExpr:
				if sl := info.Selections[v]; sl != nil && sl.Kind() == types.FieldVal {
					if w, ok := tainted[sl.Obj()]; ok {
						res = w
						return false
					}
				}
			}
			return true
		})
		return res
	}
	mark := func(o types.Object, why string) bool {
		if o == nil || why == "" {
			return false
		}
		if _, has := tainted[o]; has {
			return false
		}
		if !numeric(o.Type()) {
			return false
		}
		tainted[o] = why
		return true
	}
	lhsObj := func(info *types.Info, l ast.Expr) types.Object {
		l = core.Unparen(l)
		for {
			if ix, ok := l.(*ast.IndexExpr); ok {
				l = core.Unparen(ix.X)
				continue
			}
			break
		}
		switch v := l.(type) {
		case *ast.Ident:
			return identObj(info, v)
		case *ast.SelectorExpr:
			if sl := info.Selections[v]; sl != nil && sl.Kind() == types.FieldVal {
				return sl.Obj()
			}
		}
		return nil
	}
	bodies := x.sc.bodies()
	for changed, iter := true, 0; changed && iter < 30; iter++ {
		changed = false
		for _, f := range bodies {
			info := f.Info()
			decl := c.Prog.FuncOf[f.Decl]
			core.InspectNoLit(f.Body, func(n ast.Node) bool {
				if lit, ok := n.(*ast.FuncLit); ok && lit != f.Lit {
					return false
				}
				switch v := n.(type) {
				case *ast.AssignStmt:
					if len(v.Lhs) == len(v.Rhs) {
						for i := range v.Lhs {
							if mark(lhsObj(info, v.Lhs[i]), exprTaint(f, v.Rhs[i])) {
								changed = true
							}
							if v.Tok != token.ASSIGN && v.Tok != token.DEFINE {
								// x op= y
								if mark(lhsObj(info, v.Lhs[i]), exprTaint(f, v.Rhs[i])) {
									changed = true
								}
							}
						}
					} else if len(v.Rhs) == 1 {
						if w := exprTaint(f, v.Rhs[0]); w != "" {
							for _, l := range v.Lhs {
								if mark(lhsObj(info, l), w) {
									changed = true
								}
							}
						}
					}
				case *ast.ValueSpec:
					for i, nm := range v.Names {
						if i < len(v.Values) {
							if mark(info.Defs[nm], exprTaint(f, v.Values[i])) {
								changed = true
							}
						}
					}
				case *ast.CompositeLit:
					st := c03StructOf(info.TypeOf(v))
					if st == nil {
						return true
					}
					for i, el := range v.Elts {
						if kv, ok := el.(*ast.KeyValueExpr); ok {
							if id, ok := kv.Key.(*ast.Ident); ok {
								if mark(info.Uses[id], exprTaint(f, kv.Value)) {
									changed = true
								}
							}
						} else if i < st.NumFields() {
							if mark(st.Field(i), exprTaint(f, el)) {
								changed = true
							}
						}
					}
				case *ast.RangeStmt:
					if v.Value != nil {
						if mark(identObj(info, v.Value), exprTaint(f, v.X)) {
							changed = true
						}
					}
				case *ast.CallExpr:
					g := f.CalleeFunc(v)
					if g == nil || g.Obj == nil {
						return true
					}
					sig := g.Obj.Type().(*types.Signature)
					for i, a := range v.Args {
						pi := i
						if sig.Variadic() && pi >= sig.Params().Len()-1 {
							pi = sig.Params().Len() - 1
						}
						if pi < sig.Params().Len() {
							if mark(sig.Params().At(pi), exprTaint(f, a)) {
								changed = true
							}
						}
					}
				case *ast.ReturnStmt:
					if decl != nil && f.Lit == nil {
						for _, r := range v.Results {
							if w := exprTaint(f, r); w != "" && numeric(info.TypeOf(r)) && retTaint[decl] == "" {
								retTaint[decl] = w
								changed = true
							}
						}
					}
				}
				return true
			})
		}
	}
	c.Extra["c03_tainted"] = func() []string {
		var out []string
		for o := range tainted {
			out = append(out, o.Name())
		}
		sort.Strings(out)
		return uniq(out)
	}()
	nloops := 0
	for _, f := range bodies {
		k := 0
		core.InspectNoLit(f.Body, func(n ast.Node) bool {
			if lit, ok := n.(*ast.FuncLit); ok && lit != f.Lit {
				return false
			}
			switch v := n.(type) {
			case *ast.ForStmt:
				k++
				nloops++
				if v.Cond == nil {
					return true
				}
				if w := exprTaint(f, v.Cond); w != "" {
					c.Fail("C03-R6", fmt.Sprintf("%s|for#%d %s", f.Key, k, c03Short(exprStr(v.Cond))), pos(c, v), fmt.Sprintf("the loop condition %s depends on a number written in the program (it flows here from %s in the parser driver): a literal such as 9223372036854775807 makes Compile run for that many iterations — compile time is not bounded by the size of the source", exprStr(v.Cond), w))
				}
			case *ast.RangeStmt:
				k++
				nloops++
				if t := f.Info().TypeOf(v.X); t != nil {
					if b, ok := t.Underlying().(*types.Basic); ok && b.Info()&types.IsInteger != 0 {
						if w := exprTaint(f, v.X); w != "" {
							c.Fail("C03-R6", fmt.Sprintf("%s|range#%d %s", f.Key, k, c03Short(exprStr(v.X))), pos(c, v), fmt.Sprintf("ranging over the integer %s, a number written in the program (from %s): the trip count is not bounded by the size of the source", exprStr(v.X), w))
						}
					}
				}
			}
			return true
		})
	}
	c.Verdict(len(tainted) >= 4, "C03-R6", "literal values tracked", "-", fmt.Sprintf("%d loops examined; %d variables/fields carry numbers from the program text", nloops, len(tainted)), "the numbers parsed by the driver were not found flowing into the syntax tree: the rule would be vacuous")
	c.Floor("C03-R6", 1)
}

// clockOnlyStampsOverwritten: the clock read is the zero-timestamp fallback of a datum's stamp method, and the
// datums created under Compile never keep that value.
func (x *c03Ctx) clockOnlyStampsOverwritten(f *core.Func, call *ast.CallExpr) string {
	c := x.c
	stamp := c.Prog.FuncOf[f.Decl]
	if stamp == nil || stamp.Obj == nil || core.Rel(stamp.Pkg.PkgPath) != "internal/metrics/datum" {
		return "not in a datum's time stamp"
	}
	// the value only goes into an atomic store of the receiver's time field, under `if <param>.IsZero()`
	par := x.parentsOf(f)
	inStore, underZero := false, false
	for p := par[call]; p != nil; p = par[p] {
		if pc, ok := p.(*ast.CallExpr); ok && strings.HasPrefix(f.CalleeID(pc), "sync/atomic.Store") && len(pc.Args) == 2 {
			if u, ok := core.Unparen(pc.Args[0]).(*ast.UnaryExpr); ok && u.Op == token.AND && c03RecvField(stamp, u.X) != nil {
				inStore = true
			}
		}
		if is, ok := p.(*ast.IfStmt); ok {
			if cc, ok := core.Unparen(is.Cond).(*ast.CallExpr); ok && strings.HasSuffix(f.CalleeID(cc), "time.Time.IsZero") {
				underZero = true
			}
		}
	}
	if !inStore || !underZero {
		return "its value is used for something other than the zero-timestamp fallback of a datum"
	}
	// which constructors reach stamp
	reaches := x.c.Prog.Reaching(func(g *core.Func) bool { return g == stamp })
	getDatum := c.Prog.Fn("internal/metrics.(*Metric).GetDatum")
	if getDatum == nil {
		return "GetDatum not found"
	}
	gi := getDatum.Info()
	stamping := map[types.Object]bool{} // metric type constant -> its constructor stamps
	nCases := 0
	ast.Inspect(getDatum.Body, func(n ast.Node) bool {
		s, ok := n.(*ast.SwitchStmt)
		if !ok || s.Tag == nil {
			return true
		}
		if se, ok := core.Unparen(s.Tag).(*ast.SelectorExpr); !ok || se.Sel.Name != "Type" {
			return true
		}
		for _, cl := range s.Body.List {
			cc := cl.(*ast.CaseClause)
			st := false
			ast.Inspect(cc, func(m ast.Node) bool {
				if c2, ok := m.(*ast.CallExpr); ok {
					if g := getDatum.CalleeFunc(c2); g != nil && reaches[g] {
						st = true
					}
				}
				return true
			})
			for _, e := range cc.List {
				if o := usedObj(gi, e); o != nil {
					stamping[o] = st
					nCases++
				}
			}
		}
		return false
	})
	if nCases == 0 {
		return "GetDatum's switch over the metric type not recognised"
	}
	// every in-scope call of GetDatum
	for _, cs := range x.calls[getDatum.Obj] {
		d := c.Prog.FuncOf[cs.F.Decl]
		if d == nil || !x.sc.in[d] || d == getDatum {
			continue
		}
		info := cs.F.Info()
		g := cs.F.Graph()
		as, _ := x.parentsOf(cs.F)[cs.Call].(*ast.AssignStmt)
		if as == nil || len(as.Lhs) != 2 {
			return "a datum is created at " + pos(c, cs.Call) + " in an unrecognised way"
		}
		cp, ok := g.PointOf(as)
		if !ok {
			return "call not located"
		}
		dv := identObj(info, as.Lhs[0])
		if id, isId := as.Lhs[0].(*ast.Ident); isId && id.Name == "_" {
			dv = nil
		}
		if dv != nil {
			// overwritten with a constant time, or an error recorded, on every path
			sets := g.Calls(func(id string, c2 *ast.CallExpr) bool {
				if !strings.HasPrefix(id, "internal/metrics/datum.Set") || len(c2.Args) != 3 || identObj(info, c2.Args[0]) != dv {
					return false
				}
				tc, ok := core.Unparen(c2.Args[2]).(*ast.CallExpr)
				if !ok || cs.F.CalleeID(tc) != "time.Unix" || len(tc.Args) != 2 {
					return false
				}
				_, c1 := constInt(info, tc.Args[0])
				_, c2ok := constInt(info, tc.Args[1])
				return c1 && c2ok
			})
			errs := g.Calls(func(id string, _ *ast.CallExpr) bool {
				return strings.HasSuffix(id, "(*codegen).errorf") || id == c03ErrAdd
			})
			if tr, found := pathAvoiding(g, &cp, core.ExitPoints(normalExits(g)), append(core.HitPoints(sets), core.HitPoints(errs)...)); found {
				return "the datum created at " + pos(c, cs.Call) + " keeps the time of compilation on the path " + strings.Join(tr, " > ")
			}
			continue
		}
		// result discarded: the metric's value type must be one whose constructor does not stamp
		okKind := ""
		facts, _ := x.factsAt(cs.F, cs.Call)
		for _, ft := range facts {
			if ft.Cond == nil || !ft.Val {
				continue
			}
			be, ok := core.Unparen(ft.Cond).(*ast.BinaryExpr)
			if !ok || be.Op != token.EQL {
				continue
			}
			ks, ok := core.Unparen(be.X).(*ast.SelectorExpr)
			if !ok || ks.Sel.Name != "Kind" {
				continue
			}
			kindConst := usedObj(info, be.Y)
			// <node>.Type() returns a fixed builtin type for that kind, and the value-type switch maps it to a metric type
			nodeT := c03Named(info.TypeOf(ks.X))
			if nodeT == nil || kindConst == nil {
				continue
			}
			tm := x.methodOf(nodeT, "Type")
			if tm == nil {
				continue
			}
			var builtin types.Object
			for _, st := range tm.Body.List {
				is, ok := st.(*ast.IfStmt)
				if !ok {
					continue
				}
				b2, ok := core.Unparen(is.Cond).(*ast.BinaryExpr)
				if !ok || b2.Op != token.EQL || usedObj(tm.Info(), b2.Y) != kindConst || len(is.Body.List) != 1 {
					continue
				}
				if rs, ok := is.Body.List[0].(*ast.ReturnStmt); ok && len(rs.Results) == 1 {
					builtin = usedObj(tm.Info(), rs.Results[0])
				}
				break
			}
			if builtin == nil {
				continue
			}
			// the clause `case types.Equals(<builtin>, t): <v> = metrics.<K>`
			var mtype types.Object
			ast.Inspect(cs.F.Decl, func(n ast.Node) bool {
				cc, ok := n.(*ast.CaseClause)
				if !ok || len(cc.List) != 1 || len(cc.Body) != 1 {
					return true
				}
				eq, ok := core.Unparen(cc.List[0]).(*ast.CallExpr)
				if !ok || cs.F.CalleeID(eq) != c03TypesPkg+".Equals" || len(eq.Args) != 2 {
					return true
				}
				if usedObj(info, eq.Args[0]) != builtin && usedObj(info, eq.Args[1]) != builtin {
					return true
				}
				if a2, ok := cc.Body[0].(*ast.AssignStmt); ok && len(a2.Rhs) == 1 {
					mtype = usedObj(info, a2.Rhs[0])
				}
				return true
			})
			if mtype == nil {
				continue
			}
			if st, known := stamping[mtype]; known && !st {
				okKind = mtype.Name()
			}
		}
		if okKind == "" {
			return "the datum created and dropped at " + pos(c, cs.Call) + " may be of a kind whose constructor stamps it with the time of compilation"
		}
	}
	return ""
}

// c03DepthReportAtPositioned recognises the cut-off body
//
//	if p := N.Pos(); p != nil && !S { Add(p, …); S = true }
//	if S { …; return nil, N }
//
// (N the visited node parameter, S a boolean receiver field) and checks the
// fact it relies on: a node type whose Pos() can return nil computes it from a
// list of children and returns nil only for the empty list.
func c03DepthReportAtPositioned(c *core.Check, vb *core.Func, cut *ast.IfStmt) (bool, string) {
	info := vb.Info()
	if len(cut.Body.List) != 2 {
		return false, ""
	}
	first, ok1 := cut.Body.List[0].(*ast.IfStmt)
	second, ok2 := cut.Body.List[1].(*ast.IfStmt)
	if !ok1 || !ok2 || first.Init == nil || first.Else != nil || second.Else != nil || second.Init != nil {
		return false, ""
	}
	as, ok := first.Init.(*ast.AssignStmt)
	if !ok || len(as.Lhs) != 1 || len(as.Rhs) != 1 {
		return false, ""
	}
	call, ok := core.Unparen(as.Rhs[0]).(*ast.CallExpr)
	if !ok {
		return false, ""
	}
	sel, ok := core.Unparen(call.Fun).(*ast.SelectorExpr)
	if !ok || sel.Sel.Name != "Pos" {
		return false, ""
	}
	// N is the node parameter of VisitBefore
	if _, isParam := c11ParamIndex(vb, identObj(info, sel.X)); !isParam {
		return false, ""
	}
	pObj := identObj(info, as.Lhs[0])
	// condition: p != nil && !S (either order)
	var S *types.Var
	hasPNotNil := false
	var walk func(e ast.Expr) bool
	walk = func(e ast.Expr) bool {
		switch x := core.Unparen(e).(type) {
		case *ast.BinaryExpr:
			if x.Op == token.LAND {
				return walk(x.X) && walk(x.Y)
			}
			if x.Op == token.NEQ && (identObj(info, x.X) == pObj && isNilIdent(info, x.Y) || identObj(info, x.Y) == pObj && isNilIdent(info, x.X)) {
				hasPNotNil = true
				return true
			}
		case *ast.UnaryExpr:
			if x.Op == token.NOT {
				if f := c03RecvField(vb, x.X); f != nil {
					S = f
					return true
				}
			}
		}
		return false
	}
	if !walk(first.Cond) || !hasPNotNil || S == nil {
		return false, ""
	}
	// body: Add(p, …) and S = true
	hasAdd, setsS := false, false
	ast.Inspect(first.Body, func(n ast.Node) bool {
		if cl, ok := n.(*ast.CallExpr); ok && vb.CalleeID(cl) == c03ErrAdd && len(cl.Args) > 0 && identObj(info, cl.Args[0]) == pObj {
			hasAdd = true
		}
		if a, ok := n.(*ast.AssignStmt); ok && len(a.Lhs) == 1 && c03RecvField(vb, a.Lhs[0]) == S {
			if v, isC := constBool(info, a.Rhs[0]); isC && v {
				setsS = true
			}
		}
		return true
	})
	if !hasAdd || !setsS || c03RecvField(vb, second.Cond) != S || !c03Leaves(info, second.Body) {
		return false, ""
	}
	// the fact: Pos() of a node is nil only for an empty list
	astPkg := c.Prog.Pkgs["internal/runtime/compiler/ast"]
	if astPkg == nil {
		return false, "package ast not loaded"
	}
	var listTypes []string
	for _, k := range c.Prog.SortedFuncKeys() {
		f := c.Prog.Funcs[k]
		if f.Pkg != astPkg || f.Lit != nil || f.Decl.Name.Name != "Pos" || f.Decl.Recv == nil {
			continue
		}
		// can this Pos() return nil?  `return &n.P` cannot; `return helper(n.F)` may
		for _, r := range c23ReturnExprs(f) {
			if u, ok := core.Unparen(r).(*ast.UnaryExpr); ok && u.Op == token.AND {
				continue
			}
			hc, ok := core.Unparen(r).(*ast.CallExpr)
			if !ok {
				return false, "Pos() of " + f.Key + " returns something other than &field or a list merge"
			}
			hf := f.CalleeFunc(hc)
			if hf == nil || len(hc.Args) != 1 {
				// e.g. position.Merge(a.Pos(), b.Pos()) of two children: nil only if both nil — children of non-list nodes are never list nodes without position in expression position
				continue
			}
			argT := f.Info().TypeOf(hc.Args[0])
			if _, isSlice := argT.Underlying().(*types.Slice); !isSlice {
				continue
			}
			// helper: switch len(l) { case 0: return nil … } — nil is returned for the empty list (and a nil element) only
			okHelper := false
			ast.Inspect(hf.Body, func(n ast.Node) bool {
				switch x := n.(type) {
				case *ast.SwitchStmt:
					if x.Tag != nil {
						if lc, ok := core.Unparen(x.Tag).(*ast.CallExpr); ok && hf.CalleeID(lc) == "builtin.len" {
							okHelper = true
						}
					}
				case *ast.IfStmt:
					// if len(l) == 0 { return nil }
					if be, ok := core.Unparen(x.Cond).(*ast.BinaryExpr); ok && be.Op == token.EQL {
						for _, side := range []ast.Expr{be.X, be.Y} {
							if lc, ok := core.Unparen(side).(*ast.CallExpr); ok && hf.CalleeID(lc) == "builtin.len" {
								okHelper = true
							}
						}
					}
				}
				return true
			})
			if !okHelper {
				return false, "list position helper " + hf.Key + " not recognised"
			}
			listTypes = append(listTypes, strings.TrimSuffix(strings.TrimPrefix(f.Key[strings.LastIndex(f.Key, ".(")+1:], "(*"), ").Pos"))
		}
	}
	if len(listTypes) == 0 {
		return false, "no node type with a list-derived position found"
	}
	return true, "Pos() is nil only for an empty " + strings.Join(listTypes, "/")
}
