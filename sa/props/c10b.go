package props

import (
	"fmt"
	"go/ast"
	"go/types"
	"strings"

	"verif/sa/core"
)

// Extra C10 rules (own file).
func init() { register("C10", c10Extra) }

func c10Extra(c *core.Check) {
	gcf := c.Prog.Fn(storeGc)
	if gcf == nil {
		c.Undecided("C10-R8", storeGc, "-", "Store.Gc not found")
		return
	}
	var fs []*core.Func
	seen := map[*core.Func]bool{}
	add := func(f *core.Func) {
		if !seen[f] && core.Rel(f.Pkg.PkgPath) == "internal/metrics" {
			seen[f] = true
			fs = append(fs, f)
		}
	}
	for _, f := range closureFrom(gcf) {
		add(f)
		for _, lf := range f.Lits {
			add(lf)
		}
	}
	// ---------------------------------------------------------------- R8
	c.Rule("C10-R8", "SORT-COMPARES-ITS-OWN-SLICE: in every function a GC pass can reach, the comparison function given to sort.Slice/SliceStable/slices.SortFunc indexes only the slice being sorted with its index parameters — indexing another slice (the unsorted original) with them compares elements that are no longer at those positions once the sort has moved anything, so the order, and with it the eviction victim, is arbitrary")
	n8 := 0
	for _, f := range fs {
		info := f.Info()
		ast.Inspect(f.Body, func(n ast.Node) bool {
			call, ok := n.(*ast.CallExpr)
			if !ok || len(call.Args) != 2 {
				return true
			}
			id := f.CalleeID(call)
			if id != "sort.Slice" && id != "sort.SliceStable" {
				return true
			}
			lit, ok := core.Unparen(call.Args[1]).(*ast.FuncLit)
			if !ok {
				return true
			}
			n8++
			sorted := core.PathOf(call.Args[0])
			var idx []types.Object
			for _, fl := range lit.Type.Params.List {
				for _, nm := range fl.Names {
					idx = append(idx, info.Defs[nm])
				}
			}
			var wrong []string
			ast.Inspect(lit.Body, func(m ast.Node) bool {
				ix, ok := m.(*ast.IndexExpr)
				if !ok {
					return true
				}
				o := identObj(info, ix.Index)
				isIdx := false
				for _, p := range idx {
					if o != nil && o == p {
						isIdx = true
					}
				}
				if isIdx && core.PathOf(ix.X) != sorted {
					wrong = append(wrong, exprStr(ix))
				}
				return true
			})
			key := fmt.Sprintf("%s|sort#%d", f.Key, n8)
			c.Analysed(f)
			c.Verdict(len(wrong) == 0, "C10-R8", key, pos(c, call), "the comparison indexes "+sorted+" only", fmt.Sprintf("the comparison function of the sort over %s indexes %s with the sort's index parameters: as soon as the sort moves an element these positions no longer correspond, the resulting order is not by age, and the data evicted for the size limit are not the oldest", sorted, strings.Join(uniq(wrong), ", ")))
			return true
		})
	}
	if n8 == 0 {
		c.Ok("C10-R8", "no sort", "-", fmt.Sprintf("%d functions reachable from Gc, none sorts", len(fs)))
	}

	// ---------------------------------------------------------------- R9
	c.Rule("C10-R9", "EXPIRY-RECHECKED-UNDER-THE-LOCK: every removal in a GC pass that is not part of the size-limit phase lies, inside the hold of the metric's write lock that performs it, under a test of the datum's age against its Expiry: a removal driven by a list collected earlier (under another hold of the lock) removes data that were refreshed in between")
	rmv := removers(c)
	n9 := 0
	for _, f := range fs {
		g := f.Graph()
		for _, h := range g.Calls(func(id string, call *ast.CallExpr) bool { cf := f.CalleeFunc(call); return cf != nil && rmv[cf] }) {
			call := h.N.(*ast.CallExpr)
			// skip the limit phase: guarded by Metric.Limit
			byLimit, byExpiry := false, false
			var lockedRegionStart ast.Node
			core.InspectNoLit(f.Body, func(n ast.Node) bool {
				if n == nil || !(n.Pos() <= call.Pos() && call.End() <= n.End()) {
					return true
				}
				var cond ast.Expr
				switch x := n.(type) {
				case *ast.IfStmt:
					if x.Body.Pos() <= call.Pos() && call.End() <= x.Body.End() {
						cond = x.Cond
					}
				case *ast.ForStmt:
					cond = x.Cond
				}
				if cond != nil {
					byLimit = byLimit || c10CondUses(f, cond, "metrics.Metric", "Limit")
					byExpiry = byExpiry || c10CondUses(f, cond, "metrics.LabelValue", "Expiry")
				}
				return true
			})
			_ = lockedRegionStart
			cf := f.CalleeFunc(call)
			// only removals made by the GC pass itself (the callback of Range or the helpers it delegates to), not the primitives' internals
			if f.Key != storeGc && !strings.HasPrefix(f.Key, storeGc+"$") && !calledOnlyFromGc(c, f, gcf) {
				continue
			}
			if cf != nil && byLimit && !byExpiry {
				continue
			}
			// a helper that the pass calls only under a size-limit guard belongs to the limit phase as a whole
			if f.Key != storeGc && !strings.HasPrefix(f.Key, storeGc+"$") && !byExpiry && c10CalledUnderLimit(c, f, gcf) {
				continue
			}
			// a helper of the pass that consults Expiry itself is examined at its own removal sites, not at its call
			if cf != nil && cf.Body != nil && fieldUsed(cf.Info(), cf.Body, "metrics.LabelValue", "Expiry") {
				continue
			}
			// a remove-oldest call (no tuple argument) belongs to the limit phase by construction
			if len(call.Args) == 0 {
				continue
			}
			n9++
			key := fmt.Sprintf("%s|removal#%d", f.Key, n9)
			c.Analysed(f)
			if !byExpiry {
				// not lexically under the test: is every path to the removal through a condition that consults Expiry
				// (negated test with `continue`, early return, …)?
				var conds []core.Point
				core.InspectNoLit(f.Body, func(n ast.Node) bool {
					var cond ast.Expr
					var more []ast.Expr
					switch x := n.(type) {
					case *ast.IfStmt:
						cond = x.Cond
					case *ast.ForStmt:
						cond = x.Cond
					case *ast.SwitchStmt:
						if x.Tag == nil {
							for _, cl := range x.Body.List {
								more = append(more, cl.(*ast.CaseClause).List...)
							}
						}
					}
					if cond != nil {
						more = append(more, cond)
					}
					for _, cd := range more {
						if c10CondUses(f, cd, "metrics.LabelValue", "Expiry") {
							if p, ok := g.PointOf(cd); ok {
								conds = append(conds, p)
							}
						}
					}
					return true
				})
				if len(conds) > 0 {
					if _, free := pathAvoiding(g, nil, []core.Point{h.P}, conds); !free {
						byExpiry = true
					}
				}
			}
			c.Verdict(byExpiry, "C10-R9", key, pos(c, call), "under an age-against-Expiry test", "a GC pass removes a label value at a point that is not under a test of that datum's Expiry: the decision was taken elsewhere (a list of expired tuples collected under an earlier hold of the lock), so a datum updated between the decision and the removal is deleted although it is live")
		}
	}
	if n9 == 0 {
		c.Undecided("C10-R9", storeGc, pos(c, gcf.Decl), "no expiry-phase removal recognised in the GC pass")
	}
	c.Floor("C10-R9", 1)
}

// calledOnlyFromGc reports whether every caller of f lies in Gc's closure literal or Gc itself.
func calledOnlyFromGc(c *core.Check, f, gcf *core.Func) bool {
	root := f
	for root.Parent != nil {
		root = root.Parent
	}
	n := 0
	for _, g := range shipped(c) {
		for _, cf := range g.Callees() {
			if cf == root {
				gr := g
				for gr.Parent != nil {
					gr = gr.Parent
				}
				if gr != gcf {
					return false
				}
				n++
			}
		}
	}
	return n > 0
}

// c10CalledUnderLimit reports whether every call of f's declaration from the
// GC pass lies under a condition on Metric.Limit.
func c10CalledUnderLimit(c *core.Check, f, gcf *core.Func) bool {
	root := f
	for root.Parent != nil {
		root = root.Parent
	}
	n, all := 0, true
	for _, g := range append([]*core.Func{gcf}, gcf.Lits...) {
		info := g.Info()
		core.InspectNoLit(g.Body, func(nd ast.Node) bool {
			if lit, ok := nd.(*ast.FuncLit); ok && lit != g.Lit {
				return false
			}
			call, ok := nd.(*ast.CallExpr)
			if !ok || g.CalleeFunc(call) != root {
				return true
			}
			n++
			under := false
			for _, ic := range g.EnclosingIfs(call.Pos()) {
				if ic.InThen && fieldUsed(info, ic.If.Cond, "metrics.Metric", "Limit") {
					under = true
				}
			}
			core.InspectNoLit(g.Body, func(x ast.Node) bool {
				if fs, ok := x.(*ast.ForStmt); ok && fs.Cond != nil && fs.Pos() <= call.Pos() && call.End() <= fs.End() && fieldUsed(info, fs.Cond, "metrics.Metric", "Limit") {
					under = true
				}
				return true
			})
			if !under {
				all = false
			}
			return true
		})
	}
	return n > 0 && all
}

// c10CondUses reports whether a condition consults the field, directly or
// inside a module function it calls (a predicate helper such as lv.expired(now)).
func c10CondUses(f *core.Func, cond ast.Expr, recvSuffix, name string) bool {
	if fieldUsed(f.Info(), cond, recvSuffix, name) {
		return true
	}
	hit := false
	ast.Inspect(cond, func(n ast.Node) bool {
		if call, ok := n.(*ast.CallExpr); ok {
			if cf := f.CalleeFunc(call); cf != nil && fieldUsed(cf.Info(), cf.Body, recvSuffix, name) {
				hit = true
			}
		}
		return !hit
	})
	return hit
}
