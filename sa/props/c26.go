package props

import (
	"fmt"

	"go/ast"
	"go/token"
	"go/types"
	"golang.org/x/tools/go/cfg"
	"strings"

	"verif/sa/core"
)

func init() { register("C26", c26) }

const loadAllPrograms = "internal/runtime.(*Runtime).LoadAllPrograms"

// handleEnders: declared functions that (transitively) close a VM handle's
// lines channel or delete from the handle map.
func handleEnders(c *core.Check) map[*core.Func]bool {
	return c.Prog.Reaching(func(f *core.Func) bool {
		if core.Rel(f.Pkg.PkgPath) != "internal/runtime" {
			return false
		}
		found := false
		ast.Inspect(f.Body, func(n ast.Node) bool {
			call, ok := n.(*ast.CallExpr)
			if !ok {
				return true
			}
			switch f.CalleeID(call) {
			case "builtin.close":
				if strings.HasSuffix(core.PathOf(call.Args[0]), ".lines") && isChanOfLogLine(f.Info(), call.Args[0]) {
					found = true
				}
			case "builtin.delete":
				if strings.HasSuffix(core.PathOf(call.Args[0]), ".handles") {
					found = true
				}
			}
			return true
		})
		return found
	})
}

// c26Ctx holds the resolved anchors of the loader.
type c26Ctx struct {
	c        *core.Check
	handles  *types.Var // Runtime.handles
	handleMu *types.Var // Runtime.handleMu
	hHash    *types.Var // vmHandle.contentHash
	hVM      *types.Var // vmHandle.vm
	hLines   *types.Var // vmHandle.lines
	calls    c25Calls
}

// isHandles reports whether e denotes the handle map of a Runtime.
func (x *c26Ctx) isHandles(f *core.Func, e ast.Expr) bool {
	return x.handles != nil && fieldOf(f.Info(), resolveAlias(f, e)) == x.handles
}

// handleOp reports whether n ends or replaces a running version directly:
// close of a handle's lines channel, delete from / store into the handle map.
func (x *c26Ctx) handleOp(f *core.Func, n ast.Node) bool {
	switch s := n.(type) {
	case *ast.CallExpr:
		switch f.CalleeID(s) {
		case "builtin.close":
			return len(s.Args) == 1 && x.hLines != nil && fieldOf(f.Info(), resolveAlias(f, s.Args[0])) == x.hLines
		case "builtin.delete":
			return len(s.Args) == 2 && x.isHandles(f, s.Args[0])
		}
	case *ast.AssignStmt:
		for _, l := range s.Lhs {
			if ix, ok := core.Unparen(l).(*ast.IndexExpr); ok && x.isHandles(f, ix.X) {
				return true
			}
		}
	}
	return false
}

// enders: declared functions of package runtime that (transitively) perform a handleOp.
func (x *c26Ctx) enders() map[*core.Func]bool {
	return x.c.Prog.Reaching(func(f *core.Func) bool {
		if core.Rel(f.Pkg.PkgPath) != "internal/runtime" {
			return false
		}
		found := false
		ast.Inspect(f.Body, func(n ast.Node) bool {
			if x.handleOp(f, n) {
				found = true
			}
			return !found
		})
		return found
	})
}

// origins resolves where the value of e comes from: through locals with a
// single definition and through parameters (to the argument at every call
// site in shipped code), stopping at the parameters of stop.  It returns the
// terminal expressions with the function they occur in; ok is false when a
// parameter has no call site or the depth limit is hit.
type c26Origin struct {
	fn *core.Func
	e  ast.Expr
}

func (x *c26Ctx) origins(f *core.Func, e ast.Expr, stop *core.Func, depth int) (out []c26Origin, ok bool) {
	e = resolveLocal(f, e)
	id, isID := e.(*ast.Ident)
	if !isID || depth > 3 {
		return []c26Origin{{f, e}}, depth <= 3
	}
	o := identObj(f.Info(), id)
	decl := f
	for decl.Parent != nil {
		decl = decl.Parent
	}
	idx := paramIndexOf(decl, o)
	if idx < 0 || decl == stop || assignedIn(decl, o) {
		return []c26Origin{{f, e}}, true
	}
	sites := x.calls[decl]
	if len(sites) == 0 {
		return []c26Origin{{f, e}}, false
	}
	ok = true
	for _, s := range sites {
		if idx >= len(s.call.Args) {
			return nil, false
		}
		sub, sok := x.origins(s.fn, s.call.Args[idx], stop, depth+1)
		out = append(out, sub...)
		ok = ok && sok
	}
	return out, ok
}

// allOrigins reports whether every origin of e satisfies pred (and there is at least one).
func (x *c26Ctx) allOrigins(f *core.Func, e ast.Expr, stop *core.Func, pred func(fn *core.Func, e ast.Expr) bool) bool {
	if e == nil {
		return false
	}
	os, ok := x.origins(f, e, stop, 0)
	if !ok || len(os) == 0 {
		return false
	}
	for _, o := range os {
		if !pred(o.fn, o.e) {
			return false
		}
	}
	return true
}

func isCallTo(fn *core.Func, e ast.Expr, match func(id string, call *ast.CallExpr) bool) bool {
	call, ok := core.Unparen(e).(*ast.CallExpr)
	return ok && match(fn.CalleeID(call), call)
}

func isSumCall(fn *core.Func, e ast.Expr) bool {
	return isCallTo(fn, e, func(id string, _ *ast.CallExpr) bool { return id == "hash.Hash.Sum" || strings.HasSuffix(id, ".Sum") })
}

// ancestors returns the chain of nodes from root down to target (inclusive), or nil.
func ancestors(root, target ast.Node) []ast.Node {
	var stack, found []ast.Node
	ast.Inspect(root, func(n ast.Node) bool {
		if found != nil {
			return false
		}
		if n == nil {
			stack = stack[:len(stack)-1]
			return false
		}
		stack = append(stack, n)
		if n == target {
			found = append([]ast.Node{}, stack...)
			return false
		}
		return true
	})
	return found
}

// shortCircuit reports whether target, inside the CFG node root, is only
// evaluated when the fact of gd holds, by short-circuit evaluation
// (`h != nil && h.f`, `h == nil || h.f`).
func shortCircuit(gd *guard, f *core.Func, root, target ast.Node) bool {
	chain := ancestors(root, target)
	for i, n := range chain {
		be, ok := n.(*ast.BinaryExpr)
		if !ok || i+1 >= len(chain) || chain[i+1] != ast.Node(be.Y) {
			continue
		}
		t, fl := gd.expr(f, be.X, nil, 0)
		if (be.Op == token.LAND && t) || (be.Op == token.LOR && fl) {
			return true
		}
	}
	return false
}

func c26(c *core.Check) {
	c.Explain = "Decides structural necessary conditions of C26 on the program loader: (R1) a file is opened only after the dot-prefix and the .mtail-extension tests on its base name, and directory entries that are directories never reach LoadProgram; (R2) the set of programs to unload is seeded from every loaded name under the handle lock, an entry is unmarked only for a non-directory entry of the listing and by that entry's base name, and every remaining name is unloaded; (R3) a load that fails never ends or replaces the running version; (R4) every dereference of a handle looked up by name is guarded by the lookup's ok result or a nil test of the looked-up pointer, or happens while ranging over the map; (R5) on success the handle installed for the name is a fresh one built from this call's content hash, VM and channel, and a handle's fields are never updated piecemeal. Tests are recognised in any branch shape (if / switch / negated / short-circuit / boolean helper function); variables, fields, parameters and callees are resolved through go/types, never by name. All paths of the current source are covered; file-system races and what Compile accepts are not decided."
	c.Assume = append(c.Assume, "os.ReadDir lists the directory; filepath.Base/Ext as documented (filepath.Ext(n) == \".mtail\" iff strings.HasSuffix(n, \".mtail\"))",
		"the handle map holds no nil pointers (every store is a fresh &vmHandle literal, R5), so a nil test of a looked-up handle is equivalent to the lookup's ok result")
	lp := c.MustFn("C26-R1", loadProgram)
	la := c.MustFn("C26-R1", loadAllPrograms)
	car := c.MustFn("C26-R3", compileAndRun)
	if lp == nil || la == nil || car == nil {
		return
	}
	x := &c26Ctx{c: c, calls: c25CallIndex(c),
		handles:  structField(c, "internal/runtime", "Runtime", "handles"),
		handleMu: structField(c, "internal/runtime", "Runtime", "handleMu"),
		hHash:    structField(c, "internal/runtime", "vmHandle", "contentHash"),
		hVM:      structField(c, "internal/runtime", "vmHandle", "vm"),
		hLines:   structField(c, "internal/runtime", "vmHandle", "lines")}
	for n, v := range map[string]*types.Var{"Runtime.handles": x.handles, "Runtime.handleMu": x.handleMu, "vmHandle.contentHash": x.hHash, "vmHandle.vm": x.hVM, "vmHandle.lines": x.hLines} {
		if v == nil {
			c.Undecided("C26-R1", "field "+n, "-", "anchor field not found in package runtime")
		}
	}

	// R1
	c.Rule("C26-R1", "ELIGIBLE-BEFORE-OPEN: in LoadProgram every path to os.OpenFile (and to CompileAndRun) takes the not-hidden outcome of a `strings.HasPrefix(base, \".\")` test and the is-.mtail outcome of a `filepath.Ext(base) == \".mtail\"` test on the base name of the path parameter (if, switch, negated, or inside a boolean helper); in LoadAllPrograms every path of a listing-loop iteration to LoadProgram (or to the unmarking) takes the not-a-directory outcome of an IsDir test of the entry")
	{
		g := lp.Graph()
		targets := append(g.CallsTo("os.OpenFile"), g.CallsTo("os.Open")...)
		targets = append(targets, g.CallsTo("os.ReadFile")...)
		targets = append(targets, g.CallsTo(compileAndRun)...)
		pathParam := paramAt(lp, 0)
		root := func(f *core.Func, e ast.Expr) string {
			if f.Decl == lp.Decl && pathParam != nil && identObj(f.Info(), e) == pathParam {
				return "path"
			}
			return ""
		}
		derive := func(f *core.Func, e ast.Expr, role func(ast.Expr) string) string {
			call, ok := e.(*ast.CallExpr)
			if !ok || len(call.Args) != 1 {
				return ""
			}
			switch f.CalleeID(call) {
			case "path/filepath.Base":
				if r := role(call.Args[0]); r == "path" || r == "base" {
					return "base"
				}
			case "path/filepath.Clean":
				return role(call.Args[0])
			}
			return ""
		}
		strConst := func(f *core.Func, e ast.Expr) (string, bool) {
			if tv := f.Info().Types[e]; tv.Value != nil {
				return tv.Value.ExactString(), true
			}
			return "", false
		}
		var wrongConst []string
		dotAtom := func(f *core.Func, e ast.Expr, role func(ast.Expr) string) (bool, bool) {
			call, ok := e.(*ast.CallExpr)
			if !ok || f.CalleeID(call) != "strings.HasPrefix" || len(call.Args) != 2 {
				return false, false
			}
			if r := role(call.Args[0]); r == "path" {
				wrongConst = append(wrongConst, "dot-file test|the whole path instead of its base name")
				return false, false
			} else if r != "base" {
				return false, false
			}
			if s, isC := strConst(f, call.Args[1]); !isC || s != `"."` {
				wrongConst = append(wrongConst, "dot-file test|prefix "+s)
				return false, false
			}
			return false, true
		}
		extAtom := func(f *core.Func, e ast.Expr, role func(ast.Expr) string) (bool, bool) {
			switch y := e.(type) {
			case *ast.BinaryExpr:
				if y.Op != token.NEQ && y.Op != token.EQL {
					return false, false
				}
				for _, pair := range [][2]ast.Expr{{y.X, y.Y}, {y.Y, y.X}} {
					call, isC := resolveLocal(f, pair[0]).(*ast.CallExpr)
					// filepath.Ext of the path equals filepath.Ext of its base name
					if !isC || f.CalleeID(call) != "path/filepath.Ext" || len(call.Args) != 1 || (role(call.Args[0]) != "base" && role(call.Args[0]) != "path") {
						continue
					}
					if s, isK := strConst(f, pair[1]); !isK || s != `".mtail"` {
						wrongConst = append(wrongConst, "extension test|extension "+s)
						return false, false
					}
					return y.Op == token.EQL, y.Op == token.NEQ
				}
			case *ast.CallExpr:
				if f.CalleeID(y) == "strings.HasSuffix" && len(y.Args) == 2 && (role(y.Args[0]) == "base" || role(y.Args[0]) == "path") {
					if s, isK := strConst(f, y.Args[1]); !isK || s != `".mtail"` {
						wrongConst = append(wrongConst, "extension test|suffix "+s)
						return false, false
					}
					return true, false
				}
			}
			return false, false
		}
		mentions := func(ids ...string) bool {
			found := false
			ast.Inspect(lp.Body, func(n ast.Node) bool {
				if call, ok := n.(*ast.CallExpr); ok {
					id := lp.CalleeID(call)
					for _, w := range ids {
						if id == w {
							found = true
						}
					}
					if cf := lp.CalleeFunc(call); cf != nil && cf != car {
						ast.Inspect(cf.Body, func(m ast.Node) bool {
							if c2, ok := m.(*ast.CallExpr); ok {
								for _, w := range ids {
									if cf.CalleeID(c2) == w {
										found = true
									}
								}
							}
							return true
						})
					}
				}
				return true
			})
			return found
		}
		for _, t := range []struct {
			name string
			atom func(*core.Func, ast.Expr, func(ast.Expr) string) (bool, bool)
			ids  []string
		}{{"dot-file test", dotAtom, []string{"strings.HasPrefix"}}, {"extension test", extAtom, []string{"path/filepath.Ext", "strings.HasSuffix"}}} {
			key := loadProgram + "|" + t.name
			wrongConst = nil
			gd := newGuard(guardSpec{derive: derive, atom: t.atom})
			edge := gd.edges(lp, root, 0)
			recognised := guardedAnywhere(g, edge)
			tr, open := g.Search(core.Query{Goal: core.At(core.HitPoints(targets)...), AvoidEdge: edge})
			switch {
			case len(targets) == 0:
			case !open:
				c.Ok("C26-R1", key, pos(c, lp.Decl), "dominates opening; ineligible branch never opens")
			case recognised:
				c.Fail("C26-R1", key, pos(c, lp.Decl), "the file can be opened or compiled on a path that does not take the eligible outcome of the "+t.name+" (test negated, or its ineligible branch falls through): ineligible files are compiled and loaded", g.Trail(tr)...)
			case len(wrongConst) > 0:
				c.Fail("C26-R1", key, pos(c, lp.Decl), "LoadProgram's "+t.name+" tests the wrong thing ("+strings.SplitN(wrongConst[0], "|", 2)[1]+"): ineligible files are compiled and loaded", g.Trail(tr)...)
			case mentions(t.ids...):
				c.Undecided("C26-R1", key, pos(c, lp.Decl), "no "+t.name+" in a recognised shape guards the open, but the function still uses "+strings.Join(t.ids, "/")+": shape outside the family this rule reads")
			default:
				c.Fail("C26-R1", key, pos(c, lp.Decl), "LoadProgram has no "+t.name+" on the base name of the path: ineligible files are compiled and loaded", g.Trail(tr)...)
			}
		}
		if len(targets) == 0 {
			c.Undecided("C26-R1", loadProgram, pos(c, lp.Decl), "no open/compile call found")
		}
	}
	{
		g := la.Graph()
		var loop *ast.RangeStmt
		for _, rs := range rangeStmts(la) {
			if t := la.Info().TypeOf(rs.X); t != nil && strings.Contains(t.String(), "DirEntry") {
				loop = rs
			}
		}
		if loop == nil {
			c.Undecided("C26-R1", loadAllPrograms+"|listing loop", pos(c, la.Decl), "loop over the directory listing not found")
		} else {
			head, body, _ := loopBlocks(g, loop)
			listObj := identObj(la.Info(), resolveAlias(la, loop.X))
			keyObj := identObj(la.Info(), loop.Key)
			var valObj types.Object
			if loop.Value != nil {
				valObj = identObj(la.Info(), loop.Value)
			}
			// the entry: the range value, or a local defined as listing[key]
			entryRoot := func(f *core.Func, e ast.Expr) string {
				if f.Decl != la.Decl {
					return ""
				}
				o := identObj(f.Info(), e)
				if o == nil {
					return ""
				}
				if valObj != nil && o == valObj {
					return "entry"
				}
				if ix, ok := singleDefExpr(f, o).(*ast.IndexExpr); ok && keyObj != nil && listObj != nil &&
					identObj(f.Info(), resolveAlias(f, ix.X)) == listObj && identObj(f.Info(), ix.Index) == keyObj {
					return "entry"
				}
				return ""
			}
			entryDerive := func(f *core.Func, e ast.Expr, role func(ast.Expr) string) string {
				call, ok := e.(*ast.CallExpr)
				if !ok {
					return ""
				}
				id := f.CalleeID(call)
				switch {
				case id == "io/fs.DirEntry.Type" && role(core.RecvExpr(call)) == "entry":
					return "entrymode"
				case id == "io/fs.DirEntry.Name" && role(core.RecvExpr(call)) == "entry":
					return "entryname"
				case id == "path/filepath.Base" && len(call.Args) == 1 && role(call.Args[0]) == "entryname":
					return "entryname"
				}
				return ""
			}
			dirGuard := newGuard(guardSpec{derive: entryDerive, atom: func(f *core.Func, e ast.Expr, role func(ast.Expr) string) (bool, bool) {
				call, ok := e.(*ast.CallExpr)
				if !ok || !strings.HasSuffix(f.CalleeID(call), ".IsDir") || core.RecvExpr(call) == nil {
					return false, false
				}
				if r := role(core.RecvExpr(call)); r != "entry" && r != "entrymode" {
					return false, false
				}
				return false, true // IsDir() false => a file
			}})
			notDir := dirGuard.edges(la, entryRoot, 0)
			loads := inside(g.CallsTo(loadProgram), loop)
			// the set of names to unload: the local map that gets every key of r.handles
			var markObj types.Object
			var seedLoops []*ast.RangeStmt
			for _, rs := range rangeStmts(la) {
				if !x.isHandles(la, rs.X) {
					continue
				}
				seedLoops = append(seedLoops, rs)
				for _, st := range inside(g.Find(func(n ast.Node) bool { _, ok := n.(*ast.AssignStmt); return ok }), rs) {
					as := st.N.(*ast.AssignStmt)
					if ix, ok := core.Unparen(as.Lhs[0]).(*ast.IndexExpr); ok && len(as.Lhs) == 1 {
						if m := identObj(la.Info(), resolveAlias(la, ix.X)); m != nil && identObj(la.Info(), ix.Index) == identObj(la.Info(), rs.Key) && rs.Key != nil {
							if _, isMap := m.Type().Underlying().(*types.Map); isMap {
								markObj = m
							}
						}
					}
				}
			}
			isMark := func(f *core.Func, e ast.Expr) bool {
				return markObj != nil && identObj(f.Info(), resolveAlias(f, e)) == markObj
			}
			allUnmarks := g.Calls(func(id string, call *ast.CallExpr) bool {
				return id == "builtin.delete" && len(call.Args) == 2 && isMark(la, call.Args[0])
			})
			unmarks := inside(allUnmarks, loop)
			iterTargets := append(core.HitPoints(loads), core.HitPoints(unmarks)...)
			bad := false
			if body != nil && head != nil {
				start := &core.Point{B: body, I: -1}
				if tr, found := g.Search(core.Query{From: start, Goal: core.At(iterTargets...), AvoidEdge: notDir, Avoid: func(p core.Point) bool { return p.B == head }}); found {
					bad = true
					if guardedAnywhere(g, notDir) {
						c.Fail("C26-R1", loadAllPrograms+"|IsDir skips", pos(c, loop), "a directory entry that is a directory can still be loaded or keep a removed program of the same name marked as present: LoadProgram / unmarking is reached without the not-a-directory outcome of the IsDir test", g.Trail(tr)...)
					} else {
						isDirMentioned := false
						ast.Inspect(loop.Body, func(n ast.Node) bool {
							if call, ok := n.(*ast.CallExpr); ok && strings.HasSuffix(la.CalleeID(call), ".IsDir") {
								isDirMentioned = true
							}
							return true
						})
						if isDirMentioned {
							c.Undecided("C26-R1", loadAllPrograms+"|IsDir test", pos(c, loop), "an IsDir call occurs in the listing loop but not as a recognised test of the listed entry")
						} else {
							c.Fail("C26-R1", loadAllPrograms+"|IsDir test", pos(c, loop), "no IsDir test in the listing loop: subdirectories are passed to LoadProgram", g.Trail(tr)...)
						}
					}
				}
			} else {
				bad = true
				c.Undecided("C26-R1", loadAllPrograms+"|IsDir test", pos(c, loop), "listing loop blocks not found in the CFG")
			}
			if len(loads) == 0 {
				bad = true
				c.Undecided("C26-R1", loadAllPrograms+"|loads", pos(c, loop), "no call of LoadProgram inside the listing loop")
			}
			if !bad {
				c.Ok("C26-R1", loadAllPrograms+"|IsDir test", pos(c, loop), "directories never loaded or unmarked")
			}

			// R2
			c.Rule("C26-R2", "UNLOAD-VANISHED: a local set gets every key of r.handles (one store per iteration of a range over the map that cannot stop early) while the handle lock is held; delete(set, k) occurs only in the listing loop with k = filepath.Base(entry.Name()) (or entry.Name()) of the listed entry; after the loop every key left in the set is passed to UnloadProgram (in a range over the set, directly or in a callee that receives the set)")
			seeded := false
			muPath := ""
			for _, ev := range g.LockEvents() {
				if fieldOf(la.Info(), core.RecvExpr(ev.Call)) == x.handleMu && x.handleMu != nil {
					muPath = ev.Path
				}
			}
			for _, rs := range seedLoops {
				hold := g.MustHold()
				var storePts []core.Point
				for _, st := range inside(g.Find(func(n ast.Node) bool { _, ok := n.(*ast.AssignStmt); return ok }), rs) {
					as := st.N.(*ast.AssignStmt)
					ix, ok := core.Unparen(as.Lhs[0]).(*ast.IndexExpr)
					if !ok || !isMark(la, ix.X) || identObj(la.Info(), ix.Index) != identObj(la.Info(), rs.Key) {
						continue
					}
					seeded = true
					storePts = append(storePts, st.P)
					held := hold.At(st.P)
					c.Verdict(muPath != "" && core.Holds(held, muPath, "R"), "C26-R2", loadAllPrograms+"|seed under lock", pos(c, as), "handle lock held", "the snapshot of loaded program names is taken without the handle lock")
				}
				// the loop must not skip entries
				if early := earlyLoopExits(c, g, rs); len(early) > 0 {
					c.Fail("C26-R2", loadAllPrograms+"|seed complete", pos(c, rs), "the snapshot loop over loaded programs can stop early: "+early[0])
				}
				if cnt, ok := iterationCount(g, rs, storePts); len(storePts) > 0 && (!ok || cnt.Min < 1) {
					c.Fail("C26-R2", loadAllPrograms+"|seed unconditional", pos(c, rs), "the snapshot of loaded programs is conditional: some loaded programs are never candidates for unloading")
				}
			}
			seedElsewhere := false
			if !seeded {
				for _, cf := range la.Callees() {
					for _, rs := range rangeStmts(cf) {
						if x.isHandles(cf, rs.X) && cf.Decl != la.Decl {
							seedElsewhere = true
						}
					}
				}
			}
			if seedElsewhere {
				c.Undecided("C26-R2", loadAllPrograms+"|seed", pos(c, la.Decl), "LoadAllPrograms does not itself range over r.handles but calls a function that does: a snapshot built in a callee is outside the shapes this rule reads")
			} else {
				c.Verdict(seeded, "C26-R2", loadAllPrograms+"|seed", pos(c, la.Decl), "every loaded name is marked", "no local set is seeded with every key of r.handles: a program whose file vanished keeps running")
			}
			for i, u := range allUnmarks {
				call := u.N.(*ast.CallExpr)
				inLoop := u.N.Pos() > loop.Pos() && u.N.End() < loop.End()
				okKey := dirGuard.role(la, call.Args[1], entryRoot) == "entryname" && inLoop
				c.Verdict(okKey, "C26-R2", fmt.Sprintf("%s|unmark#%d", loadAllPrograms, i+1), pos(c, call), "unmarks the listed entry's own name", "an entry of the set of names to unload is removed with a key that is not the listed directory entry's base name, or outside the listing loop")
			}
			var unloadsAll func(f *core.Func, set types.Object, after token.Pos, depth int) bool
			unloadsAll = func(f *core.Func, set types.Object, after token.Pos, depth int) bool {
				if set == nil || depth > 2 {
					return false
				}
				fg := f.Graph()
				for _, rs := range rangeStmts(f) {
					if identObj(f.Info(), resolveAlias(f, rs.X)) != set || rs.Pos() < after {
						continue
					}
					calls := inside(fg.CallsTo(unloadProgram), rs)
					good := false
					for _, h := range calls {
						call := h.N.(*ast.CallExpr)
						if len(call.Args) == 1 && rs.Key != nil && identObj(f.Info(), resolveAlias(f, call.Args[0])) == identObj(f.Info(), rs.Key) {
							good = true
						}
					}
					if early := earlyLoopExits(c, fg, rs); len(early) > 0 {
						good = false
					}
					if cnt, ok := iterationCount(fg, rs, core.HitPoints(calls)); !ok || cnt.Min != 1 {
						good = false
					}
					if good {
						return true
					}
				}
				found := false
				for _, h := range fg.Find(func(n ast.Node) bool { _, ok := n.(*ast.CallExpr); return ok }) {
					call := h.N.(*ast.CallExpr)
					cf := f.CalleeFunc(call)
					if cf == nil || cf.Lit != nil || call.Pos() < after || h.InGo {
						continue
					}
					for i, a := range call.Args {
						if identObj(f.Info(), resolveAlias(f, a)) == set {
							if p := paramAt(cf, i); p != nil && !assignedIn(cf, p) && unloadsAll(cf, p, token.NoPos, depth+1) {
								c.Analysed(cf)
								found = true
							}
						}
					}
				}
				return found
			}
			unloaded := unloadsAll(la, markObj, loop.End(), 0)
			c.Verdict(unloaded, "C26-R2", loadAllPrograms+"|unload remainder", pos(c, la.Decl), "every remaining name unloaded", "names left in the set after the listing are not all passed to UnloadProgram: a removed program keeps receiving lines")
		}
	}
	c.Floor("C26-R1", 3)
	c.Floor("C26-R2", 4)

	// R3
	c.Rule("C26-R3", "FAILED-LOAD-KEEPS-VM: in CompileAndRun and LoadProgram no path from an operation that ends or replaces a running version (close of a handle's lines channel, delete from / store into r.handles, directly or in a callee) reaches a return of a non-nil error")
	enders := x.enders()
	for _, f := range []*core.Func{car, lp} {
		g := f.Graph()
		ops := g.Find(func(n ast.Node) bool {
			if f == car && x.handleOp(f, n) {
				return true
			}
			if call, ok := n.(*ast.CallExpr); ok {
				// in LoadProgram the error returns after CompileAndRun propagate its failure: CompileAndRun itself is decided above
				if cf := f.CalleeFunc(call); cf != nil && enders[cf] && cf != car {
					return true
				}
			}
			return false
		})
		var errRets []core.Point
		for _, e := range normalExits(g) {
			if e.Kind == "return" && !returnsNil(f.Info(), e.Ret) {
				errRets = append(errRets, e.P)
			}
		}
		bad := false
		for i, o := range ops {
			from := o.P
			if tr, found := pathAvoiding(g, &from, errRets, nil); found {
				bad = true
				c.Fail("C26-R3", fmt.Sprintf("%s|op#%d", f.Key, i+1), pos(c, o.N), "the running version is ended or replaced and the load can still fail afterwards: a broken or refused program stops the previous version", tr...)
			}
		}
		if !bad {
			c.Ok("C26-R3", f.Key, pos(c, f.Decl), fmt.Sprintf("%d handle-ending operations, none before a failing exit", len(ops)))
		}
	}
	c.Floor("C26-R3", 2)

	// R4
	c.Rule("C26-R4", "GUARDED-LOOKUP: every expression r.handles[k].f in package runtime is inside `for k := range r.handles`; every value obtained by `h, ok := r.handles[k]` or `h := r.handles[k]` is dereferenced only where the ok result was found true or h was found non-nil (branch, switch, short-circuit or boolean helper)")
	n4 := 0
	for _, sf := range shipped(c) {
		if core.Rel(sf.Pkg.PkgPath) != "internal/runtime" {
			continue
		}
		sf := sf
		core.InspectNoLit(sf.Body, func(n ast.Node) bool {
			sel, ok := n.(*ast.SelectorExpr)
			if !ok {
				return true
			}
			ix, ok := core.Unparen(sel.X).(*ast.IndexExpr)
			if !ok || !x.isHandles(sf, ix.X) {
				return true
			}
			n4++
			c.Analysed(sf)
			key := fmt.Sprintf("%s|%s", sf.Key, exprStr(sel))
			safe := false
			ko := identObj(sf.Info(), resolveAlias(sf, ix.Index))
			for _, rs := range rangeStmts(sf) {
				if x.isHandles(sf, rs.X) && rs.Pos() < sel.Pos() && sel.End() < rs.End() && ko != nil && rs.Key != nil && ko == identObj(sf.Info(), rs.Key) {
					safe = true
				}
			}
			c.Verdict(safe, "C26-R4", key, pos(c, sel), "key comes from ranging over the map", "a handle looked up by name is dereferenced without testing that it exists: unloading a name that is no longer loaded (reload racing shutdown) panics the loader")
			return true
		})
	}
	for _, sf := range shipped(c) {
		if core.Rel(sf.Pkg.PkgPath) != "internal/runtime" {
			continue
		}
		sf := sf
		core.InspectNoLit(sf.Body, func(n ast.Node) bool {
			var lhs []ast.Expr
			var rhs ast.Expr
			switch s := n.(type) {
			case *ast.AssignStmt:
				if len(s.Rhs) != 1 {
					return true
				}
				lhs, rhs = s.Lhs, s.Rhs[0]
			case *ast.ValueSpec:
				if len(s.Values) != 1 {
					return true
				}
				for _, nm := range s.Names {
					lhs = append(lhs, nm)
				}
				rhs = s.Values[0]
			default:
				return true
			}
			ix, ok := core.Unparen(rhs).(*ast.IndexExpr)
			if !ok || !x.isHandles(sf, ix.X) || len(lhs) == 0 || len(lhs) > 2 {
				return true
			}
			n4++
			c.Analysed(sf)
			key := fmt.Sprintf("%s|lookup %s", sf.Key, exprStr(lhs[0]))
			hv := identObj(sf.Info(), lhs[0])
			var okv types.Object
			if len(lhs) == 2 {
				okv = identObj(sf.Info(), lhs[1])
			}
			g := sf.Graph()
			lp0, okp := g.PointOf(n)
			if !okp {
				c.Undecided("C26-R4", key, pos(c, n), "lookup not found in the CFG")
				return true
			}
			exists := newGuard(guardSpec{atom: func(f *core.Func, e ast.Expr, _ func(ast.Expr) string) (bool, bool) {
				if o := identObj(f.Info(), e); o != nil && o == okv {
					return true, false
				}
				if y, nonNilWhenTrue, isCmp := nilCompare(f.Info(), e); isCmp && hv != nil && identObj(f.Info(), y) == hv {
					return nonNilWhenTrue, !nonNilWhenTrue
				}
				return false, false
			}})
			safeEdge := exists.edges(sf, nil, 0)
			nbad := 0
			var tr0 []string
			for _, d := range g.Find(func(n ast.Node) bool {
				switch y := n.(type) {
				case *ast.SelectorExpr:
					return hv != nil && identObj(sf.Info(), y.X) == hv
				case *ast.StarExpr:
					return hv != nil && identObj(sf.Info(), y.X) == hv
				}
				return false
			}) {
				if shortCircuit(exists, sf, d.P.Node(), d.N) {
					continue
				}
				if tr, found := g.Search(core.Query{From: &lp0, Goal: core.At(d.P), AvoidEdge: safeEdge}); found {
					nbad++
					tr0 = g.Trail(tr)
				}
			}
			c.Verdict(nbad == 0, "C26-R4", key, pos(c, n), "dereferenced only where the handle is known to exist", fmt.Sprintf("the looked-up handle is dereferenced on a path where neither the lookup's ok result was found true nor the handle found non-nil (%d sites)", nbad), tr0...)
			return true
		})
	}
	c.Extra["handle_lookups"] = n4
	c.Floor("C26-R4", 4)

	// R5
	c.Rule("C26-R5", "FRESH-HANDLE: the handle stored for the name on success (in CompileAndRun or a function it calls) is a &vmHandle{…} literal whose contentHash is this call's hash of the source, whose vm is this call's vm.New result and whose lines is a channel made in this call and the one passed to go v.Run; fields of a vmHandle are never assigned outside such a literal; the unchanged-contents test compares the stored handle's contentHash with this call's hash")
	{
		// store sites: in CompileAndRun and the module functions it (transitively) calls
		var storeFns []*core.Func
		seen := map[*core.Func]bool{}
		var walk func(f *core.Func, depth int)
		walk = func(f *core.Func, depth int) {
			if seen[f] || depth > 2 {
				return
			}
			seen[f] = true
			storeFns = append(storeFns, f)
			for _, cf := range f.Callees() {
				if core.Rel(cf.Pkg.PkgPath) == "internal/runtime" && cf.Lit == nil {
					walk(cf, depth+1)
				}
			}
		}
		walk(car, 0)
		nstore := 0
		for _, sfn := range storeFns {
			g := sfn.Graph()
			for _, s := range mapStoresOn(g, x.handles) {
				nstore++
				c.Analysed(sfn)
				as := s.N.(*ast.AssignStmt)
				key := fmt.Sprintf("%s|store#%d", compileAndRun, nstore)
				var lit *ast.CompositeLit
				if u, ok := resolveLocal(sfn, as.Rhs[0]).(*ast.UnaryExpr); ok && u.Op == token.AND {
					lit, _ = core.Unparen(u.X).(*ast.CompositeLit)
				}
				if lit == nil {
					c.Fail("C26-R5", key, pos(c, as), "the handle installed is not a fresh &vmHandle{…} literal: hash, VM and channel of the running version can disagree")
					continue
				}
				fields := map[*types.Var]ast.Expr{}
				var st *types.Struct
				if t := sfn.Info().TypeOf(lit); t != nil {
					st, _ = t.Underlying().(*types.Struct)
				}
				for i, el := range lit.Elts {
					if kv, ok := el.(*ast.KeyValueExpr); ok {
						if id, ok := kv.Key.(*ast.Ident); ok {
							if fv, ok := sfn.Info().Uses[id].(*types.Var); ok {
								fields[fv] = kv.Value
							}
						}
					} else if st != nil && i < st.NumFields() {
						fields[st.Field(i)] = el
					}
				}
				hashOK := x.allOrigins(sfn, fields[x.hHash], car, isSumCall)
				vmOK := x.allOrigins(sfn, fields[x.hVM], car, func(fn *core.Func, e ast.Expr) bool {
					return isCallTo(fn, e, func(id string, _ *ast.CallExpr) bool { return id == "internal/runtime/vm.New" })
				})
				linesOK := x.allOrigins(sfn, fields[x.hLines], car, func(fn *core.Func, e ast.Expr) bool {
					return isCallTo(fn, e, func(id string, call *ast.CallExpr) bool { return id == "builtin.make" && len(call.Args) == 1 })
				})
				ix := core.Unparen(as.Lhs[0]).(*ast.IndexExpr)
				nameParam := paramAt(car, 0)
				nameOK := x.allOrigins(sfn, ix.Index, car, func(fn *core.Func, e ast.Expr) bool {
					return fn.Decl == car.Decl && nameParam != nil && identObj(fn.Info(), e) == nameParam
				})
				c.Verdict(hashOK && vmOK && linesOK && nameOK, "C26-R5", key, pos(c, as), "fresh handle from this call's hash, VM and channel",
					fmt.Sprintf("the installed handle is not built from this call's values (hash ok=%v, vm ok=%v, channel ok=%v, key is name=%v): a later reload compares against a stale hash or lines go to the wrong version", hashOK, vmOK, linesOK, nameOK))
				// go v.Run(lines) uses the same vm and channel
				for _, gh := range g.Find(func(n ast.Node) bool { _, ok := n.(*ast.GoStmt); return ok }) {
					gs := gh.N.(*ast.GoStmt)
					if sfn.CalleeID(gs.Call) == "internal/runtime/vm.(*VM).Run" && len(gs.Call.Args) > 0 {
						vo := identObj(sfn.Info(), resolveAlias(sfn, fields[x.hVM]))
						lo := identObj(sfn.Info(), resolveAlias(sfn, fields[x.hLines]))
						same := vo != nil && lo != nil && identObj(sfn.Info(), resolveAlias(sfn, core.RecvExpr(gs.Call))) == vo && identObj(sfn.Info(), resolveAlias(sfn, gs.Call.Args[0])) == lo
						c.Verdict(same, "C26-R5", compileAndRun+"|run", pos(c, gs), "the VM started is the one installed, on the installed channel", "the goroutine started does not run the installed VM on the installed channel")
					}
				}
			}
		}
		if nstore == 0 {
			c.Fail("C26-R5", compileAndRun+"|store", pos(c, car.Decl), "CompileAndRun never stores a handle for the program name")
		}
		// hash compare
		neq := 0
		ast.Inspect(car.Body, func(n ast.Node) bool {
			call, isC := n.(*ast.CallExpr)
			if !isC || car.CalleeID(call) != "bytes.Equal" || len(call.Args) != 2 {
				return true
			}
			neq++
			a, b := call.Args[0], call.Args[1]
			okc := false
			for _, pr := range [][2]ast.Expr{{a, b}, {b, a}} {
				if fieldOf(car.Info(), resolveLocal(car, pr[0])) == x.hHash && x.hHash != nil && x.allOrigins(car, pr[1], car, isSumCall) {
					okc = true
				}
			}
			c.Verdict(okc, "C26-R5", compileAndRun+"|unchanged test", pos(c, call), "stored hash vs this call's hash", "the unchanged-contents test does not compare the stored handle's hash with the hash of the bytes read in this call")
			return true
		})
		if neq == 0 {
			c.Undecided("C26-R5", compileAndRun+"|unchanged test", pos(c, car.Decl), "no bytes.Equal comparison of content hashes found in CompileAndRun")
		}
	}
	for _, sf := range shipped(c) {
		core.InspectNoLit(sf.Body, func(n ast.Node) bool {
			as, ok := n.(*ast.AssignStmt)
			if !ok {
				return true
			}
			for _, l := range as.Lhs {
				sel, ok := core.Unparen(l).(*ast.SelectorExpr)
				if !ok {
					continue
				}
				if s := sf.Info().Selections[sel]; s != nil && s.Kind() == types.FieldVal && strings.HasSuffix(s.Recv().String(), "runtime.vmHandle") {
					c.Fail("C26-R5", sf.Key+"|assign "+exprStr(sel), pos(c, as), "a field of an installed handle is updated in place: hash, VM and channel of a program can disagree (e.g. a stale hash makes a later edit back to earlier contents look unchanged)")
				}
			}
			return true
		})
	}
	c.Floor("C26-R5", 3)
}

// singleDefExpr is singleDef with parentheses stripped (nil-safe for type switches).
func singleDefExpr(f *core.Func, o types.Object) ast.Expr {
	if d := singleDef(f, o); d != nil {
		return core.Unparen(d)
	}
	return nil
}

// inside filters hits lying lexically inside node n.
func inside(hs []core.Hit, n ast.Node) []core.Hit {
	var out []core.Hit
	for _, h := range hs {
		if n.Pos() <= h.N.Pos() && h.N.End() <= n.End() {
			out = append(out, h)
		}
	}
	return out
}

// chain flattens a left-nested binary expression of the given operator into its operands, left to right.
func chain(e ast.Expr, op token.Token) []ast.Expr {
	e = core.Unparen(e)
	if be, ok := e.(*ast.BinaryExpr); ok && be.Op == op {
		return append(chain(be.X, op), chain(be.Y, op)...)
	}
	return []ast.Expr{e}
}

var _ = cfg.KindRangeLoop
