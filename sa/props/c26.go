package props

import (
	"fmt"

	"go/ast"
	"go/token"
	"go/types"
	"golang.org/x/tools/go/cfg"
	"strings"

	"verif/sa/core"
)

func init() { register("C26", c26) }

const loadAllPrograms = "internal/runtime.(*Runtime).LoadAllPrograms"

// handleEnders: declared functions that (transitively) close a VM handle's
// lines channel or delete from the handle map.
func handleEnders(c *core.Check) map[*core.Func]bool {
	return c.Prog.Reaching(func(f *core.Func) bool {
		if core.Rel(f.Pkg.PkgPath) != "internal/runtime" {
			return false
		}
		found := false
		ast.Inspect(f.Body, func(n ast.Node) bool {
			call, ok := n.(*ast.CallExpr)
			if !ok {
				return true
			}
			switch f.CalleeID(call) {
			case "builtin.close":
				if strings.HasSuffix(core.PathOf(call.Args[0]), ".lines") && isChanOfLogLine(f.Info(), call.Args[0]) {
					found = true
				}
			case "builtin.delete":
				if strings.HasSuffix(core.PathOf(call.Args[0]), ".handles") {
					found = true
				}
			}
			return true
		})
		return found
	})
}

func c26(c *core.Check) {
	c.Explain = "Decides structural necessary conditions of C26 on the program loader: (R1) a file is opened only after the dot-prefix and the .mtail-extension tests on its base name, and directory entries that are directories never reach LoadProgram; (R2) the set of programs to unload is seeded from every loaded name under the handle lock, an entry is unmarked only for a non-directory entry of the listing and by that entry's base name, and every remaining name is unloaded; (R3) a load that fails never ends or replaces the running version; (R4) every dereference of a handle looked up by name is guarded by the lookup's ok result or happens while ranging over the map; (R5) on success the handle installed for the name is a fresh one built from this call's content hash, VM and channel, and a handle's fields are never updated piecemeal. All paths of the current source are covered; file-system races and what Compile accepts are not decided."
	c.Assume = append(c.Assume, "os.ReadDir lists the directory; filepath.Base/Ext as documented")
	lp := c.MustFn("C26-R1", loadProgram)
	la := c.MustFn("C26-R1", loadAllPrograms)
	car := c.MustFn("C26-R3", compileAndRun)
	if lp == nil || la == nil || car == nil {
		return
	}

	// R1
	c.Rule("C26-R1", "ELIGIBLE-BEFORE-OPEN: in LoadProgram every path to os.OpenFile (and to CompileAndRun) passes both `strings.HasPrefix(base, \".\")` and `filepath.Ext(base) != \".mtail\"` tests, whose true branches cannot reach it; in LoadAllPrograms every path to LoadProgram inside the listing loop passes the IsDir test, whose true branch cannot reach it")
	{
		g := lp.Graph()
		targets := append(g.CallsTo("os.OpenFile"), g.CallsTo("os.Open")...)
		targets = append(targets, g.CallsTo("os.ReadFile")...)
		targets = append(targets, g.CallsTo(compileAndRun)...)
		dot := ifsWhere(lp, func(is *ast.IfStmt) bool {
			ok := false
			ast.Inspect(is.Cond, func(n ast.Node) bool {
				if call, isC := n.(*ast.CallExpr); isC && lp.CalleeID(call) == "strings.HasPrefix" && len(call.Args) == 2 {
					if tv := lp.Info().Types[call.Args[1]]; tv.Value != nil && tv.Value.ExactString() == `"."` {
						ok = baseNameOf(lp, call.Args[0])
					}
				}
				return true
			})
			return ok
		})
		ext := ifsWhere(lp, func(is *ast.IfStmt) bool {
			be, ok := core.Unparen(is.Cond).(*ast.BinaryExpr)
			if !ok || be.Op != token.NEQ {
				return false
			}
			for _, pair := range [][2]ast.Expr{{be.X, be.Y}, {be.Y, be.X}} {
				call, isC := core.Unparen(pair[0]).(*ast.CallExpr)
				if isC && lp.CalleeID(call) == "path/filepath.Ext" && baseNameOf(lp, call.Args[0]) {
					if tv := lp.Info().Types[pair[1]]; tv.Value != nil && tv.Value.ExactString() == `".mtail"` {
						return true
					}
				}
			}
			return false
		})
		for _, t := range []struct {
			name string
			ifs  []*ast.IfStmt
		}{{"dot-file test", dot}, {"extension test", ext}} {
			key := loadProgram + "|" + t.name
			if len(t.ifs) == 0 {
				c.Fail("C26-R1", key, pos(c, lp.Decl), "LoadProgram has no "+t.name+" on the base name of the path (negated or weakened?): ineligible files are compiled and loaded")
				continue
			}
			var conds []core.Point
			bad := false
			for _, is := range t.ifs {
				if p, ok := g.PointOf(is.Cond); ok {
					conds = append(conds, p)
				}
				if start, ok := branchStart(g, is, true); ok {
					if tr, found := pathAvoiding(g, start, core.HitPoints(targets), nil); found {
						bad = true
						c.Fail("C26-R1", key+"|skips", pos(c, is), "the branch taken for an ineligible file can still open or compile it", tr...)
					}
				}
			}
			if tr, found := pathAvoiding(g, nil, core.HitPoints(targets), conds); found {
				bad = true
				c.Fail("C26-R1", key, pos(c, lp.Decl), "the file can be opened or compiled without the "+t.name, tr...)
			}
			if !bad {
				c.Ok("C26-R1", key, pos(c, t.ifs[0]), "dominates opening; ineligible branch never opens")
			}
		}
		if len(targets) == 0 {
			c.Undecided("C26-R1", loadProgram, pos(c, lp.Decl), "no open/compile call found")
		}
	}
	{
		g := la.Graph()
		var loop *ast.RangeStmt
		for _, rs := range rangeStmts(la) {
			if t := la.Info().TypeOf(rs.X); t != nil && strings.Contains(t.String(), "DirEntry") {
				loop = rs
			}
		}
		if loop == nil {
			c.Undecided("C26-R1", loadAllPrograms+"|listing loop", pos(c, la.Decl), "loop over the directory listing not found")
		} else {
			_, body, _ := loopBlocks(g, loop)
			loads := inside(g.CallsTo(loadProgram), loop)
			isdir := ifsWhere(la, func(is *ast.IfStmt) bool {
				return is.Pos() > loop.Pos() && is.End() < loop.End() && strings.HasSuffix(strings.ReplaceAll(exprStr(is.Cond), " ", ""), ".IsDir()") && !strings.HasPrefix(exprStr(is.Cond), "!")
			})
			var conds []core.Point
			bad := len(isdir) == 0
			if bad {
				c.Fail("C26-R1", loadAllPrograms+"|IsDir test", pos(c, loop), "no IsDir test in the listing loop: subdirectories are passed to LoadProgram")
			}
			unmarks := inside(g.Calls(func(id string, call *ast.CallExpr) bool {
				return id == "builtin.delete" && core.PathOf(call.Args[0]) == "markDeleted"
			}), loop)
			for _, is := range isdir {
				if p, ok := g.PointOf(is.Cond); ok {
					conds = append(conds, p)
				}
				if start, ok := branchStart(g, is, true); ok {
					head, _, _ := loopBlocks(g, loop)
					q := core.Query{From: start, Goal: core.At(append(core.HitPoints(loads), core.HitPoints(unmarks)...)...), Avoid: func(p core.Point) bool { return p.B == head }}
					if tr, found := g.Search(q); found {
						bad = true
						c.Fail("C26-R1", loadAllPrograms+"|IsDir skips", pos(c, is), "a directory entry that is a directory can still be loaded or keep a removed program of the same name marked as present", g.Trail(tr)...)
					}
				}
			}
			if body != nil {
				start := &core.Point{B: body, I: -1}
				if tr, found := pathAvoiding(g, start, append(core.HitPoints(loads), core.HitPoints(unmarks)...), conds); found {
					bad = true
					c.Fail("C26-R1", loadAllPrograms+"|IsDir test", pos(c, loop), "LoadProgram / unmarking can be reached without the IsDir test", tr...)
				}
			}
			if !bad {
				c.Ok("C26-R1", loadAllPrograms+"|IsDir test", pos(c, loop), "directories never loaded or unmarked")
			}

			// R2
			c.Rule("C26-R2", "UNLOAD-VANISHED: markDeleted gets every key of r.handles while the handle lock is held; delete(markDeleted, k) occurs only in the listing loop with k = filepath.Base(dirent.Name()) (or dirent.Name()); after the loop every key left in markDeleted is passed to UnloadProgram")
			seeded := false
			for _, rs := range rangeStmts(la) {
				if !strings.HasSuffix(core.PathOf(rs.X), ".handles") {
					continue
				}
				hold := g.MustHold()
				for _, st := range mapStores(g, "markDeleted") {
					as := st.N.(*ast.AssignStmt)
					ix := core.Unparen(as.Lhs[0]).(*ast.IndexExpr)
					if identObj(la.Info(), ix.Index) != nil && identObj(la.Info(), ix.Index) == identObj(la.Info(), rs.Key) && st.N.Pos() > rs.Pos() && st.N.End() < rs.End() {
						seeded = true
						held := hold.At(st.P)
						c.Verdict(core.Holds(held, "r.handleMu", "R"), "C26-R2", loadAllPrograms+"|seed under lock", pos(c, as), "handle lock held", "the snapshot of loaded program names is taken without the handle lock")
					}
				}
				// the loop must not skip entries
				if early := earlyLoopExits(c, g, rs); len(early) > 0 {
					c.Fail("C26-R2", loadAllPrograms+"|seed complete", pos(c, rs), "the snapshot loop over loaded programs can stop early: "+early[0])
				}
				if ifs := ifsWhere(la, func(is *ast.IfStmt) bool { return is.Pos() > rs.Pos() && is.End() < rs.End() }); len(ifs) > 0 {
					c.Fail("C26-R2", loadAllPrograms+"|seed unconditional", pos(c, ifs[0]), "the snapshot of loaded programs is conditional: some loaded programs are never candidates for unloading")
				}
			}
			c.Verdict(seeded, "C26-R2", loadAllPrograms+"|seed", pos(c, la.Decl), "every loaded name is marked", "markDeleted is not seeded with every key of r.handles: a program whose file vanished keeps running")
			for i, u := range g.Calls(func(id string, call *ast.CallExpr) bool {
				return id == "builtin.delete" && core.PathOf(call.Args[0]) == "markDeleted"
			}) {
				call := u.N.(*ast.CallExpr)
				k := strings.ReplaceAll(exprStr(call.Args[1]), " ", "")
				dn := exprStr(loop.Value) + ".Name()"
				okKey := (k == "filepath.Base("+dn+")" || k == dn) && u.N.Pos() > loop.Pos() && u.N.End() < loop.End()
				c.Verdict(okKey, "C26-R2", fmt.Sprintf("%s|unmark#%d", loadAllPrograms, i+1), pos(c, call), "unmarks the listed entry's own name", "an entry of markDeleted is removed with a key that is not the listed directory entry's base name, or outside the listing loop")
			}
			unloaded := false
			for _, rs := range rangeStmts(la) {
				if core.PathOf(rs.X) != "markDeleted" || rs.Pos() < loop.End() {
					continue
				}
				for _, h := range inside(g.CallsTo(unloadProgram), rs) {
					call := h.N.(*ast.CallExpr)
					if identObj(la.Info(), call.Args[0]) == identObj(la.Info(), rs.Key) && identObj(la.Info(), rs.Key) != nil {
						unloaded = true
					}
				}
				if early := earlyLoopExits(c, g, rs); len(early) > 0 {
					unloaded = false
				}
				if cnt, ok := iterationCount(g, rs, core.HitPoints(inside(g.CallsTo(unloadProgram), rs))); !ok || cnt.Min != 1 {
					unloaded = false
				}
			}
			c.Verdict(unloaded, "C26-R2", loadAllPrograms+"|unload remainder", pos(c, la.Decl), "every remaining name unloaded", "names left in markDeleted after the listing are not all passed to UnloadProgram: a removed program keeps receiving lines")
		}
	}
	c.Floor("C26-R1", 3)
	c.Floor("C26-R2", 4)

	// R3
	c.Rule("C26-R3", "FAILED-LOAD-KEEPS-VM: in CompileAndRun and LoadProgram no path from an operation that ends or replaces a running version (close of a handle's lines channel, delete from / store into r.handles, directly or in a callee) reaches a return of a non-nil error")
	enders := handleEnders(c)
	for _, f := range []*core.Func{car, lp} {
		g := f.Graph()
		ops := g.Find(func(n ast.Node) bool {
			switch x := n.(type) {
			case *ast.CallExpr:
				id := f.CalleeID(x)
				if id == "builtin.close" && len(x.Args) == 1 && strings.HasSuffix(core.PathOf(x.Args[0]), ".lines") {
					return true
				}
				if id == "builtin.delete" && strings.HasSuffix(core.PathOf(x.Args[0]), ".handles") {
					return true
				}
				if cf := f.CalleeFunc(x); cf != nil && enders[cf] && cf != car {
					return true
				}
			case *ast.AssignStmt:
				for _, l := range x.Lhs {
					if ix, ok := core.Unparen(l).(*ast.IndexExpr); ok && strings.HasSuffix(core.PathOf(ix.X), ".handles") {
						return true
					}
				}
			}
			return false
		})
		var errRets []core.Point
		for _, e := range normalExits(g) {
			if e.Kind == "return" && !returnsNil(f.Info(), e.Ret) {
				errRets = append(errRets, e.P)
			}
		}
		if f == lp {
			// in LoadProgram the error returns after CompileAndRun propagate its failure: the op of interest there is none
			ops = nil
			for _, h := range g.Find(func(n ast.Node) bool {
				x, ok := n.(*ast.CallExpr)
				if !ok {
					return false
				}
				cf := f.CalleeFunc(x)
				return cf != nil && enders[cf] && cf != car
			}) {
				ops = append(ops, h)
			}
		}
		bad := false
		for i, o := range ops {
			from := o.P
			if tr, found := pathAvoiding(g, &from, errRets, nil); found {
				bad = true
				c.Fail("C26-R3", fmt.Sprintf("%s|op#%d", f.Key, i+1), pos(c, o.N), "the running version is ended or replaced and the load can still fail afterwards: a broken or refused program stops the previous version", tr...)
			}
		}
		if !bad {
			c.Ok("C26-R3", f.Key, pos(c, f.Decl), fmt.Sprintf("%d handle-ending operations, none before a failing exit", len(ops)))
		}
	}
	c.Floor("C26-R3", 2)

	// R4
	c.Rule("C26-R4", "GUARDED-LOOKUP: every expression r.handles[k].f in package runtime is inside `for k := range r.handles` or uses a value obtained by `h, ok := r.handles[k]` whose ok branch encloses it")
	n4 := 0
	for _, sf := range shipped(c) {
		if core.Rel(sf.Pkg.PkgPath) != "internal/runtime" {
			continue
		}
		core.InspectNoLit(sf.Body, func(n ast.Node) bool {
			sel, ok := n.(*ast.SelectorExpr)
			if !ok {
				return true
			}
			ix, ok := core.Unparen(sel.X).(*ast.IndexExpr)
			if !ok || !strings.HasSuffix(core.PathOf(ix.X), ".handles") {
				return true
			}
			n4++
			c.Analysed(sf)
			key := fmt.Sprintf("%s|%s", sf.Key, exprStr(sel))
			safe := false
			for _, rs := range rangeStmts(sf) {
				if strings.HasSuffix(core.PathOf(rs.X), ".handles") && rs.Pos() < sel.Pos() && sel.End() < rs.End() &&
					identObj(sf.Info(), ix.Index) != nil && identObj(sf.Info(), ix.Index) == identObj(sf.Info(), rs.Key) {
					safe = true
				}
			}
			c.Verdict(safe, "C26-R4", key, pos(c, sel), "key comes from ranging over the map", "a handle looked up by name is dereferenced without testing that it exists: unloading a name that is no longer loaded (reload racing shutdown) panics the loader")
			return true
		})
	}
	// comma-ok lookups whose value is used outside the ok branch
	for _, sf := range shipped(c) {
		if core.Rel(sf.Pkg.PkgPath) != "internal/runtime" {
			continue
		}
		core.InspectNoLit(sf.Body, func(n ast.Node) bool {
			as, ok := n.(*ast.AssignStmt)
			if !ok || len(as.Rhs) != 1 {
				return true
			}
			ix, ok := core.Unparen(as.Rhs[0]).(*ast.IndexExpr)
			if !ok || !strings.HasSuffix(core.PathOf(ix.X), ".handles") {
				return true
			}
			n4++
			c.Analysed(sf)
			key := fmt.Sprintf("%s|lookup %s", sf.Key, exprStr(as.Lhs[0]))
			if len(as.Lhs) != 2 {
				// single-value lookup: the value must be nil-tested before use; accept only if never dereferenced
				hv := identObj(sf.Info(), as.Lhs[0])
				der := derefsOf(sf, hv, nil)
				c.Verdict(len(der) == 0, "C26-R4", key, pos(c, as), "value not dereferenced", "a handle is looked up without the ok result and dereferenced")
				return true
			}
			hv, okv := identObj(sf.Info(), as.Lhs[0]), identObj(sf.Info(), as.Lhs[1])
			g := sf.Graph()
			lp0, okp := g.PointOf(as)
			if !okp {
				c.Undecided("C26-R4", key, pos(c, as), "lookup not found in the CFG")
				return true
			}
			// edges on which ok is known to be true
			trueEdge := func(b *cfg.Block, si int) bool {
				if len(b.Nodes) == 0 || len(b.Succs) != 2 {
					return false
				}
				e, isE := b.Nodes[len(b.Nodes)-1].(ast.Expr)
				if !isE {
					return false
				}
				for _, x := range chain(e, token.LAND) {
					if identObj(sf.Info(), x) == okv && okv != nil {
						return si == 0
					}
				}
				for _, x := range chain(e, token.LOR) {
					if u, isU := core.Unparen(x).(*ast.UnaryExpr); isU && u.Op == token.NOT && identObj(sf.Info(), u.X) == okv && okv != nil {
						return si == 1
					}
				}
				return false
			}
			// a dereference inside the condition itself, to the right of the ok conjunct, is guarded by short-circuit evaluation
			inCondAfterOk := func(sel ast.Node, b *cfg.Block) bool {
				if len(b.Nodes) == 0 {
					return false
				}
				e, isE := b.Nodes[len(b.Nodes)-1].(ast.Expr)
				if !isE || !(e.Pos() <= sel.Pos() && sel.End() <= e.End()) {
					return false
				}
				seen := false
				for _, x := range chain(e, token.LAND) {
					if identObj(sf.Info(), x) == okv {
						seen = true
						continue
					}
					if seen && x.Pos() <= sel.Pos() && sel.End() <= x.End() {
						return true
					}
				}
				seen = false
				for _, x := range chain(e, token.LOR) {
					if u, isU := core.Unparen(x).(*ast.UnaryExpr); isU && u.Op == token.NOT && identObj(sf.Info(), u.X) == okv {
						seen = true
						continue
					}
					if seen && x.Pos() <= sel.Pos() && sel.End() <= x.End() {
						return true
					}
				}
				return false
			}
			nbad := 0
			var tr0 []string
			for _, d := range g.Find(func(n ast.Node) bool {
				sel, ok := n.(*ast.SelectorExpr)
				return ok && identObj(sf.Info(), sel.X) == hv && hv != nil
			}) {
				if inCondAfterOk(d.N, d.P.B) {
					continue
				}
				if tr, found := g.Search(core.Query{From: &lp0, Goal: core.At(d.P), AvoidEdge: trueEdge}); found {
					nbad++
					tr0 = g.Trail(tr)
				}
			}
			c.Verdict(nbad == 0, "C26-R4", key, pos(c, as), "dereferenced only where ok is known true", fmt.Sprintf("the looked-up handle is dereferenced on a path where the lookup's ok result was not found true (%d sites)", nbad), tr0...)
			return true
		})
	}
	c.Extra["handle_lookups"] = n4
	c.Floor("C26-R4", 4)

	// R5
	c.Rule("C26-R5", "FRESH-HANDLE: the handle stored for the name on success is a composite literal whose contentHash is this call's hash of the source, whose vm is this call's vm.New result and whose lines is a channel made in this call and the one passed to go v.Run; fields of a vmHandle are never assigned outside such a literal; the unchanged-contents test compares the stored handle's contentHash with this call's hash")
	{
		g := car.Graph()
		st := mapStores(g, ".handles")
		for i, s := range st {
			as := s.N.(*ast.AssignStmt)
			key := fmt.Sprintf("%s|store#%d", compileAndRun, i+1)
			var lit *ast.CompositeLit
			if u, ok := core.Unparen(as.Rhs[0]).(*ast.UnaryExpr); ok && u.Op == token.AND {
				lit, _ = core.Unparen(u.X).(*ast.CompositeLit)
			}
			if lit == nil {
				c.Fail("C26-R5", key, pos(c, as), "the handle installed is not a fresh &vmHandle{…} literal: hash, VM and channel of the running version can disagree")
				continue
			}
			fields := map[string]ast.Expr{}
			for _, el := range lit.Elts {
				if kv, ok := el.(*ast.KeyValueExpr); ok {
					fields[exprStr(kv.Key)] = kv.Value
				}
			}
			hashOK := fields["contentHash"] != nil && definedByCall(car, fields["contentHash"], "hash.Hash.Sum", "Sum")
			vmOK := fields["vm"] != nil && definedByCall(car, fields["vm"], "internal/runtime/vm.New", "New")
			linesOK := fields["lines"] != nil && definedByMake(car, fields["lines"])
			ix := core.Unparen(as.Lhs[0]).(*ast.IndexExpr)
			nameOK := identObj(car.Info(), ix.Index) == paramObj(car, "name")
			c.Verdict(hashOK && vmOK && linesOK && nameOK, "C26-R5", key, pos(c, as), "fresh handle from this call's hash, VM and channel",
				fmt.Sprintf("the installed handle is not built from this call's values (hash ok=%v, vm ok=%v, channel ok=%v, key is name=%v): a later reload compares against a stale hash or lines go to the wrong version", hashOK, vmOK, linesOK, nameOK))
			// go v.Run(lines) uses the same vm and channel
			for _, gh := range g.Find(func(n ast.Node) bool { _, ok := n.(*ast.GoStmt); return ok }) {
				gs := gh.N.(*ast.GoStmt)
				if car.CalleeID(gs.Call) == "internal/runtime/vm.(*VM).Run" {
					same := identObj(car.Info(), core.RecvExpr(gs.Call)) == identObj(car.Info(), fields["vm"]) && identObj(car.Info(), gs.Call.Args[0]) == identObj(car.Info(), fields["lines"]) && identObj(car.Info(), fields["vm"]) != nil
					c.Verdict(same, "C26-R5", compileAndRun+"|run", pos(c, gs), "the VM started is the one installed, on the installed channel", "the goroutine started does not run the installed VM on the installed channel")
				}
			}
		}
		if len(st) == 0 {
			c.Fail("C26-R5", compileAndRun+"|store", pos(c, car.Decl), "CompileAndRun never stores a handle for the program name")
		}
		// success paths must pass the store (unless compileOnly)
		// hash compare
		for _, is := range ifsWhere(car, func(is *ast.IfStmt) bool { return exprCalls(car, is.Cond, "bytes.Equal") }) {
			okc := false
			ast.Inspect(is.Cond, func(n ast.Node) bool {
				if call, isC := n.(*ast.CallExpr); isC && car.CalleeID(call) == "bytes.Equal" {
					a, b := call.Args[0], call.Args[1]
					for _, pr := range [][2]ast.Expr{{a, b}, {b, a}} {
						if strings.HasSuffix(core.PathOf(pr[0]), ".contentHash") && definedByCall(car, pr[1], "hash.Hash.Sum", "Sum") {
							okc = true
						}
					}
				}
				return true
			})
			c.Verdict(okc, "C26-R5", compileAndRun+"|unchanged test", pos(c, is), "stored hash vs this call's hash", "the unchanged-contents test does not compare the stored handle's hash with the hash of the bytes read in this call")
		}
	}
	for _, sf := range shipped(c) {
		core.InspectNoLit(sf.Body, func(n ast.Node) bool {
			as, ok := n.(*ast.AssignStmt)
			if !ok {
				return true
			}
			for _, l := range as.Lhs {
				sel, ok := core.Unparen(l).(*ast.SelectorExpr)
				if !ok {
					continue
				}
				if s := sf.Info().Selections[sel]; s != nil && s.Kind() == types.FieldVal && strings.HasSuffix(s.Recv().String(), "runtime.vmHandle") {
					c.Fail("C26-R5", sf.Key+"|assign "+exprStr(sel), pos(c, as), "a field of an installed handle is updated in place: hash, VM and channel of a program can disagree (e.g. a stale hash makes a later edit back to earlier contents look unchanged)")
				}
			}
			return true
		})
	}
	c.Floor("C26-R5", 3)
}

// inside filters hits lying lexically inside node n.
func inside(hs []core.Hit, n ast.Node) []core.Hit {
	var out []core.Hit
	for _, h := range hs {
		if n.Pos() <= h.N.Pos() && h.N.End() <= n.End() {
			out = append(out, h)
		}
	}
	return out
}

// baseNameOf reports whether e is a variable defined as filepath.Base(<parameter>) in f.
func baseNameOf(f *core.Func, e ast.Expr) bool {
	obj := identObj(f.Info(), e)
	if obj == nil {
		if call, ok := core.Unparen(e).(*ast.CallExpr); ok && f.CalleeID(call) == "path/filepath.Base" {
			return true
		}
		return false
	}
	ok := false
	n := 0
	ast.Inspect(f.Body, func(x ast.Node) bool {
		as, isA := x.(*ast.AssignStmt)
		if !isA {
			return true
		}
		for i, l := range as.Lhs {
			if identObj(f.Info(), l) == obj {
				n++
				if len(as.Rhs) == len(as.Lhs) {
					if call, isC := core.Unparen(as.Rhs[i]).(*ast.CallExpr); isC && f.CalleeID(call) == "path/filepath.Base" {
						ok = true
					}
				}
			}
		}
		return true
	})
	return ok && n == 1
}

// definedByCall reports whether e is an identifier with exactly one definition in f, by a call whose callee id equals id or whose method name equals meth.
func definedByCall(f *core.Func, e ast.Expr, id, meth string) bool {
	obj := identObj(f.Info(), e)
	if obj == nil {
		return false
	}
	ok := false
	n := 0
	ast.Inspect(f.Body, func(x ast.Node) bool {
		as, isA := x.(*ast.AssignStmt)
		if !isA {
			return true
		}
		for i, l := range as.Lhs {
			if identObj(f.Info(), l) == obj {
				n++
				if len(as.Rhs) == len(as.Lhs) {
					if call, isC := core.Unparen(as.Rhs[i]).(*ast.CallExpr); isC {
						cid := f.CalleeID(call)
						if cid == id || strings.HasSuffix(cid, "."+meth) {
							ok = true
						}
					}
				}
			}
		}
		return true
	})
	return ok && n == 1
}

func definedByMake(f *core.Func, e ast.Expr) bool {
	obj := identObj(f.Info(), e)
	if obj == nil {
		return false
	}
	ok := false
	n := 0
	ast.Inspect(f.Body, func(x ast.Node) bool {
		as, isA := x.(*ast.AssignStmt)
		if !isA {
			return true
		}
		for i, l := range as.Lhs {
			if identObj(f.Info(), l) == obj {
				n++
				if len(as.Rhs) == len(as.Lhs) {
					if call, isC := core.Unparen(as.Rhs[i]).(*ast.CallExpr); isC && f.CalleeID(call) == "builtin.make" && len(call.Args) == 1 {
						ok = true
					}
				}
			}
		}
		return true
	})
	return ok && n == 1
}

// derefsOf lists selector expressions hv.f in f that are not lexically inside the then-branch of one of the guards.
func derefsOf(f *core.Func, hv types.Object, guards []*ast.IfStmt) []ast.Node {
	var out []ast.Node
	if hv == nil {
		return nil
	}
	ast.Inspect(f.Body, func(n ast.Node) bool {
		sel, ok := n.(*ast.SelectorExpr)
		if !ok || identObj(f.Info(), sel.X) != hv {
			return true
		}
		for _, g := range guards {
			if g.Body.Pos() <= sel.Pos() && sel.End() <= g.Body.End() {
				return true
			}
			// `ok && h.f` inside the condition itself
			if g.Cond.Pos() <= sel.Pos() && sel.End() <= g.Cond.End() {
				if be, isB := core.Unparen(g.Cond).(*ast.BinaryExpr); isB && be.Op == token.LAND && be.Y.Pos() <= sel.Pos() {
					return true
				}
			}
		}
		out = append(out, sel)
		return true
	})
	return out
}

// chain flattens a left-nested binary expression of the given operator into its operands, left to right.
func chain(e ast.Expr, op token.Token) []ast.Expr {
	e = core.Unparen(e)
	if be, ok := e.(*ast.BinaryExpr); ok && be.Op == op {
		return append(chain(be.X, op), chain(be.Y, op)...)
	}
	return []ast.Expr{e}
}
