package props

import (
	"fmt"
	"go/ast"
	"go/token"
	"go/types"
	"sort"
	"strings"

	"golang.org/x/tools/go/cfg"

	"verif/sa/core"
)

func init() { register("C18", c18) }

const (
	c18AddPattern  = "internal/tailer.(*Tailer).AddPattern"
	c18PollPattern = "internal/tailer.(*Tailer).pollLogPattern"
	c18PatternGlob = "internal/tailer.(*Tailer).doPatternGlob"
	c18IgnoreFn    = "internal/tailer.(*Tailer).Ignore"
	c18TailerNew   = "internal/tailer.New"
	c18StreamNew   = "internal/tailer/logstream.New"
	c18LinesMethod = "internal/tailer/logstream.LogStream.Lines"
)

// ---------------------------------------------------------------------------
// small resolvers (objects, never names)

// c18FieldOf resolves a selector expression to the struct field it denotes and
// the expression the field is selected from.
func c18FieldOf(info *types.Info, e ast.Expr) (*types.Var, ast.Expr) {
	sel, ok := core.Unparen(e).(*ast.SelectorExpr)
	if !ok {
		return nil, nil
	}
	if s := info.Selections[sel]; s != nil && s.Kind() == types.FieldVal {
		if v, ok := s.Obj().(*types.Var); ok {
			return v, sel.X
		}
	}
	return nil, nil
}

// c18StreamsField finds the field of tailer.Tailer that maps a pathname to its
// log stream (by type: map[string]logstream.LogStream).
func c18StreamsField(c *core.Check) *types.Var {
	pkg := c.Prog.Pkgs["internal/tailer"]
	if pkg == nil {
		return nil
	}
	tn, _ := pkg.Types.Scope().Lookup("Tailer").(*types.TypeName)
	if tn == nil {
		return nil
	}
	st, _ := tn.Type().Underlying().(*types.Struct)
	if st == nil {
		return nil
	}
	var found *types.Var
	for i := 0; i < st.NumFields(); i++ {
		m, ok := st.Field(i).Type().Underlying().(*types.Map)
		if !ok {
			continue
		}
		if b, ok := m.Key().Underlying().(*types.Basic); !ok || b.Kind() != types.String {
			continue
		}
		if n, ok := m.Elem().(*types.Named); ok && n.Obj().Name() == "LogStream" && n.Obj().Pkg() != nil && core.Rel(n.Obj().Pkg().Path()) == "internal/tailer/logstream" {
			if found != nil {
				return nil
			}
			found = st.Field(i)
		}
	}
	return found
}

// c18StringParams lists the parameters of f whose type is exactly string.
func c18StringParams(f *core.Func) []types.Object {
	var out []types.Object
	for _, fl := range f.Type.Params.List {
		for _, n := range fl.Names {
			o := f.Info().Defs[n]
			if o == nil {
				continue
			}
			if b, ok := o.Type().(*types.Basic); ok && b.Kind() == types.String {
				out = append(out, o)
			}
		}
	}
	return out
}

func c18IsString(info *types.Info, e ast.Expr) bool {
	t := info.TypeOf(e)
	if t == nil {
		return false
	}
	b, ok := t.(*types.Basic)
	return ok && (b.Kind() == types.String || b.Kind() == types.UntypedString)
}

// c18Access is one use of the stream map in a function body.
type c18Access struct {
	P      core.Point
	Sel    *ast.SelectorExpr
	Base   string // access path of the struct the field is read from
	Kind   string // "store", "lookup", "delete", "read"
	Index  ast.Expr
	IndexX *ast.IndexExpr
	Node   ast.Node // the CFG node containing the access
	Value  ast.Expr // for stores: the value stored
}

// c18Accesses lists the uses of field fld in f's own body (not nested literals), in source order.
func c18Accesses(f *core.Func, fld *types.Var) []c18Access {
	var out []c18Access
	g := f.Graph()
	info := f.Info()
	for _, b := range g.C.Blocks {
		if !b.Live {
			continue
		}
		for i, n := range b.Nodes {
			var stack []ast.Node
			ast.Inspect(n, func(x ast.Node) bool {
				if x == nil {
					stack = stack[:len(stack)-1]
					return false
				}
				if _, isLit := x.(*ast.FuncLit); isLit {
					return false
				}
				stack = append(stack, x)
				sel, ok := x.(*ast.SelectorExpr)
				if !ok {
					return true
				}
				v, base := c18FieldOf(info, sel)
				if v != fld {
					return true
				}
				a := c18Access{P: core.Point{B: b, I: i}, Sel: sel, Base: core.PathOf(base), Kind: "read", Node: n}
				// parents, skipping parentheses
				k := len(stack) - 2
				for k >= 0 {
					if _, isP := stack[k].(*ast.ParenExpr); !isP {
						break
					}
					k--
				}
				if k >= 0 {
					switch p := stack[k].(type) {
					case *ast.IndexExpr:
						if core.Unparen(p.X) == ast.Expr(sel) {
							a.Kind, a.Index, a.IndexX = "lookup", p.Index, p
							kk := k - 1
							for kk >= 0 {
								if _, isP := stack[kk].(*ast.ParenExpr); !isP {
									break
								}
								kk--
							}
							if kk >= 0 {
								if as, ok := stack[kk].(*ast.AssignStmt); ok {
									for li, l := range as.Lhs {
										if core.Unparen(l) == ast.Expr(p) {
											a.Kind = "store"
											if len(as.Rhs) == len(as.Lhs) {
												a.Value = as.Rhs[li]
											}
										}
									}
								}
							}
						}
					case *ast.CallExpr:
						if f.CalleeID(p) == "builtin.delete" && len(p.Args) == 2 && core.Unparen(p.Args[0]) == ast.Expr(sel) {
							a.Kind, a.Index = "delete", p.Args[1]
						}
					}
				}
				out = append(out, a)
				return true
			})
		}
	}
	sort.SliceStable(out, func(i, j int) bool { return out[i].Sel.Pos() < out[j].Sel.Pos() })
	return out
}

// c18HeldMutexes lists the mutex fields (of the struct at access path base)
// certainly held at p in at least the given mode.
func c18HeldMutexes(f *core.Func, held *core.Held, p core.Point, base, mode string) []*types.Var {
	g := f.Graph()
	byPath := map[string]*types.Var{}
	for _, ev := range g.LockEvents() {
		if r := core.RecvExpr(ev.Call); r != nil {
			if v, b := c18FieldOf(f.Info(), r); v != nil && core.PathOf(b) == base {
				byPath[ev.Path] = v
			}
		}
	}
	set := held.At(p)
	var out []*types.Var
	for _, path := range sortedKeys(byPath) {
		if core.Holds(set, path, mode) {
			out = append(out, byPath[path])
		}
	}
	return out
}

func c18HasVar(vs []*types.Var, v *types.Var) bool {
	for _, x := range vs {
		if x == v {
			return true
		}
	}
	return false
}

// c18Def is one definition of a local variable.
type c18Def struct {
	Node  ast.Node // AssignStmt, RangeStmt, ValueSpec, IncDecStmt
	Rhs   ast.Expr // the defining expression (the call for multi-value assignments); nil if none
	Idx   int      // result index for multi-value assignments
	Range *ast.RangeStmt
	IsVal bool // range value (as opposed to key)
}

// c18Defs lists every definition of obj inside the declaration enclosing f (literals included).
func c18Defs(f *core.Func, obj types.Object) []c18Def {
	var out []c18Def
	if obj == nil {
		return nil
	}
	info := f.Info()
	is := func(e ast.Expr) bool { return e != nil && identObj(info, e) == obj }
	ast.Inspect(f.Decl.Body, func(n ast.Node) bool {
		switch x := n.(type) {
		case *ast.AssignStmt:
			for i, l := range x.Lhs {
				if !is(l) {
					continue
				}
				switch {
				case len(x.Rhs) == len(x.Lhs):
					out = append(out, c18Def{Node: x, Rhs: x.Rhs[i]})
				case len(x.Rhs) == 1:
					out = append(out, c18Def{Node: x, Rhs: x.Rhs[0], Idx: i})
				}
			}
		case *ast.RangeStmt:
			if is(x.Key) {
				out = append(out, c18Def{Node: x, Range: x})
			}
			if is(x.Value) {
				out = append(out, c18Def{Node: x, Range: x, IsVal: true})
			}
		case *ast.ValueSpec:
			for i, nm := range x.Names {
				if info.Defs[nm] == obj {
					d := c18Def{Node: x}
					if len(x.Values) == len(x.Names) {
						d.Rhs = x.Values[i]
					} else if len(x.Values) == 1 {
						d.Rhs, d.Idx = x.Values[0], i
					}
					out = append(out, d)
				}
			}
		case *ast.IncDecStmt:
			if is(x.X) {
				out = append(out, c18Def{Node: x})
			}
		}
		return true
	})
	return out
}

// c18IsParamOf reports whether obj is a parameter of the declaration enclosing f, and its index.
func c18IsParamOf(f *core.Func, obj types.Object) (int, bool) {
	i := 0
	for _, fl := range f.Decl.Type.Params.List {
		if len(fl.Names) == 0 {
			i++
			continue
		}
		for _, n := range fl.Names {
			if f.Info().Defs[n] == obj && obj != nil {
				return i, true
			}
			i++
		}
	}
	return -1, false
}

// c18Root follows single-definition locals and filepath.Abs/Clean calls back
// to the variable an expression is derived from.
func c18Root(f *core.Func, e ast.Expr, depth int) types.Object {
	if depth > 8 || e == nil {
		return nil
	}
	e = core.Unparen(e)
	if call, ok := e.(*ast.CallExpr); ok {
		switch f.CalleeID(call) {
		case "path/filepath.Abs", "path/filepath.Clean":
			if len(call.Args) == 1 {
				return c18Root(f, call.Args[0], depth+1)
			}
		}
		return nil
	}
	obj := identObj(f.Info(), e)
	if obj == nil {
		return nil
	}
	if _, isParam := c18IsParamOf(f, obj); isParam {
		return obj
	}
	defs := c18Defs(f, obj)
	if len(defs) == 1 && defs[0].Rhs != nil && defs[0].Idx == 0 && defs[0].Range == nil {
		if r := c18Root(f, defs[0].Rhs, depth+1); r != nil {
			return r
		}
	}
	return obj
}

// c18Negations strips parentheses and leading '!' and reports whether the
// number of negations is odd.
func c18Negations(e ast.Expr) (ast.Expr, bool) {
	neg := false
	for {
		e = core.Unparen(e)
		u, ok := e.(*ast.UnaryExpr)
		if !ok || u.Op != token.NOT {
			return e, neg
		}
		neg = !neg
		e = u.X
	}
}

// c18CondBlocks lists the live blocks that end in a two-way condition.
func c18CondBlocks(g *core.Graph) []*cfg.Block {
	var out []*cfg.Block
	for _, b := range g.C.Blocks {
		if !b.Live || len(b.Succs) != 2 || len(b.Nodes) == 0 {
			continue
		}
		if _, ok := b.Nodes[len(b.Nodes)-1].(ast.Expr); ok {
			out = append(out, b)
		}
	}
	return out
}

func c18CondOf(b *cfg.Block) ast.Expr { return b.Nodes[len(b.Nodes)-1].(ast.Expr) }

func c18CondPoint(b *cfg.Block) core.Point { return core.Point{B: b, I: len(b.Nodes) - 1} }

func c18Start(b *cfg.Block) *core.Point { return &core.Point{B: b, I: -1} }

func c18ConstString(info *types.Info, e ast.Expr) (string, bool) {
	tv, ok := info.Types[e]
	if !ok || tv.Value == nil {
		return "", false
	}
	s := tv.Value.ExactString()
	if len(s) >= 2 && s[0] == '"' {
		return strings.Trim(s, `"`), true
	}
	return "", false
}

// ---------------------------------------------------------------------------

func c18(c *core.Check) {
	c.Explain = "Decides, on every control-flow path of the current source of internal/tailer (and of logstream.New), structural necessary conditions of 'every matching path is tailed, once': (R1) TailPath looks the path up, starts the stream and inserts it in ONE write-locked region, and the 'already present' outcome of the lookup can reach neither logstream.New nor the insertion; (R2) every key that reaches TailPath from glob matching has passed filepath.Abs (directly, or because every pattern handed to filepath.Glob has); (R3) in doPatternGlob every match is filtered by Ignore before TailPath, the ignored outcome cannot reach TailPath, a non-ignored match cannot skip it, the loop visits every match, and Ignore — evaluated symbolically over all its paths — returns true exactly for: stat failure, directory, or ignore regexp set and matching the file's base name; (R4) the per-stream goroutine is started whenever a stream is inserted, removes exactly its own key, under the write lock, on every path, and only after the stream's channel is closed; (R5) every configured pattern reaches AddPattern, every file-like pattern reaches pollLogPattern, which globs once unconditionally and on every wake, and whose goroutine ends only on cancellation or in one-shot mode; (R6) the stream registered under key K is opened on K: TailPath passes the key to logstream.New and logstream.New opens the pathname it was given, not a component of its URL parse, when there is no URL scheme; (R7) every access to the stream map holds the map's mutex. NOT decided: what filepath.Glob/os.Stat return, symlink or hard-link aliases of one file under two names, the timing of polls, and what the streams do with the file (C16/C17/C19)."
	c.Assume = append(c.Assume,
		"filepath.Abs returns a cleaned absolute path and filepath.Glob of a cleaned absolute pattern returns cleaned absolute paths",
		"sync.RWMutex gives mutual exclusion; exits by panic are not considered",
		"two different cleaned absolute paths are different paths (aliases through links are outside the property)")

	streams := c18StreamsField(c)
	tp := c.MustFn("C18-R1", tailPath)
	if streams == nil {
		c.Undecided("C18-R1", "internal/tailer.Tailer", "-", "the field of type map[string]logstream.LogStream was not found (or is not unique) in tailer.Tailer")
		return
	}
	if tp == nil {
		return
	}
	c.Extra["stream_map_field"] = streams.Name()

	ins := c18R1(c, tp, streams)
	if ins != nil {
		c18R4(c, tp, streams, ins)
	}
	c18R7(c, streams, ins)
	c18R2(c, tp)
	c18R3(c, tp)
	c18R5(c, tp)
	c18R6b(c)
}

// c18Insert is what R1 extracts from TailPath and the other rules reuse.
type c18Insert struct {
	key    types.Object // the map key: a parameter of TailPath
	val    types.Object // the variable holding the new stream
	store  c18Access
	newPt  core.Point
	newC   *ast.CallExpr
	mutex  *types.Var
	lookup []c18Access
}

func c18R1(c *core.Check, tp *core.Func, streams *types.Var) *c18Insert {
	c.Rule("C18-R1", "CHECK-AND-INSERT: in TailPath (a) every path to logstream.New passes a lookup of the same key in the stream map; (b) the lookup's result is tested and its 'present' outcome reaches neither logstream.New nor the insertion; (c) lookup, logstream.New and insertion all hold the write lock of one mutex of the same Tailer; (d) that lock is not released anywhere between the lookup and the insertion; (e) the key is a parameter that is never reassigned and the value inserted is the result of that logstream.New call")
	c.Rule("C18-R6", "KEY-IS-PATH-READ: (a) TailPath passes its map key as the pathname argument of logstream.New; (b) in logstream.New every definition of the path handed to os.Stat / the file and fifo stream constructors that applies when the URL scheme is empty is the pathname parameter itself, not a field of url.Parse(pathname); (c) the failure of url.Parse(pathname) reaches a failing return only through the 'not absolute' outcome of filepath.IsAbs(pathname)")
	defer c.Floor("C18-R1", 8)
	g := tp.Graph()
	info := tp.Info()
	acc := c18Accesses(tp, streams)
	var stores, lookupsAll []c18Access
	for _, a := range acc {
		switch a.Kind {
		case "store":
			stores = append(stores, a)
		case "lookup":
			lookupsAll = append(lookupsAll, a)
		}
	}
	if len(stores) == 0 {
		c.Fail("C18-R1", tailPath+"|insert", pos(c, tp.Decl), "TailPath never inserts the new stream into the stream map: the next poll finds the path absent and starts another stream on it, so every line is delivered once per poll")
		return nil
	}
	if len(stores) > 1 {
		c.Undecided("C18-R1", tailPath+"|insert", pos(c, stores[1].Sel), "more than one insertion into the stream map in TailPath: shape outside the recognised family")
		return nil
	}
	S := stores[0]
	ins := &c18Insert{store: S}
	ins.key = identObj(info, S.Index)
	if _, isParam := c18IsParamOf(tp, ins.key); !isParam || tp.Lit != nil {
		c.Undecided("C18-R1", tailPath+"|key", pos(c, S.Sel), "the key of the insertion is not a parameter of TailPath")
		return nil
	}
	if d := c18Defs(tp, ins.key); len(d) > 0 {
		c.Undecided("C18-R1", tailPath+"|key", pos(c, d[0].Node), "the key parameter is reassigned inside TailPath: lookup, insertion and removal may use different values")
		return nil
	}
	c.Ok("C18-R1", tailPath+"|key", pos(c, S.Sel), "the key is the parameter "+ins.key.Name()+", never reassigned")
	// value inserted = result of logstream.New
	var newCall *ast.CallExpr
	if S.Value != nil {
		if call, ok := core.Unparen(S.Value).(*ast.CallExpr); ok && tp.CalleeID(call) == c18StreamNew {
			newCall = call
		} else if ins.val = identObj(info, S.Value); ins.val != nil {
			defs := c18Defs(tp, ins.val)
			if len(defs) == 1 && defs[0].Idx == 0 {
				if call, ok := core.Unparen(defs[0].Rhs).(*ast.CallExpr); ok && tp.CalleeID(call) == c18StreamNew {
					newCall = call
				}
			}
		}
	}
	if newCall == nil {
		c.Undecided("C18-R1", tailPath+"|value", pos(c, S.Sel), "the value inserted is not (a variable defined once by) a call of logstream.New")
		return nil
	}
	np, ok := g.PointOf(newCall)
	if !ok {
		c.Undecided("C18-R1", tailPath+"|value", pos(c, newCall), "logstream.New call not found in the CFG")
		return nil
	}
	ins.newPt, ins.newC = np, newCall
	c.Ok("C18-R1", tailPath+"|value", pos(c, newCall), "the stream inserted is the one started by logstream.New in this call")

	// R6a
	{
		var strArgs []ast.Expr
		for _, a := range newCall.Args {
			if c18IsString(info, a) {
				strArgs = append(strArgs, a)
			}
		}
		switch {
		case len(strArgs) != 1:
			c.Undecided("C18-R6", tailPath+"|New pathname", pos(c, newCall), fmt.Sprintf("logstream.New takes %d string arguments, expected exactly one (the pathname)", len(strArgs)))
		default:
			c.Verdict(identObj(info, strArgs[0]) == ins.key, "C18-R6", tailPath+"|New pathname", pos(c, strArgs[0]),
				"logstream.New is given the map key", "the stream inserted under the key "+ins.key.Name()+" is started on a different path ("+exprStr(strArgs[0])+"): the map no longer says which paths are being read, so a path can be read by two streams or by none")
		}
	}

	// (a) lookup dominates New
	for _, l := range lookupsAll {
		if identObj(info, l.Index) == ins.key {
			ins.lookup = append(ins.lookup, l)
		}
	}
	var lpts []core.Point
	for _, l := range ins.lookup {
		lpts = append(lpts, l.P)
	}
	if len(ins.lookup) == 0 && c18CallsMapReader(tp, streams) != "" {
		c.Undecided("C18-R1", tailPath+"|lookup dominates New", pos(c, newCall), "TailPath has no lookup of its own but calls "+c18CallsMapReader(tp, streams)+", which reads the stream map: shape outside the recognised family")
	} else if len(ins.lookup) == 0 {
		c.Fail("C18-R1", tailPath+"|lookup dominates New", pos(c, newCall), "TailPath starts a stream without looking the path up in the stream map: every poll (and every further pattern matching the file) starts one more stream on an already-tailed path and each line is delivered several times")
	} else if tr, found := pathAvoiding(g, nil, []core.Point{np}, lpts); found {
		c.Fail("C18-R1", tailPath+"|lookup dominates New", pos(c, newCall), "logstream.New can be reached without looking the path up in the stream map: an already-tailed path gets a second stream and its lines are delivered twice", tr...)
	} else {
		c.Ok("C18-R1", tailPath+"|lookup dominates New", pos(c, newCall), fmt.Sprintf("%d lookup(s) of the key on every path", len(ins.lookup)))
	}

	// (b) presence tests
	okObjs, valObjs := map[types.Object]bool{}, map[types.Object]bool{}
	lookupX := map[*ast.IndexExpr]bool{}
	for _, l := range ins.lookup {
		lookupX[l.IndexX] = true
		if as, ok := l.Node.(*ast.AssignStmt); ok && len(as.Rhs) == 1 && core.Unparen(as.Rhs[0]) == ast.Expr(l.IndexX) {
			if o := identObj(info, as.Lhs[0]); o != nil {
				valObjs[o] = true
			}
			if len(as.Lhs) == 2 {
				if o := identObj(info, as.Lhs[1]); o != nil {
					okObjs[o] = true
				}
			}
		}
	}
	type test struct {
		b       *cfg.Block
		present int
	}
	var tests []test
	for _, b := range c18CondBlocks(g) {
		e, neg := c18Negations(c18CondOf(b))
		present := -1
		if o := identObj(info, e); o != nil && okObjs[o] {
			present = 0
		} else if be, ok := e.(*ast.BinaryExpr); ok && (be.Op == token.NEQ || be.Op == token.EQL) {
			for _, pr := range [][2]ast.Expr{{be.X, be.Y}, {be.Y, be.X}} {
				if !isNilIdent(info, pr[1]) {
					continue
				}
				x := core.Unparen(pr[0])
				ix, isIx := x.(*ast.IndexExpr)
				if o := identObj(info, x); (o != nil && valObjs[o]) || (isIx && lookupX[ix]) {
					if be.Op == token.NEQ {
						present = 0
					} else {
						present = 1
					}
				}
			}
		}
		if present < 0 {
			continue
		}
		if neg {
			present = 1 - present
		}
		tests = append(tests, test{b, present})
	}
	if len(ins.lookup) == 0 {
		// already reported
	} else if len(tests) == 0 {
		c.Undecided("C18-R1", tailPath+"|present outcome", pos(c, ins.lookup[0].Sel), "the result of the lookup is not tested in a recognised form (ok flag, or value compared with nil)")
	} else {
		var condPts []core.Point
		bad := false
		for _, t := range tests {
			condPts = append(condPts, c18CondPoint(t.b))
			if tr, found := g.Search(core.Query{From: c18Start(t.b.Succs[t.present]), Goal: core.At(np, S.P)}); found {
				bad = true
				c.Fail("C18-R1", tailPath+"|present outcome", pos(c, c18CondOf(t.b)), "when the path is already in the stream map TailPath still goes on to start and insert a stream: the same path is tailed by two streams at once (the old one is merely forgotten) and every line is delivered twice", g.Trail(tr)...)
			}
		}
		for _, l := range ins.lookup {
			from := l.P
			if tr, found := pathAvoiding(g, &from, []core.Point{np}, condPts); found {
				bad = true
				c.Fail("C18-R1", tailPath+"|lookup tested", pos(c, l.Sel), "logstream.New can be reached after the lookup without testing its result", tr...)
			}
		}
		if !bad {
			c.Ok("C18-R1", tailPath+"|present outcome", pos(c, c18CondOf(tests[0].b)), fmt.Sprintf("%d test(s); the present outcome reaches neither logstream.New nor the insertion", len(tests)))
		}
	}

	// (c) one write lock over lookup, New, insertion
	held := g.MustHold()
	mus := c18HeldMutexes(tp, held, S.P, S.Base, "W")
	if len(mus) == 0 {
		c.Fail("C18-R1", tailPath+"|lock@insert", pos(c, S.Sel), "the stream map is written without holding the write lock of a mutex of the same Tailer (a read lock does not exclude other pollers): two pattern pollers that match the same new file both find it absent and both insert, and both streams deliver every line")
		if r := c18HeldMutexes(tp, held, S.P, S.Base, "R"); len(r) > 0 {
			ins.mutex = r[0] // the guard is known although held in the wrong mode
		}
		return ins
	}
	ins.mutex = mus[0]
	c.Extra["stream_map_mutex"] = ins.mutex.Name()
	c.Ok("C18-R1", tailPath+"|lock@insert", pos(c, S.Sel), "write lock "+S.Base+"."+ins.mutex.Name()+" held")
	for i, l := range ins.lookup {
		c.Verdict(c18HasVar(c18HeldMutexes(tp, held, l.P, l.Base, "W"), ins.mutex), "C18-R1", fmt.Sprintf("%s|lock@lookup#%d", tailPath, i+1), pos(c, l.Sel),
			"same write lock held", "the lookup that decides whether the path is already tailed is made without the write lock "+ins.mutex.Name()+" (a read lock does not exclude another poller doing the same): two pollers both find a new file absent and both start a stream on it")
	}
	c.Verdict(c18HasVar(c18HeldMutexes(tp, held, np, S.Base, "W"), ins.mutex), "C18-R1", tailPath+"|lock@New", pos(c, newCall),
		"same write lock held", "logstream.New runs outside the write lock "+ins.mutex.Name()+": the check and the insertion are not one critical section")

	// (d) no release between lookup and insertion
	bad := false
	for _, ev := range g.LockEvents() {
		if ev.Acquire || ev.Deferred {
			continue
		}
		v, b := c18FieldOf(info, core.RecvExpr(ev.Call))
		if v != ins.mutex || core.PathOf(b) != S.Base {
			continue
		}
		for _, l := range ins.lookup {
			from := l.P
			tr1, f1 := g.Search(core.Query{From: &from, Goal: core.At(ev.P)})
			up := ev.P
			tr2, f2 := g.Search(core.Query{From: &up, Goal: core.At(S.P)})
			if f1 && f2 {
				bad = true
				c.Fail("C18-R1", tailPath+"|no release between lookup and insert", pos(c, ev.Call), "the lock is released between the lookup and the insertion: two pollers whose patterns match the same new file can both find it absent, both start a stream and both insert — the file is tailed twice and every line delivered twice", append(g.Trail(tr1), g.Trail(tr2)...)...)
				break
			}
		}
	}
	if !bad {
		c.Ok("C18-R1", tailPath+"|no release between lookup and insert", pos(c, S.Sel), "no unlock on any path from the lookup to the insertion")
	}
	return ins
}

func c18R4(c *core.Check, tp *core.Func, streams *types.Var, ins *c18Insert) {
	c.Rule("C18-R4", "REMOVE-ON-COMPLETION: (a) every path from the insertion to a normal exit of TailPath starts the goroutine that ranges over the inserted stream's Lines(); in that goroutine (b) every path to its end passes a delete from the stream map, (c) no delete is reachable before the range loop has ended and the loop has no early exit, (d) the key deleted is TailPath's key parameter, (e) the delete holds the write lock of the same mutex as the insertion")
	defer c.Floor("C18-R4", 5)
	g := tp.Graph()
	var rem *core.Func
	var remRange *ast.RangeStmt
	var goPt core.Point
	n := 0
	for _, h := range g.Find(func(n ast.Node) bool { _, ok := n.(*ast.GoStmt); return ok }) {
		lit, ok := core.Unparen(h.N.(*ast.GoStmt).Call.Fun).(*ast.FuncLit)
		if !ok {
			continue
		}
		lf := c.Prog.FuncOf[lit]
		if lf == nil {
			continue
		}
		var rs0 *ast.RangeStmt
		for _, rs := range rangeStmts(lf) {
			call, ok := core.Unparen(rs.X).(*ast.CallExpr)
			if ok && lf.CalleeID(call) == c18LinesMethod && ins.val != nil && identObj(lf.Info(), core.RecvExpr(call)) == ins.val {
				rs0 = rs
			}
		}
		ds, us := c18DeleteSites(lf, streams)
		hasDel := len(ds)+len(us) > 0
		if rs0 != nil || hasDel {
			n++
			rem, remRange, goPt = lf, rs0, h.P
		}
	}
	if n == 0 {
		c.Fail("C18-R4", tailPath+"|remover", pos(c, tp.Decl), "TailPath starts no goroutine that drains the new stream and removes its path from the stream map: once the file is deleted the path stays 'tailed' forever and a file re-created under that name is never read")
		return
	}
	if n > 1 || remRange == nil {
		c.Undecided("C18-R4", tailPath+"|remover", pos(c, tp.Decl), "expected exactly one goroutine literal that ranges over the inserted stream's Lines(); shape outside the recognised family")
		return
	}
	c.Analysed(rem)
	// (a)
	from := ins.store.P
	if tr, found := pathAvoiding(g, &from, core.ExitPoints(normalExits(g)), []core.Point{goPt}); found {
		c.Fail("C18-R4", tailPath+"|goroutine started", pos(c, ins.store.Sel), "a stream is inserted in the map but TailPath can return without starting the goroutine that forwards its lines and removes it: the path stays in the map for ever and its lines go nowhere", tr...)
	} else {
		c.Ok("C18-R4", tailPath+"|goroutine started", pos(c, rem.Lit), "started on every path after the insertion")
	}
	lg := rem.Graph()
	dels, und := c18DeleteSites(rem, streams)
	if len(und) > 0 {
		c.Undecided("C18-R4", rem.Key+"|delete on every path", pos(c, rem.Lit), "the goroutine calls a helper that removes from the stream map only on some paths or in an unrecognised form: "+strings.Join(und, ", "))
		return
	}
	if len(dels) == 0 {
		c.Fail("C18-R4", rem.Key+"|delete on every path", pos(c, rem.Lit), "the per-stream goroutine never removes its path from the stream map: after the file is deleted and created again the path is still considered tailed and the new file is never read")
		return
	}
	var dpts []core.Point
	for _, d := range dels {
		dpts = append(dpts, d.P)
	}
	// (b)
	if tr, found := pathAvoiding(lg, nil, core.ExitPoints(normalExits(lg)), dpts); found {
		c.Fail("C18-R4", rem.Key+"|delete on every path", pos(c, rem.Lit), "the per-stream goroutine can end without removing its path from the stream map: when the file is deleted and later re-created the path is still considered tailed and the new file is never read", tr...)
	} else {
		c.Ok("C18-R4", rem.Key+"|delete on every path", pos(c, dels[0].At), fmt.Sprintf("%d delete site(s), none avoidable", len(dels)))
	}
	// (c)
	_, _, done := loopBlocks(lg, remRange)
	if done == nil {
		c.Undecided("C18-R4", rem.Key+"|delete after completion", pos(c, remRange), "blocks of the range loop not found")
	} else {
		bad := false
		if tr, found := lg.Search(core.Query{Goal: core.At(dpts...), Avoid: func(p core.Point) bool { return p.B == done }}); found {
			bad = true
			c.Fail("C18-R4", rem.Key+"|delete after completion", pos(c, dels[0].At), "the path can be removed from the stream map while its stream is still open (the delete is reachable before the range over Lines() has ended): the next poll starts a second stream on the same path and both deliver every line", lg.Trail(tr)...)
		}
		if early := earlyLoopExits(c, lg, remRange); len(early) > 0 {
			bad = true
			c.Fail("C18-R4", rem.Key+"|delete after completion", pos(c, remRange), "the goroutine can leave the loop over the stream's lines before the stream has closed its channel ("+early[0]+"): the path is removed (or the goroutine gone) while the stream is still reading the file")
		}
		if !bad {
			c.Ok("C18-R4", rem.Key+"|delete after completion", pos(c, remRange), "deletes only after the range over Lines() has ended; no early loop exit")
		}
	}
	// (d), (e)
	for i, d := range dels {
		via := ""
		if d.Via != "" {
			via = " (through " + d.Via + ")"
		}
		keyStr := "an expression that is not a parameter of the helper"
		if d.Key != nil {
			keyStr = exprStr(d.Key)
		}
		c.Verdict(d.Key != nil && identObj(rem.Info(), d.Key) == ins.key, "C18-R4", fmt.Sprintf("%s|delete#%d key", rem.Key, i+1), pos(c, d.At),
			"deletes TailPath's own key"+via, "the goroutine removes the key "+keyStr+" instead of the key it was registered under: its own path is never removed (a re-created file is never read) and a live stream's entry may be removed (that path then gets a second stream)")
		okLock := ins.mutex != nil && d.Base == ins.store.Base && d.Locked(ins.mutex)
		c.Verdict(okLock, "C18-R4", fmt.Sprintf("%s|delete#%d lock", rem.Key, i+1), pos(c, d.At),
			"write lock held"+via, "the removal from the stream map does not hold the write lock that TailPath's check-and-insert holds: a concurrent TailPath can see or corrupt a half-updated map (Go maps are not safe for concurrent writes)")
	}
}

func c18R7(c *core.Check, streams *types.Var, ins *c18Insert) {
	c.Rule("C18-R7", "GUARDED-MAP: every read of the stream map in shipped code holds (at least) the read lock, every write the write lock, of the mutex that TailPath's check-and-insert holds, on the same Tailer")
	defer c.Floor("C18-R7", 4)
	if ins == nil || ins.mutex == nil {
		c.Undecided("C18-R7", "mutex", "-", "the mutex guarding the stream map could not be extracted from TailPath (see C18-R1)")
		return
	}
	for _, sf := range shipped(c) {
		acc := c18Accesses(sf, streams)
		if len(acc) == 0 {
			continue
		}
		c.Analysed(sf)
		held := sf.Graph().MustHold()
		for i, a := range acc {
			mode := "R"
			if a.Kind == "store" || a.Kind == "delete" {
				mode = "W"
			}
			ok := c18HasVar(c18HeldMutexes(sf, held, a.P, a.Base, mode), ins.mutex)
			if !ok && sf.Lit == nil && a.Base == recvIdent(sf) && !ast.IsExported(sf.Decl.Name.Name) {
				// delegated lock: an unexported helper all of whose callers hold the lock on the receiver they pass
				n, all := 0, true
				for _, cf := range shipped(c) {
					ch := cf.Graph().MustHold()
					for _, h := range cf.Graph().Calls(func(id string, call *ast.CallExpr) bool { return cf.CalleeFunc(call) == sf }) {
						n++
						r := core.RecvExpr(h.N.(*ast.CallExpr))
						if r == nil || !c18HasVar(c18HeldMutexes(cf, ch, h.P, core.PathOf(r), mode), ins.mutex) {
							all = false
						}
					}
				}
				ok = n > 0 && all
			}
			c.Verdict(ok, "C18-R7", fmt.Sprintf("%s|%s#%d", sf.Key, a.Kind, i+1), pos(c, a.Sel), mode+" lock "+ins.mutex.Name()+" held",
				fmt.Sprintf("the stream map is accessed (%s) without holding %s.%s in mode %s: it races with TailPath's check-and-insert", a.Kind, a.Base, ins.mutex.Name(), mode))
		}
	}
}

// ---------------------------------------------------------------------------
// R2: canonical keys

// c18Canon decides whether a string expression is certainly a cleaned
// absolute path.  Verdicts: +1 canonical, -1 certainly not made absolute (a
// raw source reaches it), 0 unknown (a construct outside the family).
type c18Canon struct {
	c        *core.Check
	visiting map[c18Visit]bool
	why      []string
}

type c18Visit struct {
	v   types.Object
	use ast.Node
}

func (k *c18Canon) note(format string, a ...any) { k.why = append(k.why, fmt.Sprintf(format, a...)) }

// globCall returns the filepath.Glob call that defines the slice expression e (directly or through a single-definition local).
func c18GlobCall(f *core.Func, e ast.Expr) *ast.CallExpr {
	e = core.Unparen(e)
	if call, ok := e.(*ast.CallExpr); ok {
		if f.CalleeID(call) == "path/filepath.Glob" && len(call.Args) == 1 {
			return call
		}
		return nil
	}
	obj := identObj(f.Info(), e)
	if obj == nil {
		return nil
	}
	defs := c18Defs(f, obj)
	if len(defs) != 1 || defs[0].Idx != 0 || defs[0].Rhs == nil {
		return nil
	}
	if call, ok := core.Unparen(defs[0].Rhs).(*ast.CallExpr); ok && f.CalleeID(call) == "path/filepath.Glob" && len(call.Args) == 1 {
		return call
	}
	return nil
}

// expr decides e as used at node use inside f.
func (k *c18Canon) expr(f *core.Func, e ast.Expr, use ast.Node) int {
	e = core.Unparen(e)
	switch x := e.(type) {
	case *ast.CallExpr:
		switch f.CalleeID(x) {
		case "path/filepath.Abs":
			return +1
		case "path/filepath.Clean":
			if len(x.Args) == 1 {
				return k.expr(f, x.Args[0], use) // Clean keeps a cleaned absolute path as it is
			}
		}
		k.note("%s: result of %s", k.c.Prog.Position(x.Pos()), f.CalleeID(x))
		return 0
	case *ast.BasicLit:
		k.note("%s: literal %s", k.c.Prog.Position(x.Pos()), x.Value)
		return -1
	case *ast.Ident:
		obj := identObj(f.Info(), x)
		v, isVar := obj.(*types.Var)
		if !isVar {
			return 0
		}
		if v.IsField() || v.Parent() == v.Pkg().Scope() {
			k.note("%s: %s is not a local", k.c.Prog.Position(x.Pos()), v.Name())
			return -1
		}
		return k.variable(f, v, use)
	case *ast.SelectorExpr:
		if fld, _ := c18FieldOf(f.Info(), x); fld != nil {
			k.note("%s: field %s (configuration as given by the user)", k.c.Prog.Position(x.Pos()), fld.Name())
			return -1
		}
	}
	k.note("%s: expression %s", k.c.Prog.Position(e.Pos()), exprStr(e))
	return 0
}

func c18Min(a, b int) int {
	// combine verdicts of alternatives that may all reach the use: -1 dominates, then 0
	if a == -1 || b == -1 {
		return -1
	}
	if a == 0 || b == 0 {
		return 0
	}
	return +1
}

func (k *c18Canon) variable(f *core.Func, v *types.Var, use ast.Node) int {
	vk := c18Visit{v, use}
	if k.visiting[vk] {
		return +1 // the same use reached again through a cycle of definitions: no new source
	}
	k.visiting[vk] = true
	defer delete(k.visiting, vk)
	// the function (declaration or literal) that owns the use, and whether v lives in it
	defs := c18Defs(f, v)
	pidx, isParam := c18IsParamOf(f, v)
	g := f.Graph()
	flow := use != nil
	var upt core.Point
	if flow {
		p, ok := g.PointOf(use)
		flow = ok
		upt = p
	}
	var dpts []core.Point
	if flow {
		if !(f.Body.Pos() <= v.Pos() && v.Pos() < f.Body.End()) && !(f.Lit == nil && isParam) {
			flow = false // captured variable: be flow-insensitive
		}
		for _, d := range defs {
			var anchor ast.Node = d.Node
			if d.Range != nil {
				// the range variables are (re)defined at the loop head: use the key/value identifier node
				if d.IsVal {
					anchor = d.Range.Value
				} else {
					anchor = d.Range.Key
				}
			}
			p, ok := g.PointOf(anchor)
			if !ok {
				flow = false
				break
			}
			dpts = append(dpts, p)
		}
	}
	res := +1
	nreach := 0
	for i, d := range defs {
		if flow {
			var avoid []core.Point
			for j, p := range dpts {
				if j != i && p != upt {
					avoid = append(avoid, p)
				}
			}
			from := dpts[i]
			if dpts[i] != upt {
				if _, reach := pathAvoiding(g, &from, []core.Point{upt}, avoid); !reach {
					continue
				}
			} else if _, reach := g.Search(core.Query{From: &from, Goal: core.At(upt), Avoid: core.At(avoid...)}); !reach {
				continue // the use is inside the defining statement itself: only a loop brings this definition back
			}
		}
		nreach++
		res = c18Min(res, k.def(f, d))
	}
	// the initial value
	initialReaches := true
	if flow {
		var avoid []core.Point
		for _, p := range dpts {
			if p != upt {
				avoid = append(avoid, p)
			}
		}
		_, initialReaches = pathAvoiding(g, nil, []core.Point{upt}, avoid)
	} else if !isParam && len(defs) > 0 {
		initialReaches = false // a local is always defined before use
	}
	if initialReaches {
		if !isParam {
			if nreach == 0 {
				k.note("%s: %s has no definition", k.c.Prog.Position(v.Pos()), v.Name())
				return 0
			}
			return res
		}
		res = c18Min(res, k.param(f, v, pidx))
	}
	return res
}

func (k *c18Canon) def(f *core.Func, d c18Def) int {
	switch {
	case d.Range != nil:
		if !d.IsVal {
			return 0
		}
		gc := c18GlobCall(f, d.Range.X)
		if gc == nil {
			k.note("%s: ranges over %s, not over a filepath.Glob result", k.c.Prog.Position(d.Range.Pos()), exprStr(d.Range.X))
			return -1
		}
		// Glob returns cleaned absolute paths iff its pattern is cleaned and absolute
		var use ast.Node = gc
		return k.expr(f, gc.Args[0], use)
	case d.Rhs == nil:
		return 0
	case d.Idx != 0:
		return 0
	default:
		if call, ok := core.Unparen(d.Rhs).(*ast.CallExpr); ok && f.CalleeID(call) == "path/filepath.Abs" {
			return +1
		}
		return k.expr(f, d.Rhs, d.Node)
	}
}

// param: a parameter is canonical iff every call site in shipped code passes a canonical argument.
func (k *c18Canon) param(f *core.Func, v *types.Var, idx int) int {
	decl := k.c.Prog.FuncOf[f.Decl]
	if decl == nil {
		return 0
	}
	res := +1
	n := 0
	for _, sf := range shipped(k.c) {
		core.InspectNoLit(sf.Body, func(x ast.Node) bool {
			call, ok := x.(*ast.CallExpr)
			if !ok || sf.CalleeFunc(call) != decl || idx >= len(call.Args) {
				return true
			}
			n++
			r := k.expr(sf, call.Args[idx], call)
			if r != +1 {
				k.note("%s: call of %s passes %s", k.c.Prog.Position(call.Pos()), decl.Key, exprStr(call.Args[idx]))
			}
			res = c18Min(res, r)
			return true
		})
	}
	if n == 0 {
		k.note("parameter %s of %s has no call site in shipped code", v.Name(), decl.Key)
		return 0
	}
	return res
}

func c18R2(c *core.Check, tp *core.Func) {
	c.Rule("C18-R2", "ONE-CANONICAL-KEY: at every call of TailPath whose argument derives from a filepath.Glob match, the argument is certainly a cleaned absolute path: it is the result of filepath.Abs, or the match of a Glob whose pattern is (on every definition reaching it, through parameters and every call site) the result of filepath.Abs. Other call sites (socket URL, stdin) are listed as notes")
	defer c.Floor("C18-R2", 3)
	nglob := 0
	var sites []string
	for _, sf := range shipped(c) {
		if core.Rel(sf.Pkg.PkgPath) != "internal/tailer" {
			continue
		}
		k := 0
		core.InspectNoLit(sf.Body, func(x ast.Node) bool {
			call, ok := x.(*ast.CallExpr)
			if !ok || sf.CalleeFunc(call) != tp || len(call.Args) != 1 {
				return true
			}
			k++
			c.Analysed(sf)
			key := fmt.Sprintf("%s|TailPath#%d", sf.Key, k)
			root := c18Root(sf, call.Args[0], 0)
			var fromGlob *ast.RangeStmt
			for _, d := range c18Defs(sf, root) {
				if d.Range != nil && d.IsVal && c18GlobCall(sf, d.Range.X) != nil {
					fromGlob = d.Range
				}
			}
			if fromGlob == nil {
				sites = append(sites, key+": "+exprStr(call.Args[0])+" (not a glob match)")
				c.Note("C18-R2", key, pos(c, call), "argument "+exprStr(call.Args[0])+" does not derive from a glob match (socket URL or stdin): kept as given")
				return true
			}
			nglob++
			cn := &c18Canon{c: c, visiting: map[c18Visit]bool{}}
			r := cn.expr(sf, call.Args[0], call)
			sites = append(sites, fmt.Sprintf("%s: %s (glob match, canonical=%d)", key, exprStr(call.Args[0]), r))
			switch r {
			case +1:
				c.Ok("C18-R2", key, pos(c, call), "the key is a cleaned absolute path on every definition reaching the call")
			case -1:
				c.Fail("C18-R2", key, pos(c, call), "a glob match reaches TailPath without having been made absolute ("+strings.Join(c18Uniq(cn.why), "; ")+"): a relative and an absolute pattern (or two spellings such as ./d/* and d/*) that match the same file give two different map keys, so the file is tailed by two streams and every line is delivered twice")
			default:
				c.Undecided("C18-R2", key, pos(c, call), "cannot decide whether the key is canonical: "+strings.Join(c18Uniq(cn.why), "; "))
			}
			return true
		})
		// calls inside literals of sf are visited when the literal itself comes up in shipped()
	}
	c.Extra["tailpath_call_sites"] = sites
	if nglob == 0 {
		c.Undecided("C18-R2", "glob sites", "-", "no TailPath call fed by a filepath.Glob match was found")
	}
}

// ---------------------------------------------------------------------------
// R3: the filter

func c18R3(c *core.Check, tp *core.Func) {
	c.Rule("C18-R3", "FILTER: in doPatternGlob, inside the loop over the filepath.Glob matches, (a) every path from the start of an iteration to TailPath passes a test of Ignore(match); (b) the 'ignored' outcome of that test cannot reach TailPath in the same iteration; (c) the 'not ignored' outcome cannot get back to the loop head without TailPath except through a failed filepath.Abs; (d) the loop has no early exit, so every match is visited; (e) TailPath's argument derives from the match. Ignore itself, evaluated symbolically over all its paths (callees inlined), returns true exactly when: filepath.Abs fails, or os.Stat fails, or the path is a directory, or the ignore regexp is set and matches the file's BASE NAME")
	defer c.Floor("C18-R3", 15)
	dg := c.MustFn("C18-R3", c18PatternGlob)
	ig := c.MustFn("C18-R3", c18IgnoreFn)
	if dg == nil || ig == nil {
		return
	}
	g := dg.Graph()
	info := dg.Info()
	var loop *ast.RangeStmt
	for _, rs := range rangeStmts(dg) {
		if c18GlobCall(dg, rs.X) != nil {
			if loop != nil {
				c.Undecided("C18-R3", c18PatternGlob+"|loop", pos(c, rs), "more than one loop over glob matches")
				return
			}
			loop = rs
		}
	}
	if loop == nil {
		c.Undecided("C18-R3", c18PatternGlob+"|loop", pos(c, dg.Decl), "no loop over the result of filepath.Glob found")
		return
	}
	match := identObj(info, loop.Value)
	head, body, _ := loopBlocks(g, loop)
	if match == nil || head == nil || body == nil {
		c.Undecided("C18-R3", c18PatternGlob+"|loop", pos(c, loop), "the loop does not bind the match to a variable, or its blocks were not found")
		return
	}
	tails := inside(g.Calls(func(id string, call *ast.CallExpr) bool { return dg.CalleeFunc(call) == tp }), loop)
	if len(tails) == 0 {
		c.Fail("C18-R3", c18PatternGlob+"|TailPath", pos(c, loop), "the loop over the glob matches never calls TailPath: no matching file is ever tailed")
		return
	}
	tpts := core.HitPoints(tails)
	// (e)
	for i, t := range tails {
		call := t.N.(*ast.CallExpr)
		c.Verdict(len(call.Args) == 1 && c18Root(dg, call.Args[0], 0) == match, "C18-R3", fmt.Sprintf("%s|TailPath#%d argument", c18PatternGlob, i+1), pos(c, call),
			"derives from the match", "the path tailed ("+exprStr(call.Args[0])+") is not derived from the glob match of this iteration: the files that match are not the ones that are tailed")
	}
	// the Ignore tests
	isIgnoreOfMatch := func(e ast.Expr) bool {
		e = core.Unparen(e)
		if o := identObj(info, e); o != nil {
			if d := c18Defs(dg, o); len(d) == 1 && d[0].Rhs != nil && d[0].Idx == 0 {
				e = core.Unparen(d[0].Rhs)
			}
		}
		call, ok := e.(*ast.CallExpr)
		return ok && dg.CalleeFunc(call) == ig && len(call.Args) == 1 && c18Root(dg, call.Args[0], 0) == match
	}
	type test struct {
		b       *cfg.Block
		ignored int
	}
	var tests []test
	for _, b := range c18CondBlocks(g) {
		e, neg := c18Negations(c18CondOf(b))
		if !isIgnoreOfMatch(e) {
			continue
		}
		t := test{b, 0}
		if neg {
			t.ignored = 1
		}
		tests = append(tests, t)
	}
	avoidHead := func(p core.Point) bool { return p.B == head }
	if len(tests) == 0 {
		c.Fail("C18-R3", c18PatternGlob+"|filter dominates", pos(c, tails[0].N), "no test of Ignore(match) guards TailPath in the loop over the glob matches: directories and files whose name matches the ignore pattern are handed to TailPath")
	} else {
		var cps []core.Point
		for _, t := range tests {
			cps = append(cps, c18CondPoint(t.b))
		}
		if tr, found := pathAvoiding(g, c18Start(body), tpts, cps); found {
			c.Fail("C18-R3", c18PatternGlob+"|filter dominates", pos(c, tails[0].N), "a glob match can reach TailPath without having been tested by Ignore: directories and ignored files are tailed on that path", tr...)
		} else {
			c.Ok("C18-R3", c18PatternGlob+"|filter dominates", pos(c, c18CondOf(tests[0].b)), fmt.Sprintf("%d Ignore test(s) on every path to TailPath", len(tests)))
		}
		badB, badC := false, false
		for _, t := range tests {
			if tr, found := g.Search(core.Query{From: c18Start(t.b.Succs[t.ignored]), Goal: core.At(tpts...), Avoid: avoidHead}); found {
				badB = true
				c.Fail("C18-R3", c18PatternGlob+"|ignored outcome", pos(c, c18CondOf(t.b)), "a match for which Ignore answered true (directory, vanished file, or name matching the ignore pattern) still reaches TailPath", g.Trail(tr)...)
			}
			// (c): not ignored -> TailPath unless Abs failed
			absErrEdge := func(b *cfg.Block, si int) bool {
				if si != 0 || len(b.Succs) != 2 || len(b.Nodes) == 0 {
					return false
				}
				be, ok := b.Nodes[len(b.Nodes)-1].(*ast.BinaryExpr)
				if !ok || be.Op != token.NEQ {
					return false
				}
				for _, pr := range [][2]ast.Expr{{be.X, be.Y}, {be.Y, be.X}} {
					if !isNilIdent(info, pr[1]) {
						continue
					}
					defs := c18Defs(dg, identObj(info, pr[0]))
					if len(defs) == 0 {
						return false
					}
					for _, d := range defs {
						call, ok := core.Unparen(d.Rhs).(*ast.CallExpr)
						if !ok || dg.CalleeID(call) != "path/filepath.Abs" {
							return false
						}
					}
					return true
				}
				return false
			}
			goal := func(p core.Point) bool { return p.B == head }
			if tr, found := g.Search(core.Query{From: c18Start(t.b.Succs[1-t.ignored]), Goal: goal, Avoid: core.At(tpts...), AvoidEdge: absErrEdge}); found {
				badC = true
				c.Fail("C18-R3", c18PatternGlob+"|not-ignored outcome", pos(c, c18CondOf(t.b)), "a match that Ignore did not reject can be skipped without calling TailPath (other than because filepath.Abs failed): an existing regular file that matches the pattern is never tailed", g.Trail(tr)...)
			}
		}
		if !badB {
			c.Ok("C18-R3", c18PatternGlob+"|ignored outcome", pos(c, c18CondOf(tests[0].b)), "the ignored outcome goes straight back to the loop head")
		}
		if !badC {
			c.Ok("C18-R3", c18PatternGlob+"|not-ignored outcome", pos(c, c18CondOf(tests[0].b)), "every non-ignored match reaches TailPath (or fails filepath.Abs)")
		}
	}
	// (d)
	if early := earlyLoopExits(c, g, loop); len(early) > 0 {
		c.Fail("C18-R3", c18PatternGlob+"|every match visited", pos(c, loop), "the loop over the glob matches can stop before the last match ("+early[0]+"): the remaining matching files are not tailed by this poll — and, if the cause persists (e.g. one unreadable file), by no later poll either")
	} else {
		c.Ok("C18-R3", c18PatternGlob+"|every match visited", pos(c, loop), "no early exit from the loop")
	}

	c18IgnoreTable(c, ig)
	c18IgnoreMemoless(c, ig)
}

// c18IgnoreMemoless: Ignore must answer from the file system as it is now.
// It (with the module functions it calls) may not read a struct field or map
// that it also writes: such a memo makes the answer depend on an earlier state
// of the file system.
func c18IgnoreMemoless(c *core.Check, ig *core.Func) {
	closure := []*core.Func{ig}
	seen := map[*core.Func]bool{ig: true}
	for i := 0; i < len(closure); i++ {
		for _, cf := range closure[i].Callees() {
			if !seen[cf] {
				seen[cf] = true
				closure = append(closure, cf)
			}
		}
	}
	type use struct{ w, r string }
	uses := map[*types.Var]*use{}
	var order []*types.Var
	get := func(v *types.Var) *use {
		if uses[v] == nil {
			uses[v] = &use{}
			order = append(order, v)
		}
		return uses[v]
	}
	for _, f := range closure {
		info := f.Info()
		written := map[ast.Node]bool{} // selector nodes that are write targets
		fieldOfTarget := func(e ast.Expr) (*types.Var, *ast.SelectorExpr) {
			e = core.Unparen(e)
			if ix, ok := e.(*ast.IndexExpr); ok {
				e = core.Unparen(ix.X)
			}
			if v, _ := c18FieldOf(info, e); v != nil {
				return v, e.(*ast.SelectorExpr)
			}
			return nil, nil
		}
		ast.Inspect(f.Body, func(n ast.Node) bool {
			switch x := n.(type) {
			case *ast.AssignStmt:
				for _, l := range x.Lhs {
					if v, sel := fieldOfTarget(l); v != nil {
						written[sel] = true
						if x.Tok == token.ASSIGN || x.Tok == token.DEFINE {
							get(v).w = c.Prog.Position(x.Pos())
						}
					}
				}
			case *ast.IncDecStmt:
				if _, sel := fieldOfTarget(x.X); sel != nil {
					written[sel] = true // a counter: neither a memo write nor a read that decides anything
				}
			case *ast.CallExpr:
				if f.CalleeID(x) == "builtin.delete" && len(x.Args) == 2 {
					if v, sel := fieldOfTarget(x.Args[0]); v != nil {
						written[sel] = true
						get(v).w = c.Prog.Position(x.Pos())
					}
				}
			}
			return true
		})
		ast.Inspect(f.Body, func(n ast.Node) bool {
			if sel, ok := n.(*ast.SelectorExpr); ok && !written[sel] {
				if v, _ := c18FieldOf(info, sel); v != nil {
					if _, isMutex := lockFieldType(v); !isMutex {
						get(v).r = c.Prog.Position(sel.Pos())
					}
				}
			}
			return true
		})
	}
	bad := false
	for _, v := range order {
		u := uses[v]
		if u.w != "" && u.r != "" {
			bad = true
			c.Fail("C18-R3", c18IgnoreFn+"|remembers "+v.Name(), u.w, "Ignore (with its helpers) writes the field "+v.Name()+" at "+u.w+" and reads it at "+u.r+": its answer depends on what an earlier poll saw, not on the file system now — a path that was once rejected (a directory, say) stays rejected after a regular file has been created under that name, so an existing regular file that matches a pattern and is not ignored is never tailed")
		}
	}
	if !bad {
		c.Ok("C18-R3", c18IgnoreFn+"|memoless", pos(c, ig.Decl), fmt.Sprintf("%d function(s) reachable from Ignore; no field is both written and read by them", len(closure)))
	}
}

// lockFieldType reports whether a field is a sync.Mutex / sync.RWMutex.
func lockFieldType(v *types.Var) (string, bool) {
	if n, ok := v.Type().(*types.Named); ok && n.Obj().Pkg() != nil && n.Obj().Pkg().Path() == "sync" {
		return n.Obj().Name(), n.Obj().Name() == "Mutex" || n.Obj().Name() == "RWMutex"
	}
	return "", false
}

// ---------------------------------------------------------------------------
// symbolic evaluation of Ignore

const (
	c18AbsErr  = iota // filepath.Abs(path) failed
	c18StatErr        // os.Stat(path) failed
	c18IsDir          // the path is a directory
	c18ReSet          // the ignore regexp is configured (non-nil)
	c18ReMatch        // the regexp matches the name it is given
	c18NAtoms
)

// c18B is a boolean function of the atoms.
type c18B struct {
	f     func(a uint) bool
	atoms uint // atoms the function mentions
}

func c18Const(v bool) *c18B { return &c18B{f: func(uint) bool { return v }} }
func c18Atom(i int) *c18B {
	return &c18B{f: func(a uint) bool { return a&(1<<uint(i)) != 0 }, atoms: 1 << uint(i)}
}
func c18Not(x *c18B) *c18B { return &c18B{f: func(a uint) bool { return !x.f(a) }, atoms: x.atoms} }
func c18And(x, y *c18B) *c18B {
	return &c18B{f: func(a uint) bool { return x.f(a) && y.f(a) }, atoms: x.atoms | y.atoms}
}
func c18Or(x, y *c18B) *c18B {
	return &c18B{f: func(a uint) bool { return x.f(a) || y.f(a) }, atoms: x.atoms | y.atoms}
}

type c18Val struct {
	kind string // "path", "err", "fi", "mode", "name", "re", "bool", "nil", "unknown"
	b    *c18B
	atom int
}

var c18Unknown = c18Val{kind: "unknown"}

type c18Eval struct {
	c         *core.Check
	problems  []string // constructs outside the family
	wholePath []string // positions where the regexp is matched against the whole path
	depth     int
	npaths    int
}

func (ev *c18Eval) problem(n ast.Node, format string, a ...any) {
	ev.problems = append(ev.problems, ev.c.Prog.Position(n.Pos())+": "+fmt.Sprintf(format, a...))
}

type c18Env map[types.Object]c18Val

func (e c18Env) clone() c18Env {
	n := c18Env{}
	for k, v := range e {
		n[k] = v
	}
	return n
}

// run evaluates a bool-returning function on all its paths; the result is the
// disjunction over the paths of (path condition AND returned value).
func (ev *c18Eval) run(f *core.Func, env c18Env) (*c18B, bool) {
	g := f.Graph()
	total := c18Const(false)
	covered := c18Const(false)
	ok := true
	var walk func(b *cfg.Block, env c18Env, cond *c18B, on map[*cfg.Block]bool)
	walk = func(b *cfg.Block, env c18Env, cond *c18B, on map[*cfg.Block]bool) {
		if !ok {
			return
		}
		if on[b] {
			ev.problem(f.Body, "loop in %s", f.Key)
			ok = false
			return
		}
		on[b] = true
		defer delete(on, b)
		for i, n := range b.Nodes {
			last := i == len(b.Nodes)-1
			switch x := n.(type) {
			case *ast.AssignStmt:
				ev.assign(f, x, env)
			case *ast.ExprStmt, *ast.EmptyStmt:
				// logging and other calls whose result is dropped do not change the values tracked
			case *ast.DeclStmt:
			case *ast.ValueSpec:
				for _, nm := range x.Names {
					if o := f.Info().Defs[nm]; o != nil {
						env[o] = c18Unknown
					}
				}
				if len(x.Values) == len(x.Names) {
					for j, nm := range x.Names {
						if o := f.Info().Defs[nm]; o != nil {
							env[o] = ev.expr(f, x.Values[j], env)
						}
					}
				}
			case *ast.ReturnStmt:
				if len(x.Results) != 1 {
					ev.problem(x, "return with %d results", len(x.Results))
					ok = false
					return
				}
				v := ev.expr(f, x.Results[0], env)
				if v.kind != "bool" {
					ev.problem(x, "returned expression %s is outside the recognised family", exprStr(x.Results[0]))
					ok = false
					return
				}
				ev.npaths++
				total = c18Or(total, c18And(cond, v.b))
				covered = c18Or(covered, cond)
				return
			case ast.Expr:
				if last && len(b.Succs) == 2 {
					v := ev.expr(f, x, env)
					if v.kind != "bool" {
						ev.problem(x, "condition %s is outside the recognised family", exprStr(x))
						ok = false
						return
					}
					walk(b.Succs[0], env.clone(), c18And(cond, v.b), on)
					walk(b.Succs[1], env.clone(), c18And(cond, c18Not(v.b)), on)
					return
				}
				// an expression evaluated for a switch tag or similar: ignored
			default:
				ev.problem(n, "statement outside the recognised family (%T)", n)
				ok = false
				return
			}
		}
		switch len(b.Succs) {
		case 1:
			walk(b.Succs[0], env, cond, on)
		case 0:
			ev.problem(f.Body, "a path of %s ends without returning a value (panic or no-return call)", f.Key)
			ok = false
		default:
			ev.problem(f.Body, "branch without a recognised condition in %s", f.Key)
			ok = false
		}
	}
	walk(g.C.Blocks[0], env, c18Const(true), map[*cfg.Block]bool{})
	if !ok {
		return nil, false
	}
	total.atoms |= covered.atoms
	return total, true
}

func (ev *c18Eval) assign(f *core.Func, as *ast.AssignStmt, env c18Env) {
	info := f.Info()
	bind := func(l ast.Expr, v c18Val) {
		if o := identObj(info, l); o != nil {
			env[o] = v
		}
	}
	switch {
	case len(as.Rhs) == len(as.Lhs):
		vals := make([]c18Val, len(as.Rhs))
		for i, r := range as.Rhs {
			vals[i] = ev.expr(f, r, env)
		}
		for i, l := range as.Lhs {
			bind(l, vals[i])
		}
	case len(as.Rhs) == 1:
		var vals []c18Val
		if call, ok := core.Unparen(as.Rhs[0]).(*ast.CallExpr); ok {
			vals = ev.call(f, call, env)
		}
		for i, l := range as.Lhs {
			if i < len(vals) {
				bind(l, vals[i])
			} else {
				bind(l, c18Unknown)
			}
		}
	}
}

func (ev *c18Eval) expr(f *core.Func, e ast.Expr, env c18Env) c18Val {
	info := f.Info()
	e = core.Unparen(e)
	if v, ok := constBool(info, e); ok {
		return c18Val{kind: "bool", b: c18Const(v)}
	}
	if isNilIdent(info, e) {
		return c18Val{kind: "nil"}
	}
	switch x := e.(type) {
	case *ast.Ident:
		if o := identObj(info, x); o != nil {
			if v, ok := env[o]; ok {
				return v
			}
		}
	case *ast.UnaryExpr:
		if x.Op == token.NOT {
			if v := ev.expr(f, x.X, env); v.kind == "bool" {
				return c18Val{kind: "bool", b: c18Not(v.b)}
			}
		}
	case *ast.BinaryExpr:
		switch x.Op {
		case token.LAND, token.LOR:
			l, r := ev.expr(f, x.X, env), ev.expr(f, x.Y, env)
			if l.kind == "bool" && r.kind == "bool" {
				if x.Op == token.LAND {
					return c18Val{kind: "bool", b: c18And(l.b, r.b)}
				}
				return c18Val{kind: "bool", b: c18Or(l.b, r.b)}
			}
		case token.EQL, token.NEQ:
			l, r := ev.expr(f, x.X, env), ev.expr(f, x.Y, env)
			if l.kind == "nil" {
				l, r = r, l
			}
			if r.kind == "nil" {
				var b *c18B
				switch l.kind {
				case "err":
					b = c18Atom(l.atom)
				case "re":
					b = c18Atom(c18ReSet)
				}
				if b != nil {
					if x.Op == token.EQL {
						b = c18Not(b)
					}
					return c18Val{kind: "bool", b: b}
				}
			}
			if l.kind == "bool" && r.kind == "bool" {
				eq := c18Or(c18And(l.b, r.b), c18And(c18Not(l.b), c18Not(r.b)))
				if x.Op == token.NEQ {
					eq = c18Not(eq)
				}
				return c18Val{kind: "bool", b: eq}
			}
		}
	case *ast.SelectorExpr:
		if fld, _ := c18FieldOf(info, x); fld != nil {
			if p, ok := fld.Type().(*types.Pointer); ok {
				if n, ok := p.Elem().(*types.Named); ok && n.Obj().Name() == "Regexp" && n.Obj().Pkg() != nil && n.Obj().Pkg().Path() == "regexp" {
					return c18Val{kind: "re"}
				}
			}
		}
	case *ast.CallExpr:
		if vs := ev.call(f, x, env); len(vs) > 0 {
			return vs[0]
		}
	}
	return c18Unknown
}

func (ev *c18Eval) call(f *core.Func, call *ast.CallExpr, env c18Env) []c18Val {
	arg := func(i int) c18Val {
		if i < len(call.Args) {
			return ev.expr(f, call.Args[i], env)
		}
		return c18Unknown
	}
	recv := func() c18Val {
		if r := core.RecvExpr(call); r != nil {
			return ev.expr(f, r, env)
		}
		return c18Unknown
	}
	boolAtom := func(i int) []c18Val { return []c18Val{{kind: "bool", b: c18Atom(i)}} }
	switch f.CalleeID(call) {
	case "path/filepath.Abs":
		if arg(0).kind == "path" {
			return []c18Val{{kind: "path"}, {kind: "err", atom: c18AbsErr}}
		}
	case "path/filepath.Clean":
		if arg(0).kind == "path" {
			return []c18Val{{kind: "path"}}
		}
	case "os.Stat":
		if arg(0).kind == "path" {
			return []c18Val{{kind: "fi"}, {kind: "err", atom: c18StatErr}}
		}
	case "io/fs.FileInfo.Mode":
		if recv().kind == "fi" {
			return []c18Val{{kind: "mode"}}
		}
	case "io/fs.FileMode.IsDir":
		if recv().kind == "mode" {
			return boolAtom(c18IsDir)
		}
	case "io/fs.FileInfo.IsDir":
		if recv().kind == "fi" {
			return boolAtom(c18IsDir)
		}
	case "io/fs.FileInfo.Name":
		if recv().kind == "fi" {
			return []c18Val{{kind: "name"}}
		}
	case "path/filepath.Base":
		if arg(0).kind == "path" {
			return []c18Val{{kind: "name"}}
		}
	case "regexp.(*Regexp).MatchString":
		if recv().kind == "re" {
			switch arg(0).kind {
			case "name":
				return boolAtom(c18ReMatch)
			case "path":
				ev.wholePath = append(ev.wholePath, ev.c.Prog.Position(call.Pos()))
				return boolAtom(c18ReMatch)
			}
		}
	default:
		cf := f.CalleeFunc(call)
		if cf == nil || ev.depth >= 3 || cf.Type.Results == nil || len(cf.Type.Results.List) != 1 {
			break
		}
		if b, ok := cf.Info().TypeOf(cf.Type.Results.List[0].Type).Underlying().(*types.Basic); !ok || b.Kind() != types.Bool {
			break
		}
		env2 := c18Env{}
		i := 0
		for _, fl := range cf.Type.Params.List {
			for _, nm := range fl.Names {
				if o := cf.Info().Defs[nm]; o != nil {
					env2[o] = arg(i)
				}
				i++
			}
			if len(fl.Names) == 0 {
				i++
			}
		}
		ev.depth++
		b, ok := ev.run(cf, env2)
		ev.depth--
		ev.c.Analysed(cf)
		if ok {
			return []c18Val{{kind: "bool", b: b}}
		}
	}
	return []c18Val{c18Unknown}
}

func c18IgnoreTable(c *core.Check, ig *core.Func) {
	sp := c18StringParams(ig)
	if len(sp) != 1 {
		c.Undecided("C18-R3", c18IgnoreFn+"|table", pos(c, ig.Decl), "Ignore does not have exactly one string parameter")
		return
	}
	ev := &c18Eval{c: c}
	fn, ok := ev.run(ig, c18Env{sp[0]: {kind: "path"}})
	if !ok {
		c.Undecided("C18-R3", c18IgnoreFn+"|table", pos(c, ig.Decl), "Ignore could not be evaluated symbolically: "+strings.Join(ev.problems, "; "))
		return
	}
	c.Extra["ignore_paths_evaluated"] = ev.npaths
	bit := func(i int) uint { return 1 << uint(i) }
	type scen struct {
		name string
		a    uint
		want bool
		why  string
	}
	scens := []scen{
		{"stat fails", bit(c18StatErr), true, "a glob match that vanished (or a dangling symlink) is handed to TailPath; for a directory-like or unreadable entry the decision is made on a nil FileInfo"},
		{"directory, no regexp", bit(c18IsDir), true, "directories that match a glob are handed to TailPath (directories must never be tailed)"},
		{"directory, regexp set, name does not match", bit(c18IsDir) | bit(c18ReSet), true, "directories whose name does not match the ignore pattern are handed to TailPath"},
		{"directory, regexp set, name matches", bit(c18IsDir) | bit(c18ReSet) | bit(c18ReMatch), true, "a directory is not ignored"},
		{"file, no regexp", 0, false, "with no ignore pattern configured every regular file is ignored: nothing is tailed"},
		{"file, regexp set, name does not match", bit(c18ReSet), false, "a regular file whose name does not match the ignore pattern is ignored: it is never tailed"},
		{"file, regexp set, name matches", bit(c18ReSet) | bit(c18ReMatch), true, "a file whose name matches the ignore pattern is tailed"},
	}
	if fn.atoms&bit(c18AbsErr) != 0 {
		scens = append(scens, scen{"filepath.Abs fails", bit(c18AbsErr), true, "a path that cannot be made absolute is not ignored"})
	}
	for _, s := range scens {
		got := fn.f(s.a)
		c.Verdict(got == s.want, "C18-R3", c18IgnoreFn+"|"+s.name, pos(c, ig.Decl), fmt.Sprintf("Ignore returns %v", got),
			fmt.Sprintf("for the case '%s' Ignore returns %v, want %v: %s", s.name, got, s.want, s.why))
	}
	if len(ev.wholePath) > 0 {
		c.Fail("C18-R3", c18IgnoreFn+"|regexp subject", ev.wholePath[0], "the ignore regexp is matched against the whole path instead of the file's base name: an anchored pattern such as ^core never matches, and a directory component that matches the pattern hides every file below it although its name is not ignored")
	} else {
		c.Ok("C18-R3", c18IgnoreFn+"|regexp subject", pos(c, ig.Decl), "the regexp is matched against the base name (FileInfo.Name or filepath.Base)")
	}
}

// ---------------------------------------------------------------------------
// R5: every pattern is polled

// c18RecvCallee returns the callee id of the call a comm clause receives from ("" if none).
func c18RecvCallee(f *core.Func, comm ast.Stmt) string {
	var e ast.Expr
	switch s := comm.(type) {
	case *ast.ExprStmt:
		e = s.X
	case *ast.AssignStmt:
		if len(s.Rhs) == 1 {
			e = s.Rhs[0]
		}
	}
	u, ok := core.Unparen(e).(*ast.UnaryExpr)
	if !ok || u.Op != token.ARROW {
		return ""
	}
	call, ok := core.Unparen(u.X).(*ast.CallExpr)
	if !ok {
		return ""
	}
	return f.CalleeID(call)
}

func c18R5(c *core.Check, tp *core.Func) {
	c.Rule("C18-R5", "EVERY-PATTERN-POLLED: (a) tailer.New passes every configured pattern to AddPattern, leaving the loop early only with an error; (b) in AddPattern every successful return has passed TailPath (socket/stdin) or pollLogPattern with an argument derived from the pattern; (c) pollLogPattern calls doPatternGlob(pattern) on every path (the initial poll), and (d) starts its goroutine on every path except the one where no poll waker is configured; in the goroutine (e) every wake-up calls doPatternGlob(pattern) before the next wait, and (f) the goroutine ends only through the branch taken on context cancellation or the one-shot test")
	defer c.Floor("C18-R5", 7)
	nw := c.MustFn("C18-R5", c18TailerNew)
	ap := c.MustFn("C18-R5", c18AddPattern)
	pl := c.MustFn("C18-R5", c18PollPattern)
	dg := c.MustFn("C18-R5", c18PatternGlob)
	if nw == nil || ap == nil || pl == nil || dg == nil {
		return
	}
	// (a)
	{
		g := nw.Graph()
		found := false
		for _, rs := range rangeStmts(nw) {
			val := identObj(nw.Info(), rs.Value)
			adds := inside(g.Calls(func(id string, call *ast.CallExpr) bool {
				return nw.CalleeFunc(call) == ap && len(call.Args) == 1 && val != nil && identObj(nw.Info(), call.Args[0]) == val
			}), rs)
			fld, _ := c18FieldOf(nw.Info(), rs.X)
			if fld == nil || len(adds) == 0 {
				continue
			}
			found = true
			key := c18TailerNew + "|patterns loop"
			cnt, ok := iterationCount(g, rs, core.HitPoints(adds))
			head, body, done := loopBlocks(g, rs)
			if head == nil || body == nil || done == nil {
				c.Undecided("C18-R5", key, pos(c, rs), "loop blocks not found")
				continue
			}
			bad := ""
			if ok && cnt.Min < 1 { // !ok: no iteration ever returns to the loop head; reported as an early exit below
				bad = "an iteration can skip AddPattern: that pattern is never polled and its files are never tailed"
			}
			avoidHead := func(b *cfg.Block, si int) bool { return b.Succs[si] == head }
			for _, e := range normalExits(g) {
				if _, reach := g.Search(core.Query{From: c18Start(body), Goal: core.At(e.P), AvoidEdge: avoidHead}); reach {
					if e.Kind != "return" || returnsNil(nw.Info(), e.Ret) {
						bad = "the loop over the configured patterns can be left by a successful return at " + ppos(c, e.P, nw) + ": the remaining patterns are never polled"
					}
				}
			}
			if _, reach := g.Search(core.Query{From: c18Start(body), Goal: func(p core.Point) bool { return p.B == done }, AvoidEdge: avoidHead}); reach {
				bad = "the loop over the configured patterns can be left by break: the remaining patterns are never polled"
			}
			c.Verdict(bad == "", "C18-R5", key, pos(c, rs), "AddPattern("+val.Name()+") once per configured pattern ("+fld.Name()+"); early exit only with an error", bad)
		}
		if !found {
			c.Undecided("C18-R5", c18TailerNew+"|patterns loop", pos(c, nw.Decl), "no loop over a Tailer field that calls AddPattern with the loop value was found in tailer.New")
		}
	}
	// (b)
	{
		g := ap.Graph()
		sp := c18StringParams(ap)
		polls := g.Calls(func(id string, call *ast.CallExpr) bool { return ap.CalleeFunc(call) == pl })
		tails := g.Calls(func(id string, call *ast.CallExpr) bool { return ap.CalleeFunc(call) == tp })
		ev := append(core.HitPoints(polls), core.HitPoints(tails)...)
		for _, e := range normalExits(g) {
			if e.Kind == "return" && !returnsNil(ap.Info(), e.Ret) {
				// either a failing return (`return err`) or `return t.TailPath(x)`, whose outcome is TailPath's own
				continue
			}
			key := c18AddPattern + "|exit=" + e.String()
			if tr, found := pathAvoiding(g, nil, []core.Point{e.P}, ev); found {
				c.Fail("C18-R5", key, ppos(c, e.P, ap), "AddPattern can report success without having tailed the source or started a poll of the pattern: files matching that pattern are never tailed", tr...)
			} else {
				c.Ok("C18-R5", key, ppos(c, e.P, ap), "TailPath or pollLogPattern on every path")
			}
		}
		for i, p := range polls {
			call := p.N.(*ast.CallExpr)
			ok := len(sp) == 1 && len(call.Args) == 1 && c18DerivesFrom(ap, call.Args[0], sp[0])
			c.Verdict(ok, "C18-R5", fmt.Sprintf("%s|pollLogPattern#%d argument", c18AddPattern, i+1), pos(c, call), "derives from the pattern given", "the pattern polled ("+exprStr(call.Args[0])+") is not derived from the pattern given to AddPattern")
		}
		if len(polls) == 0 {
			c.Fail("C18-R5", c18AddPattern+"|pollLogPattern", pos(c, ap.Decl), "AddPattern never calls pollLogPattern: file patterns are never globbed")
		}
	}
	// (c)–(f)
	g := pl.Graph()
	sp := c18StringParams(pl)
	if len(sp) != 1 {
		c.Undecided("C18-R5", c18PollPattern, pos(c, pl.Decl), "pollLogPattern does not have exactly one string parameter")
		return
	}
	pattern := sp[0]
	if d := c18Defs(pl, pattern); len(d) > 0 {
		c.Undecided("C18-R5", c18PollPattern, pos(c, d[0].Node), "the pattern parameter is reassigned")
		return
	}
	globOf := func(f *core.Func) []core.Hit {
		return f.Graph().Calls(func(id string, call *ast.CallExpr) bool {
			return f.CalleeFunc(call) == dg && len(call.Args) == 1 && identObj(f.Info(), call.Args[0]) == pattern
		})
	}
	if tr, found := pathAvoiding(g, nil, core.ExitPoints(normalExits(g)), core.HitPoints(globOf(pl))); found {
		c.Fail("C18-R5", c18PollPattern+"|initial glob", pos(c, pl.Decl), "pollLogPattern can return without having called doPatternGlob(pattern): in one-shot mode, or when no poll waker is configured, the files that exist at start-up are never tailed", tr...)
	} else {
		c.Ok("C18-R5", c18PollPattern+"|initial glob", pos(c, pl.Decl), "doPatternGlob(pattern) on every path")
	}
	var poller *core.Func
	var goPt core.Point
	for _, h := range g.Find(func(n ast.Node) bool { _, ok := n.(*ast.GoStmt); return ok }) {
		if lit, ok := core.Unparen(h.N.(*ast.GoStmt).Call.Fun).(*ast.FuncLit); ok {
			if lf := c.Prog.FuncOf[lit]; lf != nil && len(globOf(lf)) > 0 {
				if poller != nil {
					c.Undecided("C18-R5", c18PollPattern+"|goroutine", pos(c, lit), "more than one goroutine literal calls doPatternGlob")
					return
				}
				poller, goPt = lf, h.P
			}
		}
	}
	if poller == nil {
		c.Fail("C18-R5", c18PollPattern+"|goroutine", pos(c, pl.Decl), "pollLogPattern starts no goroutine that calls doPatternGlob(pattern): files created after start-up are never tailed")
		return
	}
	c.Analysed(poller)
	// (d)
	nilWaker := func(b *cfg.Block, si int) bool {
		if len(b.Succs) != 2 || len(b.Nodes) == 0 {
			return false
		}
		e, ok := b.Nodes[len(b.Nodes)-1].(ast.Expr)
		if !ok {
			return false
		}
		e, neg := c18Negations(e)
		be, ok := e.(*ast.BinaryExpr)
		if !ok || (be.Op != token.EQL && be.Op != token.NEQ) {
			return false
		}
		for _, pr := range [][2]ast.Expr{{be.X, be.Y}, {be.Y, be.X}} {
			fld, _ := c18FieldOf(pl.Info(), pr[0])
			if fld == nil || !isNilIdent(pl.Info(), pr[1]) {
				continue
			}
			if n, ok := fld.Type().(*types.Named); !ok || n.Obj().Name() != "Waker" {
				continue
			}
			nilSucc := 0
			if be.Op == token.NEQ {
				nilSucc = 1
			}
			if neg {
				nilSucc = 1 - nilSucc
			}
			return si == nilSucc
		}
		return false
	}
	if tr, found := g.Search(core.Query{Goal: core.At(core.ExitPoints(normalExits(g))...), Avoid: core.At(goPt), AvoidEdge: nilWaker}); found {
		c.Fail("C18-R5", c18PollPattern+"|goroutine started", pos(c, poller.Lit), "pollLogPattern can return without starting the poll goroutine although a poll waker is configured: files created later that match the pattern are never tailed", g.Trail(tr)...)
	} else {
		c.Ok("C18-R5", c18PollPattern+"|goroutine started", pos(c, poller.Lit), "started on every path except `waker == nil`")
	}
	// (e), (f)
	lg := poller.Graph()
	var wakeBodies, doneBodies []*cfg.Block
	var loopStart *cfg.Block
	shapeOK := true
	var stack []ast.Node
	ast.Inspect(poller.Body, func(n ast.Node) bool {
		if n == nil {
			stack = stack[:len(stack)-1]
			return false
		}
		if _, isLit := n.(*ast.FuncLit); isLit {
			return false
		}
		stack = append(stack, n)
		cc, ok := n.(*ast.CommClause)
		if !ok || cc.Comm == nil {
			return true
		}
		var bodyBlk *cfg.Block
		for _, b := range lg.C.Blocks {
			if b.Live && b.Stmt == ast.Stmt(cc) && b.Kind == cfg.KindSelectCaseBody {
				bodyBlk = b
			}
		}
		if bodyBlk == nil {
			return true
		}
		switch c18RecvCallee(poller, cc.Comm) {
		case "context.Context.Done":
			doneBodies = append(doneBodies, bodyBlk)
		case "internal/waker.Waker.Wake":
			wakeBodies = append(wakeBodies, bodyBlk)
			// innermost enclosing loop
			var loop ast.Stmt
			for i := len(stack) - 1; i >= 0 && loop == nil; i-- {
				switch s := stack[i].(type) {
				case *ast.ForStmt:
					loop = s
				case *ast.RangeStmt:
					loop = s
				}
			}
			if loop == nil {
				shapeOK = false
				return true
			}
			head, body, _ := loopBlocks(lg, loop)
			if head != nil {
				loopStart = head
			} else {
				loopStart = body
			}
		}
		return true
	})
	if len(wakeBodies) == 0 || loopStart == nil || !shapeOK {
		c.Undecided("C18-R5", poller.Key+"|glob on every wake", pos(c, poller.Lit), "no `select` case receiving from Waker.Wake() inside a loop was found in the poll goroutine")
		return
	}
	globs := core.HitPoints(globOf(poller))
	exits := core.ExitPoints(normalExits(lg))
	bad := false
	for _, wb := range wakeBodies {
		goal := func(p core.Point) bool {
			if p.B == loopStart && p.I == 0 {
				return true
			}
			return core.At(exits...)(p)
		}
		if tr, found := lg.Search(core.Query{From: c18Start(wb), Goal: goal, Avoid: core.At(globs...)}); found {
			bad = true
			c.Fail("C18-R5", poller.Key+"|glob on every wake", ppos(c, core.Point{B: wb, I: 0}, poller), "after a wake-up the poll goroutine can go back to waiting (or end) without calling doPatternGlob(pattern): a file created since the last poll is not tailed after this poll", lg.Trail(tr)...)
		}
	}
	if !bad {
		c.Ok("C18-R5", poller.Key+"|glob on every wake", ppos(c, core.Point{B: wakeBodies[0], I: 0}, poller), "doPatternGlob(pattern) on every path from the wake-up to the next wait")
	}
	oneShotTrue := func(b *cfg.Block, si int) bool {
		if len(b.Succs) != 2 || len(b.Nodes) == 0 {
			return false
		}
		e, ok := b.Nodes[len(b.Nodes)-1].(ast.Expr)
		if !ok {
			return false
		}
		e, neg := c18Negations(e)
		isMode := func(x ast.Expr) bool {
			fld, _ := c18FieldOf(poller.Info(), x)
			if fld == nil {
				return false
			}
			n, ok := fld.Type().(*types.Named)
			return ok && n.Obj().Name() == "OneShotMode"
		}
		trueSucc := -1
		if isMode(e) {
			trueSucc = 0
		} else if be, ok := e.(*ast.BinaryExpr); ok && (be.Op == token.EQL || be.Op == token.NEQ) {
			for _, pr := range [][2]ast.Expr{{be.X, be.Y}, {be.Y, be.X}} {
				if v, isC := constBool(poller.Info(), pr[1]); isC && isMode(pr[0]) {
					trueSucc = 0
					if v != (be.Op == token.EQL) {
						trueSucc = 1
					}
				}
			}
		}
		if trueSucc < 0 {
			return false
		}
		if neg {
			trueSucc = 1 - trueSucc
		}
		return si == trueSucc
	}
	inDone := func(p core.Point) bool {
		for _, b := range doneBodies {
			if p.B == b {
				return true
			}
		}
		return false
	}
	if tr, found := lg.Search(core.Query{Goal: core.At(exits...), Avoid: inDone, AvoidEdge: oneShotTrue}); found {
		c.Fail("C18-R5", poller.Key+"|ends only on cancel or one-shot", pos(c, poller.Lit), "the poll goroutine can end while the tailer is still running and not in one-shot mode: files created afterwards that match the pattern are never tailed", lg.Trail(tr)...)
	} else {
		c.Ok("C18-R5", poller.Key+"|ends only on cancel or one-shot", pos(c, poller.Lit), fmt.Sprintf("every exit passes the <-ctx.Done() case (%d) or the one-shot test", len(doneBodies)))
	}
}

// c18DerivesFrom reports whether e is src, or a variable all of whose
// definitions are (filepath.Abs/Clean of) src or of the variable itself.
func c18DerivesFrom(f *core.Func, e ast.Expr, src types.Object) bool {
	r := c18Root(f, e, 0)
	if r == nil {
		return false
	}
	if r == src {
		return true
	}
	defs := c18Defs(f, r)
	if len(defs) == 0 {
		return false
	}
	for _, d := range defs {
		if d.Rhs == nil || d.Idx != 0 || d.Range != nil {
			return false
		}
		if rr := c18Root(f, d.Rhs, 1); rr != src && rr != r {
			return false
		}
	}
	return true
}

// ---------------------------------------------------------------------------
// R6b: logstream.New opens the pathname it was given

func c18R6b(c *core.Check) {
	defer c.Floor("C18-R6", 4)
	ln := c.MustFn("C18-R6", c18StreamNew)
	if ln == nil {
		return
	}
	info := ln.Info()
	sp := c18StringParams(ln)
	if len(sp) != 1 {
		c.Undecided("C18-R6", c18StreamNew, pos(c, ln.Decl), "logstream.New does not have exactly one string parameter")
		return
	}
	pathname := sp[0]
	g := ln.Graph()
	// functions that (transitively) open a file by name
	openers := c.Prog.Reaching(func(f *core.Func) bool {
		found := false
		ast.Inspect(f.Body, func(n ast.Node) bool {
			if call, ok := n.(*ast.CallExpr); ok {
				switch f.CalleeID(call) {
				case "os.Open", "os.OpenFile":
					found = true
				}
			}
			return !found
		})
		return found
	})
	// the switch on the URL scheme and the clause that handles the empty scheme
	isURLField := func(e ast.Expr, name string) bool {
		fld, _ := c18FieldOf(info, e)
		if fld == nil || fld.Pkg() == nil || fld.Pkg().Path() != "net/url" {
			return false
		}
		return name == "" || fld.Name() == name
	}
	var schemeSwitch *ast.SwitchStmt
	core.InspectNoLit(ln.Body, func(n ast.Node) bool {
		if sw, ok := n.(*ast.SwitchStmt); ok && sw.Tag != nil && isURLField(sw.Tag, "Scheme") {
			schemeSwitch = sw
		}
		return true
	})
	var emptyClause *ast.CaseClause
	if schemeSwitch != nil {
		var def *ast.CaseClause
		for _, s := range schemeSwitch.Body.List {
			cc := s.(*ast.CaseClause)
			if cc.List == nil {
				def = cc
			}
			for _, e := range cc.List {
				if v, ok := c18ConstString(info, e); ok && v == "" {
					emptyClause = cc
				}
			}
		}
		if emptyClause == nil {
			emptyClause = def
		}
	}
	appliesToEmptyScheme := func(n ast.Node) bool {
		if schemeSwitch == nil || !(schemeSwitch.Pos() <= n.Pos() && n.End() <= schemeSwitch.End()) {
			return true // outside the switch: applies to every scheme
		}
		return emptyClause != nil && emptyClause.Pos() <= n.Pos() && n.End() <= emptyClause.End()
	}
	// the path arguments
	type target struct {
		call *ast.CallExpr
		arg  ast.Expr
		p    core.Point
	}
	var targets []target
	for _, h := range g.Calls(func(id string, call *ast.CallExpr) bool {
		switch id {
		case "os.Stat", "os.Lstat", "os.Open", "os.OpenFile":
			return true
		}
		cf := ln.CalleeFunc(call)
		return cf != nil && openers[cf]
	}) {
		call := h.N.(*ast.CallExpr)
		for _, a := range call.Args {
			if c18IsString(info, a) {
				targets = append(targets, target{call, a, h.P})
			}
		}
	}
	if len(targets) == 0 {
		c.Undecided("C18-R6", c18StreamNew+"|opened path", pos(c, ln.Decl), "no call that stats or opens a file by name was found in logstream.New")
		return
	}
	vars := map[types.Object][]target{}
	var order []types.Object
	for _, t := range targets {
		o := identObj(info, t.arg)
		if o == nil {
			if isURLField(t.arg, "") && appliesToEmptyScheme(t.call) {
				c.Fail("C18-R6", c18StreamNew+"|"+ln.CalleeID(t.call)+" argument", pos(c, t.arg), "a file is opened by a component of url.Parse(pathname) although the pathname has no URL scheme")
			} else {
				c.Undecided("C18-R6", c18StreamNew+"|"+ln.CalleeID(t.call)+" argument", pos(c, t.arg), "path argument "+exprStr(t.arg)+" is neither the pathname parameter nor a local variable")
			}
			continue
		}
		if _, seen := vars[o]; !seen {
			order = append(order, o)
		}
		vars[o] = append(vars[o], t)
	}
	var table []string
	for _, o := range order {
		var callees []string
		var tpts []core.Point
		for _, t := range vars[o] {
			callees = append(callees, ln.CalleeID(t.call))
			tpts = append(tpts, t.p)
		}
		if o == pathname {
			c.Ok("C18-R6", c18StreamNew+"|opened path "+o.Name(), pos(c, vars[o][0].arg), "the pathname parameter itself is handed to "+strings.Join(callees, ", "))
			table = append(table, o.Name()+" = parameter -> "+strings.Join(callees, ", "))
			continue
		}
		defs := c18Defs(ln, o)
		var dpts []core.Point
		okPts := true
		for _, d := range defs {
			p, ok := g.PointOf(d.Node)
			okPts = okPts && ok
			dpts = append(dpts, p)
		}
		if !okPts || len(defs) == 0 {
			c.Undecided("C18-R6", c18StreamNew+"|opened path "+o.Name(), pos(c, vars[o][0].arg), "definitions of the path variable not found in the CFG")
			continue
		}
		for i, d := range defs {
			var avoid []core.Point
			for j, p := range dpts {
				if j != i {
					avoid = append(avoid, p)
				}
			}
			from := dpts[i]
			if _, reach := pathAvoiding(g, &from, tpts, avoid); !reach {
				continue
			}
			key := fmt.Sprintf("%s|opened path %s|def#%d", c18StreamNew, o.Name(), i+1)
			switch {
			case d.Rhs != nil && d.Idx == 0 && identObj(info, d.Rhs) == pathname:
				c.Ok("C18-R6", key, pos(c, d.Node), "= the pathname parameter")
				table = append(table, fmt.Sprintf("%s def#%d = parameter", o.Name(), i+1))
			case d.Rhs != nil && d.Idx == 0 && isURLField(d.Rhs, ""):
				fld, _ := c18FieldOf(info, d.Rhs)
				table = append(table, fmt.Sprintf("%s def#%d = URL.%s (applies to empty scheme: %v)", o.Name(), i+1, fld.Name(), appliesToEmptyScheme(d.Node)))
				if appliesToEmptyScheme(d.Node) {
					c.Fail("C18-R6", key, pos(c, d.Node), "for a plain pathname (no URL scheme) logstream.New opens url.Parse(pathname)."+fld.Name()+" instead of the pathname: the URL path is percent-decoded and ends at the first '?' or '#', so the stream registered under the key /d/log#1 (or /d/log?x, /d/l%6Fg) reads /d/log — that file is tailed by two streams and each of its lines is delivered twice, while the file that matched the pattern is never read")
				} else {
					c.Ok("C18-R6", key, pos(c, d.Node), "URL."+fld.Name()+" is used only for an explicit non-empty scheme")
				}
			default:
				c.Undecided("C18-R6", key, pos(c, d.Node), "the opened path is defined by an expression outside the recognised family (parameter, or url.URL field)")
			}
		}
	}
	c.Extra["logstream_new_opened_path"] = table

	// (c) a pathname that is not a well-formed URL is still a pathname
	var parseErr types.Object
	var parsePt core.Point
	for _, h := range g.Calls(func(id string, call *ast.CallExpr) bool {
		return id == "net/url.Parse" && len(call.Args) == 1 && identObj(info, call.Args[0]) == pathname
	}) {
		if as, ok := h.P.Node().(*ast.AssignStmt); ok && len(as.Lhs) == 2 && len(as.Rhs) == 1 {
			parseErr, parsePt = identObj(info, as.Lhs[1]), h.P
		}
	}
	if parseErr == nil {
		c.Note("C18-R6", c18StreamNew+"|url.Parse failure", pos(c, ln.Decl), "logstream.New does not keep the error of url.Parse(pathname)")
		return
	}
	var otherDefs []core.Point
	for _, d := range c18Defs(ln, parseErr) {
		if p, ok := g.PointOf(d.Node); ok && p != parsePt {
			otherDefs = append(otherDefs, p)
		}
	}
	notAbsEdge := func(b *cfg.Block, si int) bool {
		if len(b.Succs) != 2 || len(b.Nodes) == 0 {
			return false
		}
		e, ok := b.Nodes[len(b.Nodes)-1].(ast.Expr)
		if !ok {
			return false
		}
		e, neg := c18Negations(e)
		call, ok := e.(*ast.CallExpr)
		if !ok || ln.CalleeID(call) != "path/filepath.IsAbs" || len(call.Args) != 1 || identObj(info, call.Args[0]) != pathname {
			return false
		}
		notAbs := 1
		if neg {
			notAbs = 0
		}
		return si == notAbs
	}
	var failing []core.Point
	for _, e := range normalExits(g) {
		if e.Kind == "return" && !returnsNil(info, e.Ret) {
			if len(e.Ret.Results) > 0 && identObj(info, e.Ret.Results[len(e.Ret.Results)-1]) == parseErr {
				failing = append(failing, e.P)
			}
		}
	}
	bad := false
	for _, b := range c18CondBlocks(g) {
		be, ok := core.Unparen(c18CondOf(b)).(*ast.BinaryExpr)
		if !ok || (be.Op != token.NEQ && be.Op != token.EQL) {
			continue
		}
		isErrTest := false
		for _, pr := range [][2]ast.Expr{{be.X, be.Y}, {be.Y, be.X}} {
			if identObj(info, pr[0]) == parseErr && isNilIdent(info, pr[1]) {
				isErrTest = true
			}
		}
		if !isErrTest {
			continue
		}
		from := parsePt
		if _, reach := pathAvoiding(g, &from, []core.Point{c18CondPoint(b)}, otherDefs); !reach {
			continue // tests another definition of the same error variable
		}
		failed := 0
		if be.Op == token.EQL {
			failed = 1
		}
		if tr, found := g.Search(core.Query{From: c18Start(b.Succs[failed]), Goal: core.At(failing...), Avoid: core.At(otherDefs...), AvoidEdge: notAbsEdge}); found {
			bad = true
			c.Fail("C18-R6", c18StreamNew+"|url.Parse failure", pos(c, c18CondOf(b)), "logstream.New gives up with url.Parse's error even when the pathname is an absolute path: a file whose name is not a well-formed URL (e.g. /var/log/50%.log: invalid escape) matches its pattern on every poll, TailPath fails every time, and the file is never tailed", g.Trail(tr)...)
		}
	}
	if !bad {
		c.Ok("C18-R6", c18StreamNew+"|url.Parse failure", pos(c, ln.Decl), "url.Parse's error is returned only for a pathname that is not absolute")
	}
}

func c18Uniq(xs []string) []string {
	seen := map[string]bool{}
	var out []string
	for _, x := range xs {
		if !seen[x] {
			seen[x] = true
			out = append(out, x)
		}
	}
	return out
}

// c18Del is a removal from the stream map as seen from a function body:
// a delete statement, or a call of a helper that deletes unconditionally.
type c18Del struct {
	P      core.Point
	At     ast.Node
	Key    ast.Expr // the key expression in the terms of the function analysed (nil if it is not one of the helper's parameters)
	Base   string
	Locked func(mu *types.Var) bool
	Via    string
}

// c18DeleteSites lists the removals in f; undecided names helpers that delete only on some paths.
func c18DeleteSites(f *core.Func, streams *types.Var) (dels []c18Del, undecided []string) {
	g := f.Graph()
	held := g.MustHold()
	for _, a := range c18Accesses(f, streams) {
		if a.Kind != "delete" {
			continue
		}
		a := a
		dels = append(dels, c18Del{P: a.P, At: a.Sel, Key: a.Index, Base: a.Base, Locked: func(mu *types.Var) bool {
			return c18HasVar(c18HeldMutexes(f, held, a.P, a.Base, "W"), mu)
		}})
	}
	for _, h := range g.Calls(func(id string, call *ast.CallExpr) bool {
		cf := f.CalleeFunc(call)
		return cf != nil && cf.Lit == nil && cf != f
	}) {
		call := h.N.(*ast.CallExpr)
		cf := f.CalleeFunc(call)
		var cd []c18Access
		for _, a := range c18Accesses(cf, streams) {
			if a.Kind == "delete" {
				cd = append(cd, a)
			}
		}
		if len(cd) == 0 {
			continue
		}
		cg := cf.Graph()
		var pts []core.Point
		for _, a := range cd {
			pts = append(pts, a.P)
		}
		if _, avoidable := pathAvoiding(cg, nil, core.ExitPoints(normalExits(cg)), pts); avoidable || len(cd) != 1 {
			undecided = append(undecided, cf.Key)
			continue
		}
		d := cd[0]
		recv := core.RecvExpr(call)
		if recv == nil || d.Base != recvIdent(cf) {
			undecided = append(undecided, cf.Key)
			continue
		}
		var key ast.Expr
		if idx, isParam := c18IsParamOf(cf, identObj(cf.Info(), d.Index)); isParam && idx < len(call.Args) && len(c18Defs(cf, identObj(cf.Info(), d.Index))) == 0 {
			key = call.Args[idx]
		}
		cheld := cg.MustHold()
		base := core.PathOf(recv)
		p := h.P
		dels = append(dels, c18Del{P: h.P, At: call, Key: key, Base: base, Via: cf.Key, Locked: func(mu *types.Var) bool {
			return c18HasVar(c18HeldMutexes(cf, cheld, d.P, d.Base, "W"), mu) || c18HasVar(c18HeldMutexes(f, held, p, base, "W"), mu)
		}})
	}
	return dels, undecided
}

// c18CallsMapReader names a module function called from f's own body that reads the stream map ("" if none).
func c18CallsMapReader(f *core.Func, streams *types.Var) string {
	name := ""
	core.InspectNoLit(f.Body, func(n ast.Node) bool {
		if call, ok := n.(*ast.CallExpr); ok {
			if cf := f.CalleeFunc(call); cf != nil && cf != f && cf.Lit == nil {
				for _, a := range c18Accesses(cf, streams) {
					if a.Kind == "lookup" || a.Kind == "read" {
						name = cf.Key
					}
				}
			}
		}
		return true
	})
	return name
}
