package props

import (
	"bytes"
	"fmt"
	"go/ast"
	"go/constant"
	"go/printer"
	"go/token"
	"go/types"
	"os"
	"reflect"
	"strings"

	"golang.org/x/tools/go/cfg"

	"verif/sa/core"
)

func init() { register("C06", c06) }

const (
	c06Compile   = "internal/runtime/compiler.(*Compiler).Compile"
	c06CodeGen   = "internal/runtime/compiler/codegen.CodeGen"
	c06NewMetric = "internal/metrics.NewMetric"
	c06VMRun     = "internal/runtime/vm.(*VM).Run"
	c06FreshType = "internal/runtime/compiler/types.FreshType"
	c06NewVar    = "internal/runtime/compiler/types.NewVariable"
	c06LoglineNw = "internal/logline.New"
)

func c06(c *core.Check) {
	c.Explain = "Decides structural necessary conditions of program isolation on every control-flow path of the current source. (R1) ownership: CompileAndRun builds the VM from the object compiled in the same call, under the name being loaded; registers exactly that VM's metrics; installs that VM and a channel made in the call under that name; the name reaches Metric.Program unchanged through Compile -> CodeGen -> NewMetric and Metric.Program / VM.name are assigned nowhere else; every reference-typed field of a VM is filled from the program's own compiled object, freshly created, or of an immutable type, and no code hands a VM state that the loader shares between programs. (R2) no shared mutable state: package-level variables of the compile/run pipeline are not assigned after init (one reasoned exception: the type-variable id counter), monitoring maps/vectors are keyed by the acting program's own name, polymorphic builtin type schemes are only used through FreshType, the log line shared by all VMs is never written. (R3) Store.Add: every effect of the scan for the previous version (writes into the incoming or stored metric, the duplicate index, break/return) lies behind a Program equality test of the candidate; stores into the map go under the incoming metric's own name and are either the append of the incoming metric or the guarded removal of the index found; a kind difference with a stored same-name metric always ends in an error return before any store, and no path stores into a non-empty name without that comparison. (R4) every exported record carries the metric's own program: Prometheus and varz on every path unless the omit option is set, the push formats always, JSON by field. (R5) handle operations (close, delete, store, lookup) use the acting function's own program name; the only all-programs teardown is behind the end of the input channel. (R6) the fan-out gives every line to every loaded program unconditionally. Not decided: run-time values, scheduling/back-pressure between programs, behaviour of client_golang's registry on clashing label sets or help strings, state inside regexp/time/lru."
	c.Assume = append(c.Assume,
		"*time.Location values are immutable through their API",
		"expvar and prometheus vector operations touch only the entry of the key passed",
		"all metrics stored under one name have the same kind (maintained by the refusal checked in R3)",
		"package init functions run once before any program is loaded")
	c06r1(c)
	c06r2(c)
	c06r3(c)
	c06r4(c)
	c06r5(c)
	if os.Getenv("C06_LIST") != "" {
		for _, o := range c.Obs {
			fmt.Printf("  [%s] %s %s @ %s: %s\n", o.Status, o.Rule, o.Construct, o.Pos, o.Detail)
		}
	}
}

// ---------------------------------------------------------------- helpers

// c06field resolves a field selector to the field object and its base expression.
func c06field(info *types.Info, e ast.Expr) (*types.Var, ast.Expr) {
	sel, ok := core.Unparen(e).(*ast.SelectorExpr)
	if !ok {
		return nil, nil
	}
	if s := info.Selections[sel]; s != nil && s.Kind() == types.FieldVal {
		if v, ok := s.Obj().(*types.Var); ok {
			return v, sel.X
		}
	}
	return nil, nil
}

// c06structField looks up a field object of a named struct type of the module.
func c06structField(c *core.Check, pkgRel, typ, field string) *types.Var {
	pkg := c.Prog.Pkgs[pkgRel]
	if pkg == nil {
		return nil
	}
	o := pkg.Types.Scope().Lookup(typ)
	if o == nil {
		return nil
	}
	st, ok := o.Type().Underlying().(*types.Struct)
	if !ok {
		return nil
	}
	for i := 0; i < st.NumFields(); i++ {
		if st.Field(i).Name() == field {
			return st.Field(i)
		}
	}
	return nil
}

// c06params lists the parameter objects of f in order (nil for unnamed ones).
func c06params(f *core.Func) []types.Object {
	var out []types.Object
	if f.Type.Params == nil {
		return nil
	}
	for _, fl := range f.Type.Params.List {
		if len(fl.Names) == 0 {
			out = append(out, nil)
			continue
		}
		for _, n := range fl.Names {
			out = append(out, f.Info().Defs[n])
		}
	}
	return out
}

func c06paramAt(f *core.Func, i int) types.Object {
	ps := c06params(f)
	if i < 0 || i >= len(ps) {
		return nil
	}
	return ps[i]
}

func c06paramIndex(f *core.Func, o types.Object) int {
	if o == nil {
		return -1
	}
	for i, p := range c06params(f) {
		if p == o {
			return i
		}
	}
	return -1
}

// c06recv returns the receiver object of a method declaration.
func c06recv(f *core.Func) types.Object {
	if f.Decl.Recv == nil || len(f.Decl.Recv.List) == 0 || len(f.Decl.Recv.List[0].Names) == 0 {
		return nil
	}
	return f.Info().Defs[f.Decl.Recv.List[0].Names[0]]
}

// c06root strips selectors, indexes, slices, stars, & and parens down to the root identifier.
func c06root(e ast.Expr) *ast.Ident {
	for {
		switch x := core.Unparen(e).(type) {
		case *ast.Ident:
			return x
		case *ast.SelectorExpr:
			e = x.X
		case *ast.IndexExpr:
			e = x.X
		case *ast.SliceExpr:
			e = x.X
		case *ast.StarExpr:
			e = x.X
		case *ast.UnaryExpr:
			if x.Op != token.AND {
				return nil
			}
			e = x.X
		default:
			return nil
		}
	}
}

func c06rootObj(info *types.Info, e ast.Expr) types.Object {
	if id := c06root(e); id != nil {
		if o := info.Uses[id]; o != nil {
			return o
		}
		return info.Defs[id]
	}
	return nil
}

// c06isGlobal reports whether o is a package-level variable of the module.
func c06isGlobal(o types.Object) bool {
	v, ok := o.(*types.Var)
	if !ok || v.Pkg() == nil || v.IsField() {
		return false
	}
	return v.Parent() == v.Pkg().Scope() && strings.HasPrefix(v.Pkg().Path(), core.ModPath)
}

// c06mentionsGlobal returns a module package-level variable mentioned in e, if any.
func c06mentionsGlobal(info *types.Info, e ast.Node) *types.Var {
	var found *types.Var
	ast.Inspect(e, func(n ast.Node) bool {
		if id, ok := n.(*ast.Ident); ok && found == nil {
			if o := info.Uses[id]; o != nil && c06isGlobal(o) {
				found = o.(*types.Var)
			}
		}
		return found == nil
	})
	return found
}

// c06defs finds the definitions of a local variable in the enclosing
// declaration: n counts every assignment, inc/dec, range binding; rhs/idx give
// the defining expression when there is exactly one definition of the forms
// `x := e`, `x, y := e1, e2`, `x, ok := e` or `var x = e`.
func c06defs(f *core.Func, obj types.Object) (rhs ast.Expr, idx int, n int) {
	if obj == nil {
		return nil, 0, 0
	}
	info := f.Info()
	ast.Inspect(f.Decl.Body, func(x ast.Node) bool {
		switch s := x.(type) {
		case *ast.AssignStmt:
			for i, l := range s.Lhs {
				if identObj(info, l) != obj {
					continue
				}
				n++
				switch {
				case len(s.Rhs) == len(s.Lhs):
					rhs, idx = s.Rhs[i], 0
				case len(s.Rhs) == 1:
					rhs, idx = s.Rhs[0], i
				}
			}
		case *ast.IncDecStmt:
			if identObj(info, s.X) == obj {
				n++
				rhs = nil
			}
		case *ast.RangeStmt:
			if (s.Key != nil && identObj(info, s.Key) == obj) || (s.Value != nil && identObj(info, s.Value) == obj) {
				n++
				rhs = nil
			}
		case *ast.ValueSpec:
			for i, nm := range s.Names {
				if info.Defs[nm] == obj && len(s.Values) == len(s.Names) {
					n++
					rhs, idx = s.Values[i], 0
				}
			}
		}
		return true
	})
	if n != 1 {
		return nil, 0, n
	}
	return rhs, idx, n
}

// c06resolve follows single-definition local aliases (`t := expr`) to the defining expression.
func c06resolve(f *core.Func, e ast.Expr) ast.Expr {
	for depth := 0; depth < 4; depth++ {
		e = core.Unparen(e)
		id, ok := e.(*ast.Ident)
		if !ok {
			return e
		}
		o, isVar := f.Info().Uses[id].(*types.Var)
		if !isVar || c06isGlobal(o) || o.IsField() {
			return e
		}
		rhs, idx, n := c06defs(f, o)
		if n != 1 || rhs == nil || idx != 0 {
			return e
		}
		e = rhs
	}
	return e
}

// c06lit is a boolean fact: sub-expression e has truth value val.
type c06lit struct {
	e   ast.Expr
	val bool
}

// c06knows lists the atomic facts implied by "e evaluates to val".
func c06knows(e ast.Expr, val bool) []c06lit {
	e = core.Unparen(e)
	switch x := e.(type) {
	case *ast.UnaryExpr:
		if x.Op == token.NOT {
			return c06knows(x.X, !val)
		}
	case *ast.BinaryExpr:
		switch {
		case x.Op == token.LAND && val, x.Op == token.LOR && !val:
			return append(c06knows(x.X, val), c06knows(x.Y, val)...)
		case x.Op == token.LAND, x.Op == token.LOR:
			return nil
		}
	}
	return []c06lit{{e, val}}
}

// c06forces lists the atomic facts each of which alone forces "e evaluates to val".
func c06forces(e ast.Expr, val bool) []c06lit {
	e = core.Unparen(e)
	switch x := e.(type) {
	case *ast.UnaryExpr:
		if x.Op == token.NOT {
			return c06forces(x.X, !val)
		}
	case *ast.BinaryExpr:
		switch {
		case x.Op == token.LOR && val, x.Op == token.LAND && !val:
			return append(c06forces(x.X, val), c06forces(x.Y, val)...)
		case x.Op == token.LAND, x.Op == token.LOR:
			return nil
		}
	}
	return []c06lit{{e, val}}
}

// c06atoms lists the atomic (non &&, ||, !) sub-conditions of e.
func c06atoms(e ast.Expr) []ast.Expr {
	e = core.Unparen(e)
	switch x := e.(type) {
	case *ast.UnaryExpr:
		if x.Op == token.NOT {
			return c06atoms(x.X)
		}
	case *ast.BinaryExpr:
		if x.Op == token.LAND || x.Op == token.LOR {
			return append(c06atoms(x.X), c06atoms(x.Y)...)
		}
	}
	return []ast.Expr{e}
}

// c06cond returns the branch condition of a two-way block (if, tagless switch case, for).
func c06cond(b *cfg.Block) ast.Expr {
	if len(b.Succs) != 2 || len(b.Nodes) == 0 {
		return nil
	}
	e, _ := b.Nodes[len(b.Nodes)-1].(ast.Expr)
	return e
}

// c06edgeFacts: the facts known when leaving b through successor si.
func c06edgeFacts(b *cfg.Block, si int) []c06lit {
	e := c06cond(b)
	if e == nil {
		return nil
	}
	return c06knows(e, si == 0)
}

func c06refLike(t types.Type) bool {
	if t == nil {
		return false
	}
	switch t.Underlying().(type) {
	case *types.Pointer, *types.Map, *types.Slice, *types.Chan, *types.Interface, *types.Signature:
		return true
	}
	return false
}

func c06immutableType(t types.Type) bool {
	return t != nil && t.String() == "*time.Location"
}

func c06inside(n, outer ast.Node) bool {
	return outer != nil && n != nil && outer.Pos() <= n.Pos() && n.End() <= outer.End()
}

func c06short(e ast.Node) string {
	var s string
	if x, ok := e.(ast.Expr); ok {
		s = exprStr(x)
	} else {
		var buf bytes.Buffer
		if err := printer.Fprint(&buf, token.NewFileSet(), e); err != nil {
			s = reflect.TypeOf(e).String()
		} else {
			s = buf.String()
		}
	}
	s = strings.Join(strings.Fields(s), " ")
	if len(s) > 70 {
		s = s[:67] + "..."
	}
	return s
}

func c06constString(info *types.Info, e ast.Expr) (string, bool) {
	tv, ok := info.Types[e]
	if !ok || tv.Value == nil || tv.Value.Kind() != constant.String {
		return "", false
	}
	return constant.StringVal(tv.Value), true
}

// c06metricParam returns the first parameter of f whose type is *metrics.Metric.
func c06metricParam(f *core.Func) types.Object {
	for _, p := range c06params(f) {
		if p != nil && strings.HasSuffix(p.Type().String(), "internal/metrics.Metric") {
			if _, isPtr := p.Type().(*types.Pointer); isPtr {
				return p
			}
		}
	}
	return nil
}

// c06isFieldOf reports whether e is `<base>.field` with base resolving to obj.
func c06isFieldOf(f *core.Func, e ast.Expr, field *types.Var, obj types.Object) bool {
	fl, base := c06field(f.Info(), c06resolve(f, e))
	return fl != nil && fl == field && obj != nil && identObj(f.Info(), c06resolve(f, base)) == obj
}

// ---------------------------------------------------------------- R3 Store.Add

func c06r3(c *core.Check) {
	rule := "C06-R3"
	c.Rule(rule, "STORE-KEYED-BY-PROGRAM: in Store.Add (a) inside the scan over the same-name slice every effect (assignment to a variable living outside the loop body, call on the incoming/stored metric or the store, break/return out of the scan) is reachable from the start of an iteration only through an edge on which `candidate.Program == incoming.Program` is known; (b) every store into Store.Metrics is keyed by the incoming metric's Name and is either `append(slice, incoming)` or the removal of the index found by the scan, guarded by index >= 0; (c) a comparison of the incoming Kind with a stored same-name metric's Kind exists, a difference always leads to a non-nil error return with no store on the way, no store precedes that return, and no path reaches a store for a non-empty name without passing the comparison")
	add := c.MustFn(rule, storeAdd)
	if add == nil {
		return
	}
	info := add.Info()
	g := add.Graph()
	recvObj, mObj := c06recv(add), c06metricParam(add)
	fMetrics := c06structField(c, "internal/metrics", "Store", "Metrics")
	fName := c06structField(c, "internal/metrics", "Metric", "Name")
	fProgram := c06structField(c, "internal/metrics", "Metric", "Program")
	fKind := c06structField(c, "internal/metrics", "Metric", "Kind")
	if recvObj == nil || mObj == nil || fMetrics == nil || fName == nil || fProgram == nil || fKind == nil {
		c.Undecided(rule, storeAdd+"|anchors", pos(c, add.Decl), "receiver, *Metric parameter or one of the fields Store.Metrics, Metric.Name/Program/Kind not found")
		return
	}
	ranges := rangeStmts(add)
	rangeOfVal := map[types.Object]*ast.RangeStmt{}
	for _, rs := range ranges {
		if rs.Value != nil {
			if o := identObj(info, rs.Value); o != nil {
				rangeOfVal[o] = rs
			}
		}
	}
	// the slice stored under the incoming metric's name
	var sameName func(e ast.Expr) bool
	sameName = func(e ast.Expr) bool {
		ix, ok := c06resolve(add, e).(*ast.IndexExpr)
		if !ok {
			return false
		}
		fl, base := c06field(info, ix.X)
		if fl != fMetrics || identObj(info, base) != recvObj {
			return false
		}
		return c06isFieldOf(add, ix.Index, fName, mObj)
	}
	// an element of that slice
	elem := func(e ast.Expr) bool {
		e = c06resolve(add, e)
		if o := identObj(info, e); o != nil {
			if rs := rangeOfVal[o]; rs != nil && sameName(rs.X) {
				return true
			}
			return false
		}
		if ix, ok := e.(*ast.IndexExpr); ok && sameName(ix.X) {
			return true
		}
		return false
	}
	// fieldCmp recognises `incoming.F ==/!= element.F`
	fieldCmp := func(e ast.Expr, fld *types.Var) (isEq, ok bool) {
		be, isB := core.Unparen(e).(*ast.BinaryExpr)
		if !isB || (be.Op != token.EQL && be.Op != token.NEQ) {
			return false, false
		}
		for _, pr := range [][2]ast.Expr{{be.X, be.Y}, {be.Y, be.X}} {
			if !c06isFieldOf(add, pr[0], fld, mObj) {
				continue
			}
			fl, base := c06field(info, c06resolve(add, pr[1]))
			if fl == fld && elem(base) {
				return be.Op == token.EQL, true
			}
		}
		return false, false
	}
	// emptiness of the same-name slice: returns the truth value of e that means "empty"
	emptyAtom := func(e ast.Expr) (emptyWhen, ok bool) {
		e = core.Unparen(e)
		if o := identObj(info, e); o != nil { // comma-ok lookup
			if rhs, idx, n := c06defs(add, o); n == 1 && idx == 1 && rhs != nil {
				if ix, isIx := core.Unparen(rhs).(*ast.IndexExpr); isIx {
					if fl, base := c06field(info, ix.X); fl == fMetrics && identObj(info, base) == recvObj && c06isFieldOf(add, ix.Index, fName, mObj) {
						return false, true
					}
				}
			}
			return false, false
		}
		be, isB := e.(*ast.BinaryExpr)
		if !isB {
			return false, false
		}
		isLen := func(x ast.Expr) bool {
			call, ok := core.Unparen(x).(*ast.CallExpr)
			return ok && add.CalleeID(call) == "builtin.len" && len(call.Args) == 1 && sameName(call.Args[0])
		}
		eval := func(op token.Token, a, b int64) bool {
			switch op {
			case token.EQL:
				return a == b
			case token.NEQ:
				return a != b
			case token.LSS:
				return a < b
			case token.LEQ:
				return a <= b
			case token.GTR:
				return a > b
			case token.GEQ:
				return a >= b
			}
			return false
		}
		var at func(l int64) bool
		if n, isC := constInt(info, be.Y); isC && isLen(be.X) {
			at = func(l int64) bool { return eval(be.Op, l, n) }
		} else if n, isC := constInt(info, be.X); isC && isLen(be.Y) {
			at = func(l int64) bool { return eval(be.Op, n, l) }
		} else {
			return false, false
		}
		switch be.Op {
		case token.EQL, token.NEQ, token.LSS, token.LEQ, token.GTR, token.GEQ:
		default:
			return false, false
		}
		v0 := at(0)
		if at(1) == v0 || at(1<<20) == v0 {
			return false, false
		}
		return v0, true
	}
	edgeKnows := func(b *cfg.Block, si int, pred func(c06lit) bool) bool {
		for _, l := range c06edgeFacts(b, si) {
			if pred(l) {
				return true
			}
		}
		return false
	}
	progEqEdge := func(b *cfg.Block, si int) bool {
		return edgeKnows(b, si, func(l c06lit) bool {
			isEq, ok := fieldCmp(l.e, fProgram)
			return ok && isEq == l.val
		})
	}
	emptyEdge := func(b *cfg.Block, si int) bool {
		return edgeKnows(b, si, func(l c06lit) bool {
			ew, ok := emptyAtom(l.e)
			return ok && ew == l.val
		})
	}

	// stores into Store.Metrics
	stores := g.Find(func(n ast.Node) bool {
		as, ok := n.(*ast.AssignStmt)
		if !ok {
			return false
		}
		for _, l := range as.Lhs {
			if ix, ok := core.Unparen(l).(*ast.IndexExpr); ok {
				if fl, _ := c06field(info, ix.X); fl == fMetrics {
					return true
				}
			}
		}
		return false
	})
	// whole-map replacement / delete
	for _, h := range g.Find(func(n ast.Node) bool {
		switch x := n.(type) {
		case *ast.AssignStmt:
			for _, l := range x.Lhs {
				if fl, _ := c06field(info, l); fl == fMetrics {
					return true
				}
			}
		case *ast.CallExpr:
			if add.CalleeID(x) == "builtin.delete" && len(x.Args) == 2 {
				if fl, _ := c06field(info, x.Args[0]); fl == fMetrics {
					return true
				}
			}
		}
		return false
	}) {
		c.Fail(rule, storeAdd+"|store|whole map", pos(c, h.N), "Store.Add replaces the metric map or deletes a whole name from it: every program's metrics of that name (or of all names) disappear when one program registers a metric")
	}

	// (a) the scan
	nscan := 0
	var scanLoops []*ast.RangeStmt
	for _, rs := range ranges {
		if !sameName(rs.X) {
			continue
		}
		nscan++
		scanLoops = append(scanLoops, rs)
		head, body, done := loopBlocks(g, rs)
		base := fmt.Sprintf("%s|scan#%d", storeAdd, nscan)
		if head == nil || body == nil || done == nil {
			c.Undecided(rule, base, pos(c, rs), "loop blocks of the scan not found in the CFG")
			continue
		}
		valObj := identObj(info, rs.Value)
		nprog := 0
		for _, b := range g.C.Blocks {
			if e := c06cond(b); e != nil && b.Live && c06inside(e, rs.Body) {
				for _, a := range c06atoms(e) {
					if _, ok := fieldCmp(a, fProgram); ok {
						nprog++
					}
				}
			}
		}
		c.Verdict(nprog > 0, rule, base+"|program comparison", pos(c, rs), fmt.Sprintf("%d comparison(s) of the candidate's Program with the incoming metric's Program", nprog),
			"the scan for the previous version of the incoming metric never compares the candidate's Program with the incoming metric's Program: a same-named metric of another program is taken for the previous version — its label values are copied into the new metric and it is removed from the store")
		outer := func(o types.Object) bool {
			return o != nil && !(rs.Body.Pos() <= o.Pos() && o.Pos() < rs.Body.End()) && o != identObj(info, rs.Key) && o != valObj
		}
		role := func(o types.Object) string {
			switch o {
			case mObj:
				return "incoming metric"
			case valObj:
				return "candidate"
			case recvObj:
				return "store"
			}
			return ""
		}
		pure := map[string]bool{"reflect.DeepEqual": true, "builtin.len": true, "builtin.cap": true}
		type eff struct {
			h    core.Hit
			desc string
		}
		var effs []eff
		cnt := map[string]int{}
		for _, h := range g.Find(func(n ast.Node) bool {
			if !c06inside(n, rs.Body) {
				return false
			}
			switch n.(type) {
			case *ast.AssignStmt, *ast.IncDecStmt, *ast.CallExpr:
				return true
			}
			return false
		}) {
			desc := ""
			switch x := h.N.(type) {
			case *ast.AssignStmt:
				for _, l := range x.Lhs {
					o := c06rootObj(info, l)
					if o == nil {
						continue
					}
					_, plain := core.Unparen(l).(*ast.Ident)
					if plain && outer(o) && x.Tok != token.DEFINE {
						desc = "assign outer variable"
					} else if !plain && (outer(o) || o == valObj) {
						desc = "write through " + pick(role(o) != "", role(o), "outer variable")
					}
				}
			case *ast.IncDecStmt:
				if o := c06rootObj(info, x.X); outer(o) || o == valObj {
					desc = "assign outer variable"
				}
			case *ast.CallExpr:
				id := add.CalleeID(x)
				if pure[id] || strings.HasPrefix(id, "github.com/golang/glog.") || strings.HasPrefix(id, "fmt.") || strings.HasPrefix(id, "builtin.") {
					break
				}
				var who []string
				if r := core.RecvExpr(x); r != nil {
					if ro := role(c06rootObj(info, r)); ro != "" {
						who = append(who, "on "+ro)
					}
				}
				for _, a := range x.Args {
					if ro := role(c06rootObj(info, a)); ro != "" {
						who = append(who, "with "+ro)
					}
				}
				if len(who) > 0 {
					name := id
					if i := strings.LastIndex(id, "."); i >= 0 {
						name = id[i+1:]
					}
					desc = "call " + name + " " + who[0]
				}
			}
			if desc == "" {
				continue
			}
			cnt[desc]++
			effs = append(effs, eff{h, fmt.Sprintf("%s#%d", desc, cnt[desc])})
		}
		start := &core.Point{B: body, I: -1}
		inHead := func(p core.Point) bool { return p.B == head }
		for _, e := range effs {
			tr, found := g.Search(core.Query{From: start, Goal: core.At(e.h.P), Avoid: inHead, AvoidEdge: progEqEdge})
			c.Verdict(!found, rule, base+"|"+e.desc, pos(c, e.h.N), "only behind Program equality",
				"`"+c06short(e.h.N)+"` in the scan for the previous version is reachable without the candidate's Program having been found equal to the incoming metric's Program: a same-named metric of another program is read, modified, or chosen as the one to replace", g.Trail(tr)...)
		}
		// leaving the scan early
		nearly := 0
		avoidEdge := func(b *cfg.Block, si int) bool { return progEqEdge(b, si) || b.Succs[si] == head }
		var goals []core.Point
		for _, e := range normalExits(g) {
			goals = append(goals, e.P)
		}
		goalFn := func(p core.Point) bool {
			if p.B == done && p.I == 0 {
				return true
			}
			for _, gp := range goals {
				if gp == p {
					return true
				}
			}
			return false
		}
		if tr, found := g.Search(core.Query{From: start, Goal: goalFn, Avoid: inHead, AvoidEdge: avoidEdge}); found {
			nearly++
			c.Fail(rule, base+"|early exit", pos(c, rs), "the scan can be left (break or return) in an iteration whose candidate was not found to belong to the incoming metric's program: another program's metric ends the search, so this program's previous version further down the slice is not replaced (duplicate series) or the load fails", g.Trail(tr)...)
		}
		if nearly == 0 {
			c.Ok(rule, base+"|early exit", pos(c, rs), "break/return only behind Program equality")
		}
	}
	if nscan == 0 {
		c.Undecided(rule, storeAdd+"|scan", pos(c, add.Decl), "no loop over Store.Metrics[incoming.Name] found")
	}

	// (b) stores
	inScanGuarded := func(o types.Object) (ok bool, why string) {
		// every non-defining assignment of o lies inside a scan loop (where (a) requires Program equality); its definition is a negative constant
		okAll := true
		why = ""
		ast.Inspect(add.Body, func(n ast.Node) bool {
			as, isA := n.(*ast.AssignStmt)
			if !isA {
				if id, isI := n.(*ast.IncDecStmt); isI && identObj(info, id.X) == o {
					okAll, why = false, "index variable is incremented/decremented"
				}
				return true
			}
			for i, l := range as.Lhs {
				if identObj(info, l) != o {
					continue
				}
				if as.Tok == token.DEFINE {
					if len(as.Rhs) != len(as.Lhs) {
						okAll, why = false, "index variable defined by a multi-value expression"
						continue
					}
					if v, isC := constInt(info, as.Rhs[i]); !isC || v >= 0 {
						okAll, why = false, "index variable does not start at a negative constant"
					}
					continue
				}
				in := false
				for _, rs := range scanLoops {
					if c06inside(as, rs.Body) && len(as.Rhs) == len(as.Lhs) && identObj(info, as.Rhs[i]) != nil && identObj(info, as.Rhs[i]) == identObj(info, rs.Key) {
						in = true
					}
				}
				if !in {
					okAll, why = false, "index variable assigned outside the scan or from something other than the scan's index"
				}
			}
			return true
		})
		return okAll, why
	}
	for i, h := range stores {
		as := h.N.(*ast.AssignStmt)
		key := fmt.Sprintf("%s|store#%d", storeAdd, i+1)
		if len(as.Lhs) != 1 || len(as.Rhs) != 1 {
			c.Undecided(rule, key, pos(c, as), "multi-assignment store into Store.Metrics")
			continue
		}
		ix := core.Unparen(as.Lhs[0]).(*ast.IndexExpr)
		if _, base := c06field(info, ix.X); identObj(info, base) != recvObj {
			c.Undecided(rule, key, pos(c, as), "store into the Metrics map of something other than the receiver")
			continue
		}
		if !c06isFieldOf(add, ix.Index, fName, mObj) {
			c.Fail(rule, key, pos(c, as), "Store.Add stores under the key `"+c06short(ix.Index)+"`, which is not the incoming metric's own Name: the slice of another name (other programs' metrics) is overwritten or extended")
			continue
		}
		call, _ := core.Unparen(as.Rhs[0]).(*ast.CallExpr)
		if call == nil || add.CalleeID(call) != "builtin.append" || len(call.Args) < 2 {
			c.Undecided(rule, key, pos(c, as), "store is not an append form: "+c06short(as.Rhs[0]))
			continue
		}
		if !call.Ellipsis.IsValid() {
			okAppend := sameName(call.Args[0]) && len(call.Args) == 2 && identObj(info, call.Args[1]) == mObj
			c.Verdict(okAppend, rule, key, pos(c, as), "appends the incoming metric to its own name's slice",
				"the slice stored under the incoming metric's name is rebuilt from `"+c06short(call.Args[0])+"` plus `"+c06short(call.Args[len(call.Args)-1])+"` instead of the same slice plus the incoming metric: other programs' same-named metrics are dropped or foreign metrics are added")
			continue
		}
		s0, ok0 := core.Unparen(call.Args[0]).(*ast.SliceExpr)
		s1, ok1 := core.Unparen(call.Args[1]).(*ast.SliceExpr)
		if !ok0 || !ok1 || len(call.Args) != 2 {
			c.Undecided(rule, key, pos(c, as), "variadic append that is not a splice s[:d] + s[d+1:]")
			continue
		}
		d := identObj(info, s0.High)
		lowOK := false
		if be, isB := core.Unparen(s1.Low).(*ast.BinaryExpr); isB && be.Op == token.ADD && d != nil {
			if v, isC := constInt(info, be.Y); isC && v == 1 && identObj(info, be.X) == d {
				lowOK = true
			}
			if v, isC := constInt(info, be.X); isC && v == 1 && identObj(info, be.Y) == d {
				lowOK = true
			}
		}
		z, zc := int64(0), true
		if s0.Low != nil {
			z, zc = constInt(info, s0.Low)
		}
		shape := sameName(s0.X) && sameName(s1.X) && d != nil && lowOK && s1.High == nil && zc && z == 0
		if !shape {
			c.Fail(rule, key, pos(c, as), "the removal `"+c06short(as.Rhs[0])+"` does not delete exactly one element d of the incoming name's slice (s[:d] + s[d+1:]): more than the previous version of this program's metric — i.e. other programs' metrics — is removed")
			continue
		}
		okProv, why := inScanGuarded(d)
		guarded := false
		for _, ic := range add.EnclosingIfs(as.Pos()) {
			for _, l := range c06knows(ic.If.Cond, ic.InThen) {
				be, isB := core.Unparen(l.e).(*ast.BinaryExpr)
				if !isB {
					continue
				}
				for _, pr := range [][3]interface{}{{be.X, be.Y, be.Op}, {be.Y, be.X, c06flip(be.Op)}} {
					x, y, op := pr[0].(ast.Expr), pr[1].(ast.Expr), pr[2].(token.Token)
					v, isC := constInt(info, y)
					if identObj(info, x) != d || !isC {
						continue
					}
					// the fact (x op v) == l.val must imply x >= 0
					implies := true
					for _, t := range []int64{-3, -2, -1} {
						if c06evalCmp(op, t, v) == l.val {
							implies = false
						}
					}
					if implies {
						guarded = true
					}
				}
			}
		}
		switch {
		case !okProv:
			c.Fail(rule, key, pos(c, as), "the index of the element removed from the incoming name's slice is not solely the index found by the program-guarded scan ("+why+"): an element that is not this program's previous version can be removed")
		case !guarded:
			c.Fail(rule, key, pos(c, as), "the removal is not guarded by `index >= 0`: when no previous version of this program was found an element of another program is removed (or the call panics)")
		default:
			c.Ok(rule, key, pos(c, as), "removes the element found by the scan, only when one was found")
		}
	}
	if len(stores) == 0 {
		c.Undecided(rule, storeAdd+"|store", pos(c, add.Decl), "no store into Store.Metrics found in Store.Add")
	}

	// (c) the kind refusal
	var kindBlocks []*cfg.Block
	for _, b := range g.C.Blocks {
		if e := c06cond(b); e != nil && b.Live {
			for _, a := range c06atoms(e) {
				if _, ok := fieldCmp(a, fKind); ok {
					kindBlocks = append(kindBlocks, b)
					break
				}
			}
		}
	}
	storePts := core.HitPoints(stores)
	var okExits, errExits []core.Point
	for _, e := range normalExits(g) {
		if e.Kind != "return" || returnsNil(info, e.Ret) {
			okExits = append(okExits, e.P)
		} else {
			errExits = append(errExits, e.P)
		}
	}
	differs := func(l c06lit) bool {
		isEq, ok := fieldCmp(l.e, fKind)
		return ok && isEq != l.val
	}
	var kindPts []core.Point
	for i, b := range kindBlocks {
		cond := c06cond(b)
		key := fmt.Sprintf("%s|kind comparison#%d", storeAdd, i+1)
		kindPts = append(kindPts, core.Point{B: b, I: len(b.Nodes) - 1})
		succ := -1
		for si, val := range []bool{true, false} {
			for _, l := range c06forces(cond, val) {
				if differs(l) {
					succ = si
				}
			}
		}
		if succ < 0 {
			// is the comparison narrowed by a conjunct?
			narrowed := false
			var extra []string
			for _, val := range []bool{true, false} {
				facts := c06knows(cond, val)
				has := false
				for _, l := range facts {
					if differs(l) {
						has = true
					}
				}
				if has {
					narrowed = true
					for _, l := range facts {
						if !differs(l) {
							if _, isEmpty := emptyAtom(l.e); !isEmpty {
								extra = append(extra, pick(l.val, "", "!(")+c06short(l.e)+pick(l.val, "", ")"))
							}
						}
					}
					if len(extra) == 0 { // only emptiness conjuncts: harmless
						if val {
							succ = 0
						} else {
							succ = 1
						}
					}
				}
			}
			if succ < 0 {
				if narrowed {
					c.Fail(rule, key, pos(c, cond), "a metric whose kind differs from the same-named metric already stored is refused only if also "+strings.Join(extra, " and ")+": otherwise it is stored, the name then holds metrics of two kinds (the invariant the comparison with one stored element relies on is gone), and the Prometheus export of that name fails for every program, including the ones that were not touched")
				} else {
					c.Undecided(rule, key, pos(c, cond), "kind comparison inside a condition whose structure is not recognised: "+c06short(cond))
				}
				continue
			}
		}
		start := &core.Point{B: b.Succs[succ], I: -1}
		goals := append(append([]core.Point{}, storePts...), okExits...)
		tr, found := g.Search(core.Query{From: start, Goal: core.At(goals...)})
		c.Verdict(!found, rule, key, pos(c, cond), "a kind difference always ends in an error return before any store",
			"after the incoming metric's kind was found different from the stored same-named metric the function can still store it or return success: two kinds live under one name and the export of that name breaks for all programs", g.Trail(tr)...)
		// no store before the refusal
		for _, sp := range storePts {
			from := sp
			if tr, found := g.Search(core.Query{From: &from, Goal: func(p core.Point) bool { return p.B == b && p.I == len(b.Nodes)-1 }}); found {
				c.Fail(rule, key+"|before store", pos(c, cond), "the store is modified before the kind comparison that can still refuse the metric: a refused load of one program has already changed the metrics stored under the name", g.Trail(tr)...)
			}
		}
	}
	if len(kindBlocks) == 0 {
		c.Fail(rule, storeAdd+"|kind comparison", pos(c, add.Decl), "Store.Add never compares the incoming metric's Kind with a stored same-named metric's Kind: a program declaring an existing name with another kind is not refused; the name then holds two kinds and the Prometheus export of it fails for every program")
	} else if len(storePts) > 0 {
		// dominance: entry -> store without kind comparison, not through an edge on which the name is known to be empty
		avoidEdge := func(b *cfg.Block, si int) bool {
			if emptyEdge(b, si) {
				return true
			}
			// range over the same-name slice whose every iteration compares kinds: head->done is "all compared"
			for _, rs := range ranges {
				head, _, done := loopBlocks(g, rs)
				if b == head && done != nil && b.Succs[si] == done && sameName(rs.X) {
					if cnt, ok := iterationCount(g, rs, kindPts); ok && cnt.Min >= 1 {
						return true
					}
				}
			}
			return false
		}
		tr, found := g.Search(core.Query{Goal: core.At(storePts...), Avoid: core.At(kindPts...), AvoidEdge: avoidEdge})
		if found {
			// an unrecognised guard on the path mentioning the same-name slice makes this undecided
			unknown := ""
			for _, b := range tr {
				if e := c06cond(b); e != nil {
					mention := false
					ast.Inspect(e, func(n ast.Node) bool {
						if x, ok := n.(ast.Expr); ok && sameName(x) {
							mention = true
						}
						return !mention
					})
					if _, isEmpty := emptyAtom(e); mention && !isEmpty {
						unknown = c06short(e)
					}
				}
			}
			if unknown != "" {
				c.Undecided(rule, storeAdd+"|kind comparison dominates", pos(c, add.Decl), "a path reaches the store without the kind comparison through the unrecognised test `"+unknown+"`")
			} else {
				c.Fail(rule, storeAdd+"|kind comparison dominates", pos(c, add.Decl), "the incoming metric can be stored under a name that already holds metrics without its kind having been compared with theirs: a kind clash with another program is not refused", g.Trail(tr)...)
			}
		} else {
			c.Ok(rule, storeAdd+"|kind comparison dominates", pos(c, add.Decl), "every path to a store passes the kind comparison or knows the name to be empty")
		}
	}
	c.Extra["store_add"] = map[string]any{"scan_loops": nscan, "stores": len(stores), "kind_comparisons": len(kindBlocks), "error_exits": len(errExits), "success_exits": len(okExits)}
	c.Floor(rule, 10)
}

func c06flip(op token.Token) token.Token {
	switch op {
	case token.LSS:
		return token.GTR
	case token.GTR:
		return token.LSS
	case token.LEQ:
		return token.GEQ
	case token.GEQ:
		return token.LEQ
	}
	return op
}

func c06evalCmp(op token.Token, a, b int64) bool {
	switch op {
	case token.EQL:
		return a == b
	case token.NEQ:
		return a != b
	case token.LSS:
		return a < b
	case token.LEQ:
		return a <= b
	case token.GTR:
		return a > b
	case token.GEQ:
		return a >= b
	}
	return false
}

// ---------------------------------------------------------------- R1 ownership

// c06valueClass classifies where a value stored into per-program state comes from.
// "fresh": built here (call, make, literal); "param:i": the i-th parameter of f or something reached from it;
// "recv": reached from f's receiver; "global": mentions a package-level variable; "nil"; "local"; "other".
func c06valueClass(f *core.Func, e ast.Expr) string {
	info := f.Info()
	if g := c06mentionsGlobal(info, e); g != nil {
		return "global " + g.Pkg().Name() + "." + g.Name()
	}
	e = c06resolve(f, e)
	if g := c06mentionsGlobal(info, e); g != nil {
		return "global " + g.Pkg().Name() + "." + g.Name()
	}
	if isNilIdent(info, e) {
		return "nil"
	}
	switch x := core.Unparen(e).(type) {
	case *ast.CallExpr:
		if id := f.CalleeID(x); id == "builtin.append" && len(x.Args) > 0 {
			return c06valueClass(f, x.Args[0])
		}
		if _, isConv := info.Types[x.Fun]; isConv && info.Types[x.Fun].IsType() && len(x.Args) == 1 {
			return c06valueClass(f, x.Args[0])
		}
		return "fresh"
	case *ast.CompositeLit, *ast.FuncLit, *ast.BasicLit:
		return "fresh"
	case *ast.UnaryExpr:
		if x.Op == token.AND {
			if _, ok := core.Unparen(x.X).(*ast.CompositeLit); ok {
				return "fresh"
			}
		}
	}
	o := c06rootObj(info, e)
	if o == nil {
		return "other"
	}
	if i := c06paramIndex(f, o); i >= 0 {
		return fmt.Sprintf("param:%d", i)
	}
	if f.Lit == nil && o == c06recv(f) {
		return "recv"
	}
	// parameters/receiver of the enclosing declaration seen from a literal
	if f.Lit != nil {
		if decl := f.Decl; decl != nil {
			if decl.Recv != nil && len(decl.Recv.List) > 0 && len(decl.Recv.List[0].Names) > 0 && info.Defs[decl.Recv.List[0].Names[0]] == o {
				return "recv"
			}
		}
	}
	return "local"
}

func c06r1(c *core.Check) {
	rule := "C06-R1"
	c.Rule(rule, "OWNERSHIP: (a) vm.New stores its name parameter in VM.name and fills every reference-typed VM field from the compiled-object parameter, a fresh value, or an immutable-typed parameter; (b) in CompileAndRun the VM is created with the name being loaded and the object returned by Compile(name, …) in the same call, no reference-typed loader state other than immutable types is passed to it, the metrics registered are those of this VM/object, the handle stored under the name holds this VM and a channel made in this call, and the goroutine started runs this VM on this channel; (c) the name reaches Metric.Program unchanged: Compile passes its name to CodeGen, CodeGen keeps it in the code generator, every NewMetric call in the compiler passes that field, NewMetric assigns it to Program; (d) Metric.Program and VM.name are assigned nowhere else, and no reference-typed VM field is ever assigned a value reached from a package-level variable or, outside package vm, anything but a fresh value")
	car := c.MustFn(rule, compileAndRun)
	vnew := c.MustFn(rule, vmNew)
	if car == nil || vnew == nil {
		return
	}
	vmPkg := c.Prog.Pkgs["internal/runtime/vm"]
	var vmStruct *types.Struct
	var vmNamed types.Type
	if vmPkg != nil {
		if o := vmPkg.Types.Scope().Lookup("VM"); o != nil {
			vmNamed = o.Type()
			vmStruct, _ = o.Type().Underlying().(*types.Struct)
		}
	}
	fVMName := c06structField(c, "internal/runtime/vm", "VM", "name")
	fVMProg := c06structField(c, "internal/runtime/vm", "VM", "prog")
	fVMMetrics := c06structField(c, "internal/runtime/vm", "VM", "Metrics")
	if vmStruct == nil || fVMName == nil || fVMProg == nil || fVMMetrics == nil {
		c.Undecided(rule, "vm.VM|anchors", "-", "type vm.VM or its fields name/prog/Metrics not found")
		return
	}
	isVMField := func(v *types.Var) bool {
		for i := 0; i < vmStruct.NumFields(); i++ {
			if vmStruct.Field(i) == v {
				return true
			}
		}
		return false
	}

	// (a) vm.New
	nameIdx, objIdx := -1, -1
	{
		info := vnew.Info()
		var lit *ast.CompositeLit
		ast.Inspect(vnew.Body, func(n ast.Node) bool {
			if cl, ok := n.(*ast.CompositeLit); ok && lit == nil {
				if t := info.TypeOf(cl); t != nil && types.Identical(t, vmNamed) {
					lit = cl
				}
			}
			return true
		})
		if lit == nil {
			c.Undecided(rule, vmNew+"|literal", pos(c, vnew.Decl), "no composite literal of vm.VM in vm.New")
		} else {
			set := map[*types.Var]ast.Expr{}
			for _, el := range lit.Elts {
				if kv, ok := el.(*ast.KeyValueExpr); ok {
					if id, ok := kv.Key.(*ast.Ident); ok {
						if fv, ok := info.Uses[id].(*types.Var); ok {
							set[fv] = kv.Value
						}
					}
				}
			}
			// assignments v.f = … after the literal
			ast.Inspect(vnew.Body, func(n ast.Node) bool {
				if as, ok := n.(*ast.AssignStmt); ok && len(as.Lhs) == len(as.Rhs) {
					for i, l := range as.Lhs {
						if fv, _ := c06field(info, l); fv != nil && isVMField(fv) {
							set[fv] = as.Rhs[i]
						}
					}
				}
				return true
			})
			if v, ok := set[fVMName]; ok {
				nameIdx = c06paramIndex(vnew, identObj(info, v))
			}
			if v, ok := set[fVMProg]; ok {
				objIdx = c06paramIndex(vnew, c06rootObj(info, c06resolve(vnew, v)))
			}
			pOK := nameIdx >= 0 && c06paramAt(vnew, nameIdx).Type().String() == "string"
			c.Verdict(pOK, rule, vmNew+"|VM.name", pos(c, lit), fmt.Sprintf("VM.name is parameter #%d", nameIdx), "vm.New does not store its name parameter in VM.name: runtime errors, processing durations and the bytecode dump of this program are attributed to another name")
			for i := 0; i < vmStruct.NumFields(); i++ {
				fv := vmStruct.Field(i)
				val, isSet := set[fv]
				if !isSet || !c06refLike(fv.Type()) {
					continue
				}
				cls := c06valueClass(vnew, val)
				key := vmNew + "|VM." + fv.Name()
				switch {
				case cls == "fresh" || cls == "nil":
					c.Ok(rule, key, pos(c, val), "created for this VM")
				case cls == fmt.Sprintf("param:%d", objIdx) && objIdx >= 0:
					c.Ok(rule, key, pos(c, val), "taken from the compiled object of this program")
				case strings.HasPrefix(cls, "param:") && c06immutableType(fv.Type()):
					c.Ok(rule, key, pos(c, val), "immutable "+fv.Type().String()+" parameter")
				case strings.HasPrefix(cls, "global"):
					c.Fail(rule, key, pos(c, val), "VM."+fv.Name()+" of every VM is filled from the "+cls+": programs share mutable "+fv.Type().String()+" state — what one program writes there another reads")
				case strings.HasPrefix(cls, "param:"):
					c.Fail(rule, key, pos(c, val), "VM."+fv.Name()+" ("+fv.Type().String()+") is taken from a parameter that is neither the compiled object nor of an immutable type: the caller can hand the same mutable value to several VMs")
				default:
					c.Undecided(rule, key, pos(c, val), "origin of the value not recognised: "+cls)
				}
			}
		}
	}

	// (b) CompileAndRun
	info := car.Info()
	g := car.Graph()
	nameObj := c06paramAt(car, 0)
	if nameObj == nil || nameObj.Type().String() != "string" {
		c.Undecided(rule, compileAndRun+"|name", pos(c, car.Decl), "first parameter is not the program name string")
		return
	}
	if _, _, n := c06defs(car, nameObj); n != 0 {
		c.Undecided(rule, compileAndRun+"|name", pos(c, car.Decl), "the name parameter is reassigned in CompileAndRun")
	}
	isName := func(e ast.Expr) bool { return identObj(info, c06resolve(car, e)) == nameObj }
	var vmObj, objObj types.Object
	news := g.CallsTo(vmNew)
	for i, h := range news {
		call := h.N.(*ast.CallExpr)
		key := fmt.Sprintf("%s|vm.New#%d", compileAndRun, i+1)
		if as := assignOf(car, call); as != nil && len(as.Lhs) == 1 {
			vmObj = identObj(info, as.Lhs[0])
		}
		if nameIdx < 0 || objIdx < 0 || nameIdx >= len(call.Args) || objIdx >= len(call.Args) {
			c.Undecided(rule, key, pos(c, call), "name/object parameter positions of vm.New not established")
			continue
		}
		c.Verdict(isName(call.Args[nameIdx]), rule, key+"|name", pos(c, call), "created under the name being loaded",
			"the VM is created under `"+c06short(call.Args[nameIdx])+"`, not the name of the program being loaded: its runtime errors and timings are booked on another program")
		// object: defined once by Compile(name, …)
		objOK, why := false, "not a variable"
		if o := identObj(info, call.Args[objIdx]); o != nil {
			objObj = o
			rhs, _, n := c06defs(car, o)
			why = fmt.Sprintf("%d definitions", n)
			if cc, ok := core.Unparen(rhs).(*ast.CallExpr); ok && n == 1 && car.CalleeID(cc) == c06Compile {
				why = "Compile is not called with the name being loaded"
				if len(cc.Args) > 0 && isName(cc.Args[0]) {
					objOK = true
				}
			} else if n == 1 {
				why = "not the result of Compiler.Compile"
			}
		}
		c.Verdict(objOK, rule, key+"|object", pos(c, call), "runs the object compiled from this call's source under this name",
			"the VM does not run the object compiled in this call for this name ("+why+"): the program executes other code than its source, or its metrics carry another program's name")
		for k, a := range call.Args {
			if k == nameIdx || k == objIdx {
				continue
			}
			t := info.TypeOf(a)
			if !c06refLike(t) {
				continue
			}
			akey := fmt.Sprintf("%s|arg#%d", key, k)
			cls := c06valueClass(car, a)
			switch {
			case c06immutableType(t):
				c.Ok(rule, akey, pos(c, a), "immutable "+t.String())
			case cls == "fresh" || cls == "nil":
				c.Ok(rule, akey, pos(c, a), "created in this call")
			case cls == "recv" || strings.HasPrefix(cls, "global"):
				c.Fail(rule, akey, pos(c, a), "`"+c06short(a)+"` ("+t.String()+") is loader-wide mutable state handed to every VM: programs share it, so what one program stores there changes what another computes")
			default:
				c.Undecided(rule, akey, pos(c, a), "reference-typed argument of unrecognised origin: "+cls)
			}
		}
	}
	if len(news) == 0 {
		c.Undecided(rule, compileAndRun+"|vm.New", pos(c, car.Decl), "no call of vm.New in CompileAndRun")
	}
	// registered metrics
	fObjMetrics := c06structField(c, "internal/runtime/code", "Object", "Metrics")
	for i, h := range g.CallsTo(storeAdd) {
		call := h.N.(*ast.CallExpr)
		key := fmt.Sprintf("%s|ms.Add#%d", compileAndRun, i+1)
		okM := false
		if o := identObj(info, call.Args[0]); o != nil {
			for _, rs := range rangeStmts(car) {
				if rs.Value == nil || identObj(info, rs.Value) != o || !c06inside(call, rs.Body) {
					continue
				}
				fl, base := c06field(info, rs.X)
				bo := identObj(info, base)
				if (fl == fVMMetrics && bo == vmObj && vmObj != nil) || (fl != nil && fl == fObjMetrics && bo == objObj && objObj != nil) {
					okM = true
				}
			}
		}
		c.Verdict(okM, rule, key, pos(c, call), "registers a metric of the VM created in this call",
			"the metric registered for export (`"+c06short(call.Args[0])+"`) is not an element of the Metrics of the VM/object created in this call: the store exports metrics this program does not update, or replaces another program's")
	}
	// handle store, channel, goroutine
	fHandles := c06structField(c, "internal/runtime", "Runtime", "handles")
	fHvm := c06structField(c, "internal/runtime", "vmHandle", "vm")
	fHlines := c06structField(c, "internal/runtime", "vmHandle", "lines")
	var linesObj types.Object
	nst := 0
	for _, h := range g.Find(func(n ast.Node) bool { _, ok := n.(*ast.AssignStmt); return ok }) {
		as := h.N.(*ast.AssignStmt)
		if len(as.Lhs) != 1 || len(as.Rhs) != 1 {
			continue
		}
		ix, ok := core.Unparen(as.Lhs[0]).(*ast.IndexExpr)
		if !ok {
			continue
		}
		if fl, _ := c06field(info, ix.X); fl == nil || fl != fHandles {
			continue
		}
		nst++
		key := fmt.Sprintf("%s|handle store#%d", compileAndRun, nst)
		var lit *ast.CompositeLit
		rhs := c06resolve(car, as.Rhs[0])
		if u, ok := rhs.(*ast.UnaryExpr); ok && u.Op == token.AND {
			lit, _ = core.Unparen(u.X).(*ast.CompositeLit)
		}
		if lit == nil {
			c.Undecided(rule, key, pos(c, as), "the handle installed is not a &vmHandle{…} literal")
			continue
		}
		var vmv, lnv ast.Expr
		for _, el := range lit.Elts {
			if kv, ok := el.(*ast.KeyValueExpr); ok {
				if id, ok := kv.Key.(*ast.Ident); ok {
					switch info.Uses[id] {
					case types.Object(fHvm):
						vmv = kv.Value
					case types.Object(fHlines):
						lnv = kv.Value
					}
				}
			}
		}
		linesObj = identObj(info, lnv)
		madeHere := false
		if rhs, _, n := c06defs(car, linesObj); n == 1 {
			if mc, ok := core.Unparen(rhs).(*ast.CallExpr); ok && car.CalleeID(mc) == "builtin.make" {
				madeHere = true
			}
		}
		okAll := isName(ix.Index) && vmv != nil && identObj(info, vmv) == vmObj && vmObj != nil && madeHere
		c.Verdict(okAll, rule, key, pos(c, as), "this call's VM and a channel made in this call, under the name being loaded",
			fmt.Sprintf("the handle installed is not {this call's VM, a channel made in this call} under the name being loaded (key is name=%v, vm is this VM=%v, channel made here=%v): lines meant for one program are delivered to another program's VM, or a reload replaces another program's handle", isName(ix.Index), vmv != nil && identObj(info, vmv) == vmObj, madeHere))
	}
	if nst == 0 {
		c.Undecided(rule, compileAndRun+"|handle store", pos(c, car.Decl), "no store into Runtime.handles found")
	}
	nrun := 0
	for _, gh := range g.Find(func(n ast.Node) bool { _, ok := n.(*ast.GoStmt); return ok }) {
		gs := gh.N.(*ast.GoStmt)
		if car.CalleeID(gs.Call) != c06VMRun {
			continue
		}
		nrun++
		same := vmObj != nil && identObj(info, core.RecvExpr(gs.Call)) == vmObj && len(gs.Call.Args) > 0 && linesObj != nil && identObj(info, gs.Call.Args[0]) == linesObj
		c.Verdict(same, rule, fmt.Sprintf("%s|run#%d", compileAndRun, nrun), pos(c, gs), "the installed VM runs on the installed channel", "the goroutine started does not run the VM installed under the name on the channel installed with it: the program's lines go to a VM that is not the one its handle names")
	}
	if nrun == 0 {
		c.Undecided(rule, compileAndRun+"|run", pos(c, car.Decl), "no `go <vm>.Run(…)` found")
	}

	// (c) the name reaches Metric.Program
	fProgram := c06structField(c, "internal/metrics", "Metric", "Program")
	fCgName := c06structField(c, "internal/runtime/compiler/codegen", "codegen", "name")
	if comp := c.MustFn(rule, c06Compile); comp != nil {
		ci := comp.Info()
		p0 := c06paramAt(comp, 0)
		// reassignments of the name must be filepath.Base(name)
		reassignOK := true
		ast.Inspect(comp.Body, func(n ast.Node) bool {
			if as, ok := n.(*ast.AssignStmt); ok && len(as.Lhs) == len(as.Rhs) {
				for i, l := range as.Lhs {
					if identObj(ci, l) == p0 && p0 != nil {
						cc, isC := core.Unparen(as.Rhs[i]).(*ast.CallExpr)
						if !isC || comp.CalleeID(cc) != "path/filepath.Base" || identObj(ci, cc.Args[0]) != p0 {
							reassignOK = false
						}
					}
				}
			}
			return true
		})
		cgs := comp.Graph().CallsTo(c06CodeGen)
		cgIdx := -1
		if cgf := c.MustFn(rule, c06CodeGen); cgf != nil && fCgName != nil {
			ast.Inspect(cgf.Body, func(n ast.Node) bool {
				if kv, ok := n.(*ast.KeyValueExpr); ok {
					if id, ok := kv.Key.(*ast.Ident); ok && cgf.Info().Uses[id] == types.Object(fCgName) {
						cgIdx = c06paramIndex(cgf, identObj(cgf.Info(), kv.Value))
					}
				}
				return true
			})
			c.Verdict(cgIdx >= 0, rule, c06CodeGen+"|name kept", pos(c, cgf.Decl), "the code generator keeps CodeGen's name parameter", "CodeGen does not keep its name parameter in the code generator: the metrics it creates carry no or a wrong program name")
		}
		for i, h := range cgs {
			call := h.N.(*ast.CallExpr)
			okN := cgIdx >= 0 && cgIdx < len(call.Args) && identObj(ci, call.Args[cgIdx]) == p0 && p0 != nil && reassignOK
			c.Verdict(okN, rule, fmt.Sprintf("%s|CodeGen#%d", c06Compile, i+1), pos(c, call), "Compile's name (base name) is passed on", "Compile does not pass the name it was given (at most reduced to its base name) to CodeGen: the program's metrics are created under another program name")
		}
		if len(cgs) == 0 {
			c.Undecided(rule, c06Compile+"|CodeGen", pos(c, comp.Decl), "no CodeGen call in Compile")
		}
	}
	progIdx := -1
	if nm := c.MustFn(rule, c06NewMetric); nm != nil && fProgram != nil {
		ast.Inspect(nm.Body, func(n ast.Node) bool {
			if as, ok := n.(*ast.AssignStmt); ok && len(as.Lhs) == len(as.Rhs) {
				for i, l := range as.Lhs {
					if fl, _ := c06field(nm.Info(), l); fl == fProgram {
						progIdx = c06paramIndex(nm, identObj(nm.Info(), as.Rhs[i]))
					}
				}
			}
			return true
		})
		c.Verdict(progIdx >= 0, rule, c06NewMetric+"|Program", pos(c, nm.Decl), fmt.Sprintf("Program is parameter #%d", progIdx), "NewMetric does not assign its program parameter to Metric.Program")
	}
	nnm := 0
	for _, sf := range shipped(c) {
		if !strings.HasPrefix(core.Rel(sf.Pkg.PkgPath), "internal/runtime") {
			continue
		}
		for _, h := range sf.Graph().CallsTo(c06NewMetric) {
			nnm++
			c.Analysed(sf)
			call := h.N.(*ast.CallExpr)
			okP := false
			if progIdx >= 0 && progIdx < len(call.Args) && fCgName != nil {
				fl, base := c06field(sf.Info(), c06resolve(sf, call.Args[progIdx]))
				okP = fl == fCgName && identObj(sf.Info(), base) == c06recv(sf) && c06recv(sf) != nil
			}
			c.Verdict(okP, rule, fmt.Sprintf("%s|NewMetric#%d", sf.Key, nnm), pos(c, call), "created under the code generator's program name", "a metric is created under `"+c06short(call.Args[min(max(progIdx, 0), len(call.Args)-1)])+"` instead of the name of the program being compiled: it is exported with another program's prog label and Store.Add matches it against another program's metrics")
		}
	}
	if nnm == 0 {
		c.Undecided(rule, "NewMetric calls", "-", "no NewMetric call found in the compiler")
	}

	// (d) writers
	nw := 0
	for _, sf := range shipped(c) {
		si := sf.Info()
		inVM := core.Rel(sf.Pkg.PkgPath) == "internal/runtime/vm"
		core.InspectNoLit(sf.Body, func(n ast.Node) bool {
			switch x := n.(type) {
			case *ast.AssignStmt:
				for i, l := range x.Lhs {
					fl, _ := c06field(si, l)
					if fl == nil {
						// element store into a reference field: v.f[k] = …
						continue
					}
					var rhs ast.Expr
					if len(x.Rhs) == len(x.Lhs) {
						rhs = x.Rhs[i]
					} else if len(x.Rhs) == 1 {
						rhs = x.Rhs[0]
					}
					switch {
					case fl == fProgram && fProgram != nil:
						nw++
						c.Verdict(sf.Key == c06NewMetric, rule, "Metric.Program written in "+sf.Key, pos(c, x), "set at creation", "a metric's owning program is changed after creation: it is exported under, and merged by Store.Add with, another program")
					case fl == fVMName:
						nw++
						c.Verdict(sf.Key == vmNew, rule, "VM.name written in "+sf.Key, pos(c, x), "set at creation", "a VM's name is changed after creation: its errors and timings are booked on another program")
					case isVMField(fl) && sf.Key != vmNew:
						nw++
						c.Analysed(sf)
						key := "VM." + fl.Name() + " written in " + sf.Key
						if !c06refLike(fl.Type()) || rhs == nil {
							if g := c06mentionsGlobal(si, x); g != nil && rhs != nil && c06mentionsGlobal(si, rhs) != nil {
								c.Fail(rule, key, pos(c, x), "VM."+fl.Name()+" is computed from the package-level variable "+g.Name()+", which all programs share")
							} else {
								c.Ok(rule, key, pos(c, x), "value-typed field")
							}
							continue
						}
						cls := c06valueClass(sf, rhs)
						switch {
						case strings.HasPrefix(cls, "global"):
							c.Fail(rule, key, pos(c, x), "VM."+fl.Name()+" ("+fl.Type().String()+") is set from the "+cls+": every VM refers to the same mutable value, so programs influence each other through it")
						case !inVM && cls != "fresh" && cls != "nil" && !c06immutableType(fl.Type()):
							c.Fail(rule, key, pos(c, x), "outside package vm, VM."+fl.Name()+" ("+fl.Type().String()+") is set to `"+c06short(rhs)+"` ("+cls+"), a value that outlives the call and is common to the VMs of all programs: what one program stores there (e.g. memoised results) is read by the others")
						default:
							c.Ok(rule, key, pos(c, x), "own or fresh value ("+cls+")")
						}
					}
				}
			case *ast.CompositeLit:
				// a Metric literal setting Program outside NewMetric
				for _, el := range x.Elts {
					if kv, ok := el.(*ast.KeyValueExpr); ok {
						if id, ok := kv.Key.(*ast.Ident); ok && fProgram != nil && si.Uses[id] == types.Object(fProgram) && sf.Key != c06NewMetric {
							nw++
							c.Fail(rule, "Metric.Program written in "+sf.Key, pos(c, x), "a Metric literal sets Program outside NewMetric: the compiler's program name is bypassed")
						}
					}
				}
			}
			return true
		})
	}
	c.Extra["ownership"] = map[string]any{"vm.New name parameter": nameIdx, "vm.New object parameter": objIdx, "NewMetric program parameter": progIdx, "NewMetric calls in the compiler": nnm, "field writers inspected": nw}
	c.Floor(rule, 25)
}

// ---------------------------------------------------------------- R2 no shared mutable state

// c06pipeline: packages whose code runs when a program is compiled or executed.
func c06pipeline(rel string) bool {
	return rel == "internal/runtime" || strings.HasPrefix(rel, "internal/runtime/") || rel == "internal/metrics" || strings.HasPrefix(rel, "internal/metrics/") || rel == "internal/logline"
}

// c06ownName classifies an expression used as a program name inside f:
// "own" (a string parameter of the enclosing declaration, or a local defined once as filepath.Base(<such a parameter>)),
// "vm" (the name field of the VM that is the method receiver), "all:<obj>" handled by callers, or "".
func c06ownName(c *core.Check, f *core.Func, e ast.Expr) (class string, obj types.Object) {
	info := f.Info()
	e = core.Unparen(e)
	if fl, base := c06field(info, e); fl != nil {
		if fl == c06structField(c, "internal/runtime/vm", "VM", "name") {
			decl := c.Prog.FuncOf[f.Decl]
			if decl != nil && identObj(info, base) == c06recv(decl) && c06recv(decl) != nil {
				return "vm", fl
			}
		}
		return "", nil
	}
	o := identObj(info, e)
	if o == nil {
		return "", nil
	}
	decl := c.Prog.FuncOf[f.Decl]
	isStrParam := func(p types.Object) bool {
		return p != nil && decl != nil && c06paramIndex(decl, p) >= 0 && p.Type().String() == "string"
	}
	if isStrParam(o) {
		if _, _, n := c06defs(f, o); n == 0 {
			return "own", o
		}
		return "", nil
	}
	if rhs, idx, n := c06defs(f, o); n == 1 && idx == 0 && rhs != nil {
		if cc, ok := core.Unparen(rhs).(*ast.CallExpr); ok && f.CalleeID(cc) == "path/filepath.Base" && len(cc.Args) == 1 && isStrParam(identObj(info, cc.Args[0])) {
			return "own", o
		}
	}
	return "", nil
}

func c06r2(c *core.Check) {
	rule := "C06-R2"
	c.Rule(rule, "NO-SHARED-MUTABLE-STATE: (a) in the packages that compile and run programs no package-level variable is assigned, incremented, element-stored or deleted from outside init functions; (b) every call on a package-level expvar.Map / prometheus vector in those packages passes as key the acting program's own name (VM.name of the receiver, the function's program-name parameter or its base name) or the key of a loop over all loaded programs; (c) a package-level type scheme containing type variables (types.Builtins) is only read as the argument of FreshType; (d) no field of logline.LogLine — the value every VM receives by pointer — is assigned")
	// (a)
	c.Exempt(rule, "package variable types.nextVariableID incremented in internal/runtime/compiler/types.NewVariable", "the counter only names fresh type variables (identity, and the typeVarN spelling in type-error messages); it is read under its mutex and its value never reaches a compiled object or a metric")
	nwr, nfun := 0, 0
	for _, sf := range shipped(c) {
		rel := core.Rel(sf.Pkg.PkgPath)
		if !c06pipeline(rel) || (sf.Lit == nil && sf.Decl.Name.Name == "init" && sf.Decl.Recv == nil) {
			continue
		}
		nfun++
		info := sf.Info()
		report := func(n ast.Node, target ast.Expr, how string) {
			o := c06rootObj(info, target)
			if o == nil || !c06isGlobal(o) {
				return
			}
			// a method call through a selector on a package name is not a root ident of a variable
			nwr++
			c.Analysed(sf)
			key := fmt.Sprintf("package variable %s.%s %s in %s", o.Pkg().Name(), o.Name(), how, sf.Key)
			c.Fail(rule, key, pos(c, n), "the package-level variable "+o.Pkg().Name()+"."+o.Name()+" is "+how+" while programs are compiled or run: it is state shared by all programs (and all lines), so one program's load or input changes what another computes")
		}
		core.InspectNoLit(sf.Body, func(n ast.Node) bool {
			switch x := n.(type) {
			case *ast.AssignStmt:
				if x.Tok == token.DEFINE {
					// := may still assign existing variables only in the same scope: never package-level
					return true
				}
				for _, l := range x.Lhs {
					report(x, l, "assigned")
				}
			case *ast.IncDecStmt:
				report(x, x.X, "incremented")
			case *ast.CallExpr:
				if sf.CalleeID(x) == "builtin.delete" && len(x.Args) == 2 {
					report(x, x.Args[0], "deleted from")
				}
			case *ast.UnaryExpr:
				// &global handed to flag.XxxVar etc. outside init
				if x.Op == token.AND {
					if id, ok := core.Unparen(x.X).(*ast.Ident); ok && c06isGlobal(info.Uses[id]) {
						if _, isStruct := info.Uses[id].Type().Underlying().(*types.Struct); !isStruct {
							report(x, x.X, "made writable through its address")
						}
					}
				}
			}
			return true
		})
	}
	c.Ok(rule, "package variable writes", "-", fmt.Sprintf("%d function bodies of the compile/run packages inspected, %d writes to package-level variables found", nfun, nwr))

	// (b) monitoring keys
	fHandles := c06structField(c, "internal/runtime", "Runtime", "handles")
	nmon := 0
	monVars := map[string]bool{}
	for _, sf := range shipped(c) {
		rel := core.Rel(sf.Pkg.PkgPath)
		if rel != "internal/runtime" && rel != "internal/runtime/vm" {
			continue
		}
		info := sf.Info()
		for _, h := range sf.Graph().Find(func(n ast.Node) bool {
			call, ok := n.(*ast.CallExpr)
			if !ok {
				return false
			}
			r := core.RecvExpr(call)
			if r == nil {
				return false
			}
			id, ok := core.Unparen(r).(*ast.Ident)
			if !ok || !c06isGlobal(info.Uses[id]) {
				return false
			}
			t := info.Uses[id].Type().String()
			return t == "*expvar.Map" || (strings.Contains(t, "prometheus.") && strings.HasSuffix(t, "Vec"))
		}) {
			call := h.N.(*ast.CallExpr)
			gv := info.Uses[core.Unparen(core.RecvExpr(call)).(*ast.Ident)]
			monVars[gv.Pkg().Name()+"."+gv.Name()] = true
			id := sf.CalleeID(call)
			meth := id[strings.LastIndex(id, ".")+1:]
			var keys []ast.Expr
			switch meth {
			case "Add", "AddFloat", "Set", "Delete":
				if len(call.Args) > 0 {
					keys = call.Args[:1]
				}
			case "WithLabelValues", "GetMetricWithLabelValues", "DeleteLabelValues":
				keys = call.Args
			case "Do", "String", "Describe", "Collect", "Get": // reads
				continue
			case "Init", "Reset":
				nmon++
				c.Fail(rule, fmt.Sprintf("%s|%s.%s", sf.Key, gv.Name(), meth), pos(c, call), gv.Name()+"."+meth+" clears the entries of every program")
				continue
			default:
				nmon++
				c.Undecided(rule, fmt.Sprintf("%s|%s.%s", sf.Key, gv.Name(), meth), pos(c, call), "method of a monitoring variable whose key argument is not known to the checker")
				continue
			}
			nmon++
			c.Analysed(sf)
			key := fmt.Sprintf("%s|%s.%s", sf.Key, gv.Name(), meth)
			okK := len(keys) > 0
			what := ""
			for _, k := range keys {
				cls, _ := c06ownName(c, sf, k)
				if cls == "" {
					// the key variable of an enclosing loop over all handles
					if o := identObj(info, k); o != nil {
						for _, rs := range rangeStmts(sf) {
							if fl, _ := c06field(info, rs.X); fl != nil && fl == fHandles && identObj(info, rs.Key) == o && c06inside(call, rs.Body) {
								cls = "all"
							}
						}
					}
				}
				if cls == "" {
					okK = false
					what = c06short(k)
				}
			}
			c.Verdict(okK, rule, key, pos(c, call), "keyed by the acting program's own name",
				gv.Name()+"."+meth+" is keyed by `"+what+"`, which is not the name of the program on whose behalf the code runs: loads, errors or timings of one program are booked on (and visible as) another's")
		}
	}
	c.Extra["monitoring_variables"] = sortedKeys(monVars)

	// (c) polymorphic schemes
	nsch := 0
	if tp := c.Prog.Pkgs["internal/runtime/compiler/types"]; tp == nil {
		c.Undecided(rule, "type schemes", "-", "package compiler/types not loaded")
	} else {
		schemes := map[types.Object]bool{}
		for _, file := range tp.Syntax {
			for _, d := range file.Decls {
				gd, ok := d.(*ast.GenDecl)
				if !ok || gd.Tok != token.VAR {
					continue
				}
				for _, sp := range gd.Specs {
					vs := sp.(*ast.ValueSpec)
					for i, nm := range vs.Names {
						if i >= len(vs.Values) {
							continue
						}
						has := false
						ast.Inspect(vs.Values[i], func(n ast.Node) bool {
							if call, ok := n.(*ast.CallExpr); ok {
								if fn, ok := tp.TypesInfo.Uses[c06calleeIdent(call)].(*types.Func); ok && core.FuncID(fn) == c06NewVar {
									has = true
								}
							}
							return true
						})
						if has {
							schemes[tp.TypesInfo.Defs[nm]] = true
						}
					}
				}
			}
		}
		for _, sf := range shipped(c) {
			info := sf.Info()
			parents := map[ast.Node]ast.Node{}
			var stack []ast.Node
			ast.Inspect(sf.Body, func(n ast.Node) bool {
				if n == nil {
					stack = stack[:len(stack)-1]
					return false
				}
				if len(stack) > 0 {
					parents[n] = stack[len(stack)-1]
				}
				stack = append(stack, n)
				return true
			})
			core.InspectNoLit(sf.Body, func(n ast.Node) bool {
				id, ok := n.(*ast.Ident)
				if !ok || !schemes[info.Uses[id]] {
					return true
				}
				nsch++
				c.Analysed(sf)
				key := fmt.Sprintf("%s|use of %s#%d", sf.Key, id.Name, nsch)
				// climb: selector (pkg.Builtins) -> index -> call FreshType
				var cur ast.Node = id
				if p, ok := parents[cur].(*ast.SelectorExpr); ok && p.Sel == id {
					cur = p
				}
				for {
					if p, ok := parents[cur].(*ast.ParenExpr); ok {
						cur = p
						continue
					}
					break
				}
				if ix, ok := parents[cur].(*ast.IndexExpr); ok && ix.X == cur {
					cur = ix
				}
				fresh := false
				if call, ok := parents[cur].(*ast.CallExpr); ok && sf.CalleeID(call) == c06FreshType && len(call.Args) == 1 && call.Args[0] == cur {
					fresh = true
				}
				// comma-ok existence test with the value discarded
				if as, ok := parents[cur].(*ast.AssignStmt); ok && len(as.Lhs) == 2 && len(as.Rhs) == 1 {
					if b, ok := as.Lhs[0].(*ast.Ident); ok && b.Name == "_" {
						fresh = true
					}
				}
				c.Verdict(fresh, rule, key, pos(c, id), "instantiated with FreshType",
					"the shared type scheme "+id.Name+" is used without FreshType: unification binds the scheme's own type variables, so the argument types of a builtin call in one program (or an earlier load) decide whether the same builtin type-checks in another program")
				return true
			})
		}
		c.Extra["type_schemes_with_variables"] = len(schemes)
		if len(schemes) == 0 {
			c.Undecided(rule, "type schemes", "-", "no package-level type scheme built with NewVariable found (anchor moved?)")
		}
	}

	// (d) the shared log line
	nll := 0
	for _, sf := range shipped(c) {
		info := sf.Info()
		core.InspectNoLit(sf.Body, func(n ast.Node) bool {
			var targets []ast.Expr
			switch x := n.(type) {
			case *ast.AssignStmt:
				targets = x.Lhs
			case *ast.IncDecStmt:
				targets = []ast.Expr{x.X}
			}
			for _, l := range targets {
				for e := core.Unparen(l); ; {
					if ix, ok := e.(*ast.IndexExpr); ok {
						e = core.Unparen(ix.X)
						continue
					}
					if fl, _ := c06field(info, e); fl != nil && fl.Pkg() != nil && core.Rel(fl.Pkg().Path()) == "internal/logline" {
						nll++
						c.Fail(rule, "LogLine."+fl.Name()+" written in "+sf.Key, pos(c, n), "a field of the log line is modified after creation; the same *LogLine is handed to every program's VM, so what one program (or the dispatcher) writes is what the others read")
					}
					break
				}
			}
			return true
		})
	}
	c.Ok(rule, "LogLine writes", "-", fmt.Sprintf("%d assignments to fields of logline.LogLine in shipped code", nll))
	c.Floor(rule, 9)
}

func c06calleeIdent(call *ast.CallExpr) *ast.Ident {
	switch f := core.Unparen(call.Fun).(type) {
	case *ast.Ident:
		return f
	case *ast.SelectorExpr:
		return f.Sel
	}
	return nil
}

// ---------------------------------------------------------------- R4 prog label

func c06r4(c *core.Check) {
	rule := "C06-R4"
	c.Rule(rule, "PROG-LABEL: (prometheus) every NewConstMetric/NewConstHistogram call gets label names `keys` and values `vals` that are appended pairwise, the value paired with the name \"prog\" is the exported metric's own Program, and from the start of a label-set iteration no path reaches the constructor without that pair unless it leaves a test of Exporter.omitProgLabel on the omit side; (varz) the same for the function that receives omitProgLabel; (push formats) every fmt call in a record formatter that prints the metric's Name also prints its Program; (json) Metric.Program is not hidden from encoding/json; the option field is only set by its option")
	fOmit := c06structField(c, "internal/exporter", "Exporter", "omitProgLabel")
	fProgram := c06structField(c, "internal/metrics", "Metric", "Program")
	fName := c06structField(c, "internal/metrics", "Metric", "Name")
	if fOmit == nil || fProgram == nil || fName == nil {
		c.Undecided(rule, "anchors", "-", "Exporter.omitProgLabel, Metric.Program or Metric.Name not found")
		return
	}
	ctorIDs := map[string]bool{}
	for _, n := range []string{"NewConstMetric", "NewConstHistogram", "MustNewConstMetric", "MustNewConstHistogram", "NewConstSummary", "MustNewConstSummary"} {
		ctorIDs["github.com/prometheus/client_golang/prometheus."+n] = true
	}
	const newDesc = "github.com/prometheus/client_golang/prometheus.NewDesc"
	handled := map[*core.Func]bool{}
	nprom := 0
	for _, sf := range shipped(c) {
		if core.Rel(sf.Pkg.PkgPath) != "internal/exporter" {
			continue
		}
		g := sf.Graph()
		ctors := g.Calls(func(id string, _ *ast.CallExpr) bool { return ctorIDs[id] })
		if len(ctors) == 0 {
			continue
		}
		c.Analysed(sf)
		handled[sf] = true
		info := sf.Info()
		mObj := c06metricParam(sf)
		if mObj == nil {
			c.Undecided(rule, sf.Key+"|metric", pos(c, sf.Body), "prometheus metrics are built in a function without a *metrics.Metric parameter")
			continue
		}
		// omit edges
		omitEdge := func(b *cfg.Block, si int) bool {
			for _, l := range c06edgeFacts(b, si) {
				if fl, _ := c06field(info, l.e); fl == fOmit && l.val {
					return true
				}
			}
			return false
		}
		isAppendTo := func(n ast.Node, o types.Object) (ast.Expr, bool) {
			as, ok := n.(*ast.AssignStmt)
			if !ok || len(as.Lhs) != 1 || len(as.Rhs) != 1 || identObj(info, as.Lhs[0]) != o || o == nil {
				return nil, false
			}
			call, ok := core.Unparen(as.Rhs[0]).(*ast.CallExpr)
			if !ok || sf.CalleeID(call) != "builtin.append" || len(call.Args) != 2 || call.Ellipsis.IsValid() || identObj(info, call.Args[0]) != o {
				return nil, false
			}
			return call.Args[1], true
		}
		for i, h := range ctors {
			nprom++
			call := h.N.(*ast.CallExpr)
			id := sf.CalleeID(call)
			key := fmt.Sprintf("%s|%s#%d", sf.Key, id[strings.LastIndex(id, ".")+1:], i+1)
			var valsObj, keysObj types.Object
			if call.Ellipsis.IsValid() {
				valsObj = identObj(info, call.Args[len(call.Args)-1])
			}
			if dc, ok := c06resolve(sf, call.Args[0]).(*ast.CallExpr); ok && sf.CalleeID(dc) == newDesc && len(dc.Args) >= 3 {
				keysObj = identObj(info, dc.Args[2])
			}
			if valsObj == nil || keysObj == nil {
				c.Undecided(rule, key, pos(c, call), "label names/values are not passed as two slice variables (NewDesc(…, keys, …), vals...)")
				continue
			}
			// enclosing loop (one iteration = one label set)
			var loop *ast.RangeStmt
			for _, rs := range rangeStmts(sf) {
				if c06inside(call, rs.Body) && (loop == nil || c06inside(rs, loop.Body)) {
					loop = rs
				}
			}
			if loop == nil || !(loop.Body.Pos() <= valsObj.Pos() && valsObj.Pos() < loop.Body.End()) || !(loop.Body.Pos() <= keysObj.Pos() && keysObj.Pos() < loop.Body.End()) {
				c.Undecided(rule, key, pos(c, call), "the label slices are not declared inside the per-label-set loop")
				continue
			}
			head, body, _ := loopBlocks(g, loop)
			if head == nil || body == nil {
				c.Undecided(rule, key, pos(c, call), "loop blocks not found")
				continue
			}
			// pairwise appends per block; other writes make it undecided
			paired, odd := true, ""
			var progPts []core.Point
			nProgName, wrongVal := 0, ""
			for _, b := range g.C.Blocks {
				if !b.Live {
					continue
				}
				var ks, vs []ast.Expr
				var vpts []core.Point
				for ni, n := range b.Nodes {
					if e, ok := isAppendTo(n, keysObj); ok {
						ks = append(ks, e)
						continue
					}
					if e, ok := isAppendTo(n, valsObj); ok {
						vs = append(vs, e)
						vpts = append(vpts, core.Point{B: b, I: ni})
						continue
					}
					if as, ok := n.(*ast.AssignStmt); ok {
						for _, l := range as.Lhs {
							if o := c06rootObj(info, l); o == keysObj || o == valsObj {
								paired, odd = false, c06short(as.Lhs[0])+" is written other than by append(x, one element)"
							}
						}
					}
				}
				if len(ks) != len(vs) {
					paired, odd = false, "a block appends "+fmt.Sprint(len(ks))+" label names and "+fmt.Sprint(len(vs))+" label values"
					continue
				}
				for k := range ks {
					if sv, isC := c06constString(info, ks[k]); isC && sv == "prog" {
						nProgName++
						if c06isFieldOf(sf, vs[k], fProgram, mObj) {
							progPts = append(progPts, vpts[k])
						} else {
							wrongVal = c06short(vs[k])
						}
					} else if c06isFieldOf(sf, vs[k], fProgram, mObj) {
						wrongVal = "label name " + c06short(ks[k])
					}
				}
			}
			switch {
			case !paired:
				c.Undecided(rule, key, pos(c, call), "label names and values are not appended pairwise: "+odd)
				continue
			case wrongVal != "":
				c.Fail(rule, key, pos(c, call), "the label named \"prog\" and the exported metric's own Program are not paired ("+wrongVal+"): series of different programs carry the same prog value, so same-named metrics of two programs collide in one series")
				continue
			case nProgName == 0:
				c.Fail(rule, key, pos(c, call), "no label named \"prog\" with the metric's Program is ever added: same-named metrics of two programs are exported as one series (duplicate collection error or merged values)")
				continue
			}
			start := &core.Point{B: body, I: -1}
			tr, found := g.Search(core.Query{From: start, Goal: core.At(h.P), Avoid: func(p core.Point) bool {
				if p.B == head {
					return true
				}
				for _, pp := range progPts {
					if pp == p {
						return true
					}
				}
				return false
			}, AvoidEdge: omitEdge})
			c.Verdict(!found, rule, key, pos(c, call), "prog=<own Program> on every path unless omitted by option",
				"a series can be built without the prog label although the omit option is not set: same-named metrics of two programs become the same series — the scrape fails with a duplicate or shows one program's value for both", g.Trail(tr)...)
		}
	}
	if nprom == 0 {
		c.Undecided(rule, "prometheus constructors", "-", "no NewConstMetric/NewConstHistogram call found in package exporter")
	}

	// functions receiving the omit option as an argument (varz)
	nomit := 0
	for _, sf := range shipped(c) {
		if core.Rel(sf.Pkg.PkgPath) != "internal/exporter" {
			continue
		}
		info := sf.Info()
		core.InspectNoLit(sf.Body, func(n ast.Node) bool {
			call, ok := n.(*ast.CallExpr)
			if !ok {
				return true
			}
			cf := sf.CalleeFunc(call)
			if cf == nil {
				return true
			}
			for ai, a := range call.Args {
				if fl, _ := c06field(info, a); fl != fOmit {
					continue
				}
				nomit++
				handled[cf] = true
				c.Analysed(sf, cf)
				key := fmt.Sprintf("%s|call of %s", sf.Key, cf.Decl.Name.Name)
				cm := c06metricParam(cf)
				mi := c06paramIndex(cf, cm)
				own := c06metricParam(sf)
				c.Verdict(mi >= 0 && mi < len(call.Args) && own != nil && identObj(info, call.Args[mi]) == own, rule, key, pos(c, call), "formats the metric being exported", "the record is formatted from a metric other than the one whose label sets are being exported")
				omitObj := c06paramAt(cf, ai)
				cg := cf.Graph()
				ci := cf.Info()
				fkey := cf.Key + "|prog label"
				if cm == nil || omitObj == nil {
					c.Undecided(rule, fkey, pos(c, cf.Decl), "metric or omit parameter not found")
					continue
				}
				var progPts []core.Point
				var accum types.Object
				for _, hh := range cg.Find(func(n ast.Node) bool {
					as, ok := n.(*ast.AssignStmt)
					if !ok || len(as.Lhs) != 1 {
						return false
					}
					uses := false
					ast.Inspect(as, func(x ast.Node) bool {
						if e, ok := x.(ast.Expr); ok && c06isFieldOf(cf, e, fProgram, cm) {
							uses = true
						}
						return !uses
					})
					return uses
				}) {
					progPts = append(progPts, hh.P)
					accum = identObj(ci, hh.N.(*ast.AssignStmt).Lhs[0])
				}
				omitEdge := func(b *cfg.Block, si int) bool {
					for _, l := range c06edgeFacts(b, si) {
						if identObj(ci, l.e) == omitObj && l.val {
							return true
						}
					}
					return false
				}
				if len(progPts) == 0 {
					c.Fail(rule, fkey, pos(c, cf.Decl), cf.Decl.Name.Name+" never adds the metric's Program to the record: same-named metrics of two programs are written as the same series")
					continue
				}
				bad := false
				for _, e := range normalExits(cg) {
					if e.Kind == "return" && accum != nil && !exprUses(ci, e.Ret, accum) {
						c.Undecided(rule, fkey, pos(c, e.Ret), "the returned record is not built from the variable the program label is added to")
						bad = true
						continue
					}
					if tr, found := cg.Search(core.Query{Goal: core.At(e.P), Avoid: core.At(progPts...), AvoidEdge: omitEdge}); found {
						bad = true
						c.Fail(rule, fkey, ppos(c, e.P, cf), "a record can be produced without prog=<Program> although the omit option is not set: same-named metrics of two programs are indistinguishable in the output", cg.Trail(tr)...)
					}
				}
				if !bad {
					c.Ok(rule, fkey, pos(c, cf.Decl), "prog=<own Program> on every path unless omitted by option")
				}
			}
			return true
		})
	}
	if nomit == 0 {
		c.Undecided(rule, "omit option consumers", "-", "no function receives Exporter.omitProgLabel (varz formatter moved?)")
	}

	// push formats
	nfmt := 0
	for _, sf := range shipped(c) {
		if core.Rel(sf.Pkg.PkgPath) != "internal/exporter" || sf.Lit != nil || handled[sf] {
			continue
		}
		mObj := c06metricParam(sf)
		if mObj == nil || sf.Type.Results == nil || len(sf.Type.Results.List) != 1 || sf.Info().TypeOf(sf.Type.Results.List[0].Type).String() != "string" {
			continue
		}
		info := sf.Info()
		k := 0
		for _, h := range sf.Graph().Calls(func(id string, _ *ast.CallExpr) bool { return strings.HasPrefix(id, "fmt.") }) {
			call := h.N.(*ast.CallExpr)
			names := false
			for _, a := range call.Args {
				ast.Inspect(c06resolve(sf, a), func(x ast.Node) bool {
					if e, ok := x.(ast.Expr); ok && c06isFieldOf(sf, e, fName, mObj) {
						names = true
					}
					return !names
				})
			}
			if !names {
				continue
			}
			k++
			nfmt++
			c.Analysed(sf)
			hasProg := false
			for _, a := range call.Args {
				if c06isFieldOf(sf, a, fProgram, mObj) {
					hasProg = true
				}
			}
			_ = info
			c.Verdict(hasProg, rule, fmt.Sprintf("%s|record#%d", sf.Key, k), pos(c, call), "the record carries the metric's own Program",
				"a record naming the metric is written without the metric's Program: same-named metrics of two programs are sent as one series and merged by the receiver")
		}
	}
	// json
	if mp := c.Prog.Pkgs["internal/metrics"]; mp != nil {
		if st, ok := mp.Types.Scope().Lookup("Metric").Type().Underlying().(*types.Struct); ok {
			for i := 0; i < st.NumFields(); i++ {
				if st.Field(i) == fProgram {
					tag := reflect.StructTag(st.Tag(i)).Get("json")
					c.Verdict(fProgram.Exported() && !strings.HasPrefix(tag, "-"), rule, "Metric.Program|json", c.Prog.Position(fProgram.Pos()), "exported field, json tag `"+tag+"`", "Metric.Program is hidden from encoding/json: the JSON export cannot tell same-named metrics of two programs apart")
				}
			}
		}
	}
	// writers of the option
	for _, sf := range shipped(c) {
		core.InspectNoLit(sf.Body, func(n ast.Node) bool {
			if as, ok := n.(*ast.AssignStmt); ok {
				for i, l := range as.Lhs {
					if fl, _ := c06field(sf.Info(), l); fl == fOmit {
						v, isC := false, false
						if len(as.Rhs) == len(as.Lhs) {
							v, isC = constBool(sf.Info(), as.Rhs[i])
						}
						decl := c.Prog.FuncOf[sf.Decl]
						c.Verdict(isC && v && decl != nil && decl.Decl.Name.Name == "OmitProgLabel", rule, "omitProgLabel set in "+sf.Key, pos(c, as), "set only by the OmitProgLabel option", "the prog label is switched off by something other than the OmitProgLabel option: with several programs loaded their same-named metrics collide")
					}
				}
			}
			return true
		})
	}
	c.Extra["exporters"] = map[string]any{"prometheus constructors": nprom, "omit-option consumers": nomit, "push records": nfmt}
	c.Floor(rule, 11)
}

// ---------------------------------------------------------------- R5 handles, R6 fan-out

func c06r5(c *core.Check) {
	rule := "C06-R5"
	c.Rule(rule, "OWN-HANDLE-ONLY: in package runtime every delete from / store into Runtime.handles and Runtime.programErrors and every close of a handle's lines channel uses the acting function's own program name (its string parameter or that parameter's base name; a handle closed is the one looked up under that name) — or the key of a loop over all handles, and such an all-programs teardown is reachable only after the loop over the loader's input channel has ended")
	fHandles := c06structField(c, "internal/runtime", "Runtime", "handles")
	fErrors := c06structField(c, "internal/runtime", "Runtime", "programErrors")
	fLines := c06structField(c, "internal/runtime", "vmHandle", "lines")
	rnew := c.MustFn(rule, runtimeNew)
	if fHandles == nil || fErrors == nil || fLines == nil || rnew == nil {
		c.Undecided(rule, "anchors", "-", "Runtime.handles, Runtime.programErrors or vmHandle.lines not found")
		return
	}
	var inputObj types.Object
	for _, p := range c06params(rnew) {
		if p != nil {
			if ch, ok := p.Type().Underlying().(*types.Chan); ok && strings.HasSuffix(ch.Elem().String(), "logline.LogLine") {
				inputObj = p
			}
		}
	}
	nops := 0
	for _, sf := range shipped(c) {
		if core.Rel(sf.Pkg.PkgPath) != "internal/runtime" {
			continue
		}
		info := sf.Info()
		g := sf.Graph()
		isMap := func(e ast.Expr) *types.Var {
			if fl, _ := c06field(info, e); fl == fHandles || fl == fErrors {
				return fl
			}
			return nil
		}
		// classify a key expression used at node n
		var firstOwn types.Object
		classify := func(n ast.Node, k ast.Expr) (string, *ast.RangeStmt) {
			if cls, o := c06ownName(c, sf, k); cls == "own" {
				if firstOwn != nil && o != firstOwn {
					return "other-own", nil
				}
				return "own", nil
			}
			if o := identObj(info, k); o != nil {
				for _, rs := range rangeStmts(sf) {
					if isMap(rs.X) != nil && identObj(info, rs.Key) == o && c06inside(n, rs.Body) {
						return "all", rs
					}
				}
			}
			return "", nil
		}
		type op struct {
			h    core.Hit
			what string
			key  ast.Expr
			mp   *types.Var
		}
		var ops []op
		for _, h := range g.Find(func(n ast.Node) bool {
			switch n.(type) {
			case *ast.CallExpr, *ast.AssignStmt:
				return true
			}
			return false
		}) {
			switch x := h.N.(type) {
			case *ast.CallExpr:
				switch sf.CalleeID(x) {
				case "builtin.delete":
					if len(x.Args) == 2 && isMap(x.Args[0]) != nil {
						ops = append(ops, op{h, "delete from " + isMap(x.Args[0]).Name(), x.Args[1], isMap(x.Args[0])})
					}
				case "builtin.close":
					if len(x.Args) != 1 {
						break
					}
					fl, base := c06field(info, x.Args[0])
					if fl != fLines {
						break
					}
					hv := c06resolve(sf, base)
					if ix, ok := hv.(*ast.IndexExpr); ok && isMap(ix.X) == fHandles {
						ops = append(ops, op{h, "close of lines", ix.Index, fHandles})
					} else if o := identObj(info, hv); o != nil {
						// range value over handles
						done := false
						for _, rs := range rangeStmts(sf) {
							if isMap(rs.X) == fHandles && rs.Value != nil && identObj(info, rs.Value) == o && c06inside(x, rs.Body) {
								ops = append(ops, op{h, "close of lines", rs.Key, fHandles})
								done = true
							}
						}
						if !done {
							ops = append(ops, op{h, "close of lines", nil, fHandles})
						}
					} else {
						ops = append(ops, op{h, "close of lines", nil, fHandles})
					}
				}
			case *ast.AssignStmt:
				for _, l := range x.Lhs {
					if ix, ok := core.Unparen(l).(*ast.IndexExpr); ok && isMap(ix.X) != nil {
						ops = append(ops, op{h, "store into " + isMap(ix.X).Name(), ix.Index, isMap(ix.X)})
					}
				}
			}
		}
		// the name under which the function loads/unloads a program is an operation on that program too
		for _, h := range g.CallsTo(compileAndRun, unloadProgram) {
			call := h.N.(*ast.CallExpr)
			if len(call.Args) > 0 && sf.Info().TypeOf(call.Args[0]).String() == "string" {
				if cls, _ := c06ownName(c, sf, call.Args[0]); cls == "own" {
					ops = append(ops, op{h, "call of " + sf.CalleeFunc(call).Decl.Name.Name, call.Args[0], nil})
				}
			}
		}
		// canonical own name: prefer a derived base name over the raw parameter
		for _, o := range ops {
			if o.key == nil {
				continue
			}
			if cls, obj := c06ownName(c, sf, o.key); cls == "own" {
				decl := c.Prog.FuncOf[sf.Decl]
				if firstOwn == nil || (decl != nil && c06paramIndex(decl, firstOwn) >= 0 && c06paramIndex(decl, obj) < 0) {
					firstOwn = obj
				}
			}
		}
		cnt := map[string]int{}
		for _, o := range ops {
			nops++
			c.Analysed(sf)
			cnt[o.what]++
			key := fmt.Sprintf("%s|%s#%d", sf.Key, o.what, cnt[o.what])
			if o.key == nil {
				c.Fail(rule, key, pos(c, o.h.N), "the handle whose channel is closed was not looked up in Runtime.handles under the acting function's own program name: another program's VM is stopped")
				continue
			}
			cls, rs := classify(o.h.N, o.key)
			switch cls {
			case "own":
				c.Ok(rule, key, pos(c, o.h.N), "uses the function's own program name")
			case "all":
				if !strings.HasPrefix(o.what, "close") && !strings.HasPrefix(o.what, "delete") {
					c.Ok(rule, key, pos(c, o.h.N), "per-entry operation inside a loop over all entries")
					continue
				}
				// teardown of all programs: only after the input loop
				var inLoop *ast.RangeStmt
				for _, r2 := range rangeStmts(sf) {
					if o2 := identObj(info, r2.X); o2 != nil && o2 == inputObj {
						inLoop = r2
					}
				}
				if inLoop == nil || inputObj == nil {
					c.Fail(rule, key, pos(c, o.h.N), "every program's handle is ended in a function that does not consume the loader's input channel: all programs are stopped while lines are still arriving")
					continue
				}
				_, _, done := loopBlocks(g, inLoop)
				_, tbody, _ := loopBlocks(g, rs)
				if done == nil || tbody == nil {
					c.Undecided(rule, key, pos(c, o.h.N), "loop blocks not found")
					continue
				}
				tr, found := g.Search(core.Query{Goal: func(p core.Point) bool { return p.B == tbody }, AvoidEdge: func(b *cfg.Block, si int) bool { return b.Succs[si] == done }})
				c.Verdict(!found, rule, key, pos(c, o.h.N), "all-programs teardown only after the input channel is closed",
					"the loop ending every program's handle can be reached before the loop over the input channel has finished: an event concerning one program (or none) stops all programs", g.Trail(tr)...)
			case "other-own":
				c.Fail(rule, key, pos(c, o.h.N), "the function addresses its program under two different strings (`"+firstOwn.Name()+"` and `"+c06short(o.key)+"`): when they differ (a path versus its base name) the operation ("+o.what+") misses the program it was called for or hits another entry")
			default:
				c.Fail(rule, key, pos(c, o.h.N), "`"+c06short(o.key)+"` is neither the acting function's own program name nor the key of a loop over all entries: the operation ("+o.what+") hits another program's entry — it is stopped, replaced, or its last load error is overwritten")
			}
		}
	}
	c.Extra["handle_operations"] = nops
	c.Floor(rule, 7)

	// R6 fan-out
	r6 := "C06-R6"
	c.Rule(r6, "FAN-OUT: in the loader goroutine, every iteration of the loop over the input channel reaches the loop over all handles on every path, every iteration of that inner loop sends exactly once, the value sent is the line received, the channel is the lines channel of the handle of the inner loop's key, and the inner loop has no early exit — so which lines a program sees does not depend on which other programs are loaded")
	found := false
	for _, lf := range rnew.Lits {
		info := lf.Info()
		for _, outer := range rangeStmts(lf) {
			if inputObj == nil || identObj(info, outer.X) != inputObj {
				continue
			}
			found = true
			c.Analysed(lf)
			g := lf.Graph()
			ohead, obody, _ := loopBlocks(g, outer)
			var inner *ast.RangeStmt
			for _, rs := range rangeStmts(lf) {
				if fl, _ := c06field(info, rs.X); fl == fHandles && c06inside(rs, outer.Body) {
					inner = rs
				}
			}
			base := lf.Key + "|fan-out"
			if inner == nil || ohead == nil || obody == nil {
				c.Fail(r6, base, pos(c, outer), "the loop over the input channel contains no loop over Runtime.handles: lines are not delivered to every loaded program")
				continue
			}
			ihead, _, _ := loopBlocks(g, inner)
			tr, skip := g.Search(core.Query{From: &core.Point{B: obody, I: -1}, Goal: func(p core.Point) bool { return p.B == ohead }, Avoid: func(p core.Point) bool { return p.B == ihead }})
			c.Verdict(!skip, r6, base+"|every line", pos(c, outer), "every received line reaches the loop over all programs", "a received line can be dropped before it is handed to the programs (a path of the input loop skips the loop over handles): whether a program sees a line depends on something other than the line stream", g.Trail(tr)...)
			var sends []core.Hit
			for _, s := range sendsOfLines(g) {
				if c06inside(s.N, inner.Body) {
					sends = append(sends, s)
				}
			}
			cnt, ok := iterationCount(g, inner, core.HitPoints(sends))
			c.Verdict(ok && cnt.Min == 1 && cnt.Max == 1, r6, base+"|once per program", pos(c, inner), "exactly one send per loaded program", "a loaded program receives the line "+cnt.String()+" times per line: delivery is conditional (on the program, or on other programs) or duplicated")
			early := earlyLoopExits(c, g, inner)
			c.Verdict(len(early) == 0, r6, base+"|no early exit", pos(c, inner), "the loop over programs always runs to the end", "the loop over loaded programs can stop early ("+strings.Join(early, "; ")+"): programs later in the iteration order miss the line because of an earlier program")
			for i, s := range sends {
				ss := s.N.(*ast.SendStmt)
				valOK := identObj(info, ss.Value) != nil && identObj(info, ss.Value) == identObj(info, outer.Key)
				chOK := false
				if fl, hb := c06field(info, ss.Chan); fl == fLines {
					hv := c06resolve(lf, hb)
					if ix, isIx := hv.(*ast.IndexExpr); isIx {
						f2, _ := c06field(info, ix.X)
						chOK = f2 == fHandles && identObj(info, ix.Index) != nil && identObj(info, ix.Index) == identObj(info, inner.Key)
					} else if o := identObj(info, hv); o != nil && inner.Value != nil && o == identObj(info, inner.Value) {
						chOK = true
					}
				}
				c.Verdict(valOK && chOK, r6, fmt.Sprintf("%s|send#%d", base, i+1), pos(c, ss), "the received line goes to the handle of the loop's own key",
					fmt.Sprintf("the send inside the loop over programs does not deliver the received line to the handle of the program being visited (value is the line=%v, channel is that handle's=%v): one program gets another's lines or a different value", valOK, chOK))
			}
		}
	}
	if !found {
		c.Undecided(r6, runtimeNew+"|fan-out", pos(c, rnew.Decl), "no loop over the input channel found in the loader's goroutines")
	}
	c.Floor(r6, 4)
}
