package props

import (
	"go/ast"
	"go/types"

	"golang.org/x/tools/go/cfg"

	"verif/sa/core"
)

// Extra C19/C20 rule (own file): every VM drains its channel.
func init() {
	register("C19", func(c *core.Check) { vmRunDrains(c, "C19-R8") })
	register("C20", func(c *core.Check) { vmRunDrains(c, "C20-R4") })
}

// vmRunDrains: the loader's fan-out sends every line to every installed
// handle over an unbuffered channel while holding the handle read lock.  A VM
// whose Run can return before its channel is closed leaves that send parked
// for ever: the first line after it blocks the fan-out, every other program
// starves and a one-shot run never terminates.
func vmRunDrains(c *core.Check, rule string) {
	c.Rule(rule, "RUN-DRAINS: every path through (*VM).Run from entry to a normal exit passes the end of the `range` over its line-channel parameter (the channel was seen closed): no early return before or out of the loop")
	run := c.Prog.Fn("internal/runtime/vm.(*VM).Run")
	if run == nil {
		c.Undecided(rule, "VM.Run", "-", "function not found")
		return
	}
	c.Analysed(run)
	info := run.Info()
	var chObj types.Object
	for _, fl := range run.Type.Params.List {
		for _, nm := range fl.Names {
			if isChanOfLogLine(info, nm) {
				chObj = info.Defs[nm]
			}
		}
	}
	if chObj == nil {
		c.Undecided(rule, run.Key, pos(c, run.Decl), "Run has no line-channel parameter")
		return
	}
	loops := rangeOver(run, chObj)
	if len(loops) != 1 {
		c.Undecided(rule, run.Key, pos(c, run.Decl), "Run does not contain exactly one range over its line channel")
		return
	}
	g := run.Graph()
	_, _, done := loopBlocks(g, ast.Stmt(loops[0]))
	if done == nil {
		c.Undecided(rule, run.Key, pos(c, loops[0]), "loop blocks not found")
		return
	}
	avoidDone := func(b *cfg.Block, si int) bool { return b.Succs[si] == done }
	bad := ""
	var trail []string
	for _, e := range normalExits(g) {
		if tr, ok := g.Search(core.Query{Goal: core.At(e.P), AvoidEdge: avoidDone}); ok {
			bad = e.String() + " at " + ppos(c, e.P, run)
			trail = g.Trail(tr)
			break
		}
	}
	c.Verdict(bad == "", rule, run.Key+"|drains until close", pos(c, loops[0]), "every exit follows the end of the range over the line channel", "VM.Run can return ("+bad+") without having seen its line channel closed: the loader still holds a handle for this program and sends it every line over an unbuffered channel under the handle lock — the first line blocks the fan-out for ever, all other programs stop receiving lines, and a one-shot run never ends", trail...)
}
