package props

import (
	"fmt"
	"go/ast"
	"go/token"
	"go/types"
	"strings"

	"verif/sa/core"
)

// FRESH-ERRORS (C24-R7, and C02-R6 for the optimiser): the error list a
// compiler stage returns as its error belongs to an object created for that
// call.  A list that lives in the Compiler (or in a package variable) and is not
// emptied on the way keeps the errors of a rejected program and reports them
// against every program compiled afterwards.

func init() {
	register("C24", func(c *core.Check) { freshErrors(c, "C24-R7", "internal/runtime/compiler/", 4) })
	register("C02", func(c *core.Check) { freshErrors(c, "C02-R6", "internal/runtime/compiler/opt", 1) })
}

const compilerErrorsPkg = "internal/runtime/compiler/errors"

type freshCtx struct {
	c       *core.Check
	callers map[*core.Func][]freshSite
	compile *core.Func
	busy    map[string]bool
}

type freshSite struct {
	f    *core.Func
	call *ast.CallExpr
}

func freshErrors(c *core.Check, rule, pkgPrefix string, floor int) {
	c.Rule(rule, "FRESH-ERRORS: wherever a function of the compiler returns an ErrorList as its error, the list belongs to an object created during the current call of Compiler.Compile (a composite literal, new, or a constructor that returns one — in the function itself, or at every call site that supplies the receiver/argument), or it is emptied on every path before it is returned; it never lives in the Compiler or in a package variable, where the errors of one rejected program would be reported against every later program")
	fc := &freshCtx{c: c, callers: map[*core.Func][]freshSite{}, compile: c.Prog.Fn(c24Compile), busy: map[string]bool{}}
	for _, sf := range shipped(c) {
		sf := sf
		core.InspectNoLit(sf.Body, func(n ast.Node) bool {
			if call, ok := n.(*ast.CallExpr); ok {
				if cf := sf.CalleeFunc(call); cf != nil {
					fc.callers[cf] = append(fc.callers[cf], freshSite{sf, call})
				}
			}
			return true
		})
	}
	n := 0
	for _, sf := range shipped(c) {
		if !strings.HasPrefix(core.Rel(sf.Pkg.PkgPath), pkgPrefix) || sf.Type == nil || sf.Type.Results == nil {
			continue
		}
		info := sf.Info()
		k := 0
		core.InspectNoLit(sf.Body, func(x ast.Node) bool {
			ret, ok := x.(*ast.ReturnStmt)
			if !ok {
				return true
			}
			for _, r := range ret.Results {
				t := info.TypeOf(r)
				if t == nil || !c21Named(t, compilerErrorsPkg, "ErrorList") {
					continue
				}
				k++
				n++
				c.Analysed(sf)
				key := fmt.Sprintf("%s|return %s#%d", sf.Key, core.PathOf(r), k)
				owner := r
				if fv, base := hbFieldOf(info, r); fv != nil {
					owner = base
				}
				verdict, why := fc.fresh(sf, owner, 0)
				if verdict == "stale" && fc.resetBefore(sf, r, ret) {
					verdict, why = "fresh", "emptied on every path before this return"
				}
				switch verdict {
				case "fresh":
					c.Ok(rule, key, pos(c, ret), why)
				case "stale":
					c.Fail(rule, key, pos(c, ret), "the error list returned here belongs to "+why+", which outlives one call of Compile and is not emptied before the return: once a program has been rejected, every later program compiled by the same Compiler is rejected with the stale errors (and, for the optimiser, for something other than a division by the literal 0 of its own)")
				default:
					c.Undecided(rule, key, pos(c, ret), "cannot tell where the owner of the returned error list is created: "+why)
				}
			}
			return true
		})
	}
	_ = n
	c.Floor(rule, floor)
}

// fresh classifies the object denoted by e in f: "fresh" (created during the
// current Compile call), "stale" (pre-exists it), or "" (unknown).
func (fc *freshCtx) fresh(f *core.Func, e ast.Expr, depth int) (string, string) {
	if depth > 4 {
		return "", "call chain too deep"
	}
	info := f.Info()
	e = core.Unparen(hbResolve(f, e))
	if u, ok := e.(*ast.UnaryExpr); ok && u.Op == token.AND {
		e = core.Unparen(u.X)
	}
	switch x := e.(type) {
	case *ast.CompositeLit:
		return "fresh", "a composite literal built in " + f.Key
	case *ast.CallExpr:
		if id := f.CalleeID(x); id == "builtin.new" || id == "builtin.make" {
			return "fresh", "allocated in " + f.Key
		}
		cf := f.CalleeFunc(x)
		if cf == nil || cf.Body == nil {
			return "", "result of a call that is not followed: " + exprStr(x)
		}
		bk := "ctor|" + cf.Key
		if fc.busy[bk] {
			return "", "recursive constructor"
		}
		fc.busy[bk] = true
		defer delete(fc.busy, bk)
		all, why := "fresh", "built by the constructor "+cf.Key
		found := false
		core.InspectNoLit(cf.Body, func(n ast.Node) bool {
			if ret, ok := n.(*ast.ReturnStmt); ok && len(ret.Results) > 0 {
				found = true
				v, w := fc.fresh(cf, ret.Results[0], depth+1)
				if v != "fresh" && all == "fresh" {
					all, why = v, w
				}
			}
			return true
		})
		if !found {
			return "", "constructor without a return value: " + cf.Key
		}
		return all, why
	case *ast.SelectorExpr:
		if s := info.Selections[x]; s != nil && s.Kind() == types.FieldVal {
			// a field lives as long as the object that holds it
			v, w := fc.fresh(f, x.X, depth)
			if v == "fresh" {
				// the holder is fresh, but the field may have been filled from something older
				return "", "a field of a fresh object: " + exprStr(x)
			}
			if v == "stale" {
				return "stale", exprStr(x) + " (a field of " + w + ")"
			}
			return v, w
		}
		if obj := identObj(info, x.Sel); obj != nil && obj.Parent() == obj.Pkg().Scope() {
			return "stale", "the package variable " + exprStr(x)
		}
	case *ast.Ident:
		obj := identObj(info, x)
		vv, isVar := obj.(*types.Var)
		if !isVar {
			return "", exprStr(x)
		}
		if vv.Pkg() != nil && vv.Parent() == vv.Pkg().Scope() {
			return "stale", "the package variable " + vv.Name()
		}
		// receiver or parameter?
		idx := -2
		if recvObj(f) == obj {
			idx = -1
		} else {
			for i := 0; ; i++ {
				p := paramAt(f, i)
				if p == nil {
					break
				}
				if p == obj {
					idx = i
					break
				}
			}
		}
		if idx == -2 {
			// a local: declared without a value (its own zero value) is fresh
			if onceDef(f, obj) == nil && hbSingleDef(f, obj) == nil {
				declared := false
				core.InspectNoLit(f.Body, func(n ast.Node) bool {
					if vs, ok := n.(*ast.ValueSpec); ok && len(vs.Values) == 0 {
						for _, nm := range vs.Names {
							if info.Defs[nm] == obj {
								declared = true
							}
						}
					}
					return true
				})
				if declared {
					if _, isPtr := vv.Type().Underlying().(*types.Pointer); !isPtr {
						return "fresh", "a local variable of " + f.Key
					}
				}
			}
			return "", "the local " + vv.Name() + " of " + f.Key + " (assigned more than once)"
		}
		if f == fc.compile || f.Lit != nil {
			return "stale", "the " + map[bool]string{true: "receiver", false: "parameter"}[idx == -1] + " " + vv.Name() + " of " + f.Key
		}
		bk := fmt.Sprintf("%s|%d", f.Key, idx)
		if fc.busy[bk] {
			return "fresh", "recursion" // the other call sites decide
		}
		fc.busy[bk] = true
		defer delete(fc.busy, bk)
		sites := fc.callers[f]
		if len(sites) == 0 {
			return "fresh", "no caller in the shipped program"
		}
		for _, s := range sites {
			var arg ast.Expr
			if idx == -1 {
				arg = core.RecvExpr(s.call)
			} else if idx < len(s.call.Args) {
				arg = s.call.Args[idx]
			}
			if arg == nil {
				return "", "call site without the argument: " + fc.c.Prog.Position(s.call.Pos())
			}
			v, w := fc.fresh(s.f, arg, depth+1)
			if v != "fresh" {
				if v == "stale" {
					w += " at the call in " + s.f.Key + " (" + fc.c.Prog.Position(s.call.Pos()) + ")"
				}
				return v, w
			}
		}
		return "fresh", "fresh at every call site of " + f.Key
	}
	return "", exprStr(e)
}

// resetBefore: every path from the entry of f to ret passes an assignment that
// empties the returned list (nil, an empty literal, or [:0]).
func (fc *freshCtx) resetBefore(f *core.Func, list ast.Expr, ret *ast.ReturnStmt) bool {
	g := f.Graph()
	info := f.Info()
	resets := g.Find(func(n ast.Node) bool {
		as, ok := n.(*ast.AssignStmt)
		if !ok || len(as.Lhs) != len(as.Rhs) {
			return false
		}
		for i, l := range as.Lhs {
			if !hbSameExpr(info, l, list) {
				continue
			}
			r := core.Unparen(as.Rhs[i])
			if isNilIdent(info, r) {
				return true
			}
			if cl, ok := r.(*ast.CompositeLit); ok && len(cl.Elts) == 0 {
				return true
			}
			if se, ok := r.(*ast.SliceExpr); ok && se.High != nil {
				if v, isC := constInt(info, se.High); isC && v == 0 {
					return true
				}
			}
		}
		return false
	})
	if len(resets) == 0 {
		return false
	}
	rp, ok := g.PointOf(ret)
	if !ok {
		return false
	}
	_, found := pathAvoiding(g, nil, []core.Point{rp}, core.HitPoints(resets))
	return !found
}
