package props

import (
	"fmt"
	"go/ast"
	"go/token"
	"go/types"
	"sort"
	"strings"

	"verif/sa/core"
)

func init() { register("C04", c04) }

var intRep = []string{"int", "int64"}

func has(xs []string, x string) bool {
	for _, y := range xs {
		if y == x {
			return true
		}
	}
	return false
}

func c04(c *core.Check) {
	c.Explain = "The VM trusts the code generator at every `i.Operand.(T)`, `t.Pop().(T)` and `v.re[i]`.  This check extracts both sides from /repo's current source — every c.emit site in the code generator with the static Go type of its operand, and every opcode case of vm.execute with the types it asserts on the operand and on popped values — and decides that the beliefs are established: (R1) each operand emitted for an opcode has exactly the Go type the VM case asserts (jump operands after label resolution too); (R2) value representations agree: every Go type the VM or the code generator can push for an mtail Int ({int, int64} — e.g. len() pushes int, arithmetic pushes int64) is accepted by every consumer that accepts any of them (a consumer handling `int` but not `int64` contradicts itself), and no numeric type is pushed that the coercing pops do not know; (R3) operands indexing the regexp, string and metric tables are by construction the index of an element appended at that moment, and each pattern gets its own slot; (R4) every jump label is resolved on all paths and jumps only take labels; (R5) capture-group slices are bounds-checked before indexing. Not decided: stack depth (no bytecode verifier is run), nil maps, faults inside regexp/strconv/time."
	c.Assume = append(c.Assume, "the checker's typing lets any Int-typed expression reach any consumer of Ints without conversion (ASSIGN/ADD_ASSIGN and builtin arguments get no ConvExpr)", "go/types static types of operand expressions")
	vm := extractVM(c)
	if vm == nil {
		c.Undecided("C04-R1", vmExecute, "-", "cannot extract the opcode switch of vm.execute")
		return
	}
	emits, problems := extractEmits(c)
	for _, p := range problems {
		c.Undecided("C04-R1", "emit", "-", p)
	}
	c.Extra["vm_cases"] = len(vm.Cases)
	c.Extra["emit_sites"] = len(emits)

	// ---------- R1
	c.Rule("C04-R1", "OPERAND: for every c.emit(node, OP, x) (and opcode overwrite), the VM case of OP exists and every type it asserts on i.Operand equals the static Go type of x; a nil operand is only emitted for cases that never assert it or test it against nil; resolved jump operands are ints")
	for i, es := range emits {
		for _, op := range es.Ops {
			key := fmt.Sprintf("emit %s(%s)#%d in %s", op, es.OpndType, i+1, es.F.Decl.Name.Name)
			vc := vm.Cases[op]
			if vc == nil {
				c.Fail("C04-R1", key, pos(c, es.Node), "the code generator emits opcode "+op+" for which vm.execute has no case: the instruction is an 'illegal instruction' fault at run time")
				continue
			}
			okAll := true
			why := ""
			for _, a := range vc.OperandAs {
				if typeSwitchWithDefault(c, a.Node) {
					continue // a type switch over the operand that has a default clause takes an operand of any type
				}
				if !has(a.Types, es.OpndType) {
					okAll = false
					why = fmt.Sprintf("the VM case %s asserts i.Operand.(%s) but this site emits an operand of Go type %s", op, strings.Join(a.Types, "|"), es.OpndType)
				}
			}
			if vc.PushOperand && es.OpndType == "nil" {
				okAll = false
				why = "a nil operand is pushed as a value"
			}
			c.Verdict(okAll, "C04-R1", key, pos(c, es.Node), "operand type accepted by the VM case", why+": every execution of the instruction faults (recovered panic or runtime error)")
		}
	}
	// the VM side must have been read: a table without operand assertions would make R1 pass vacuously
	nAssertingCases := 0
	for _, op := range vm.Order {
		if len(vm.Cases[op].OperandAs) > 0 {
			nAssertingCases++
		}
	}
	c.Extra["vm_cases_asserting_operand"] = nAssertingCases
	if nAssertingCases < 16 {
		c.Undecided("C04-R1", "vm operand assertions", pos(c, vm.F.Decl), fmt.Sprintf("only %d opcode cases of vm.execute were found to assert the type of the instruction operand (16 confirmed by reading): the VM side of the comparison was not extracted", nAssertingCases))
	} else {
		c.Ok("C04-R1", "vm operand assertions", pos(c, vm.F.Decl), fmt.Sprintf("%d opcode cases assert the operand type", nAssertingCases))
	}
	// writeJumps
	if wj := c.MustFn("C04-R1", "internal/runtime/compiler/codegen.(*codegen).writeJumps"); wj != nil {
		info := wj.Info()
		g := wj.Graph()
		isOperandField := func(e ast.Expr) bool {
			sel, ok := core.Unparen(e).(*ast.SelectorExpr)
			if !ok {
				return false
			}
			sl := info.Selections[sel]
			return sl != nil && sl.Kind() == types.FieldVal && sel.Sel.Name == "Operand" && strings.HasSuffix(sl.Recv().String(), "code.Instr")
		}
		stores := g.Find(func(x ast.Node) bool {
			as, ok := x.(*ast.AssignStmt)
			return ok && len(as.Lhs) == 1 && len(as.Rhs) == 1 && isOperandField(as.Lhs[0])
		})
		for _, h := range stores {
			as := h.N.(*ast.AssignStmt)
			t := operandType(info, as.Rhs[0])
			c.Verdict(t == "int", "C04-R1", "writeJumps resolved operand", pos(c, as), "int", "a resolved jump operand has Go type "+t+", the VM asserts int")
		}
		if len(stores) == 0 {
			c.Fail("C04-R1", "writeJumps resolved operand", pos(c, wj.Decl), "writeJumps no longer stores the resolved offset: jumps go to label numbers")
		}
		// it must reach the store for each of the jump opcodes emitted with labels, whatever
		// form the opcode test has (switch on the opcode, ==/!= chain, early continue)
		ef := graphFacts(g, func(e ast.Expr) (condFact, bool) {
			b, ok := core.Unparen(e).(*ast.BinaryExpr)
			if !ok || (b.Op != token.EQL && b.Op != token.NEQ) {
				return condFact{}, false
			}
			for _, p := range [][2]ast.Expr{{b.X, b.Y}, {b.Y, b.X}} {
				if op, ok := constOpcode(info, p[0]); ok {
					if t := info.TypeOf(p[1]); t != nil && strings.HasSuffix(t.String(), "code.Opcode") {
						return condFact{"opcode", op, b.Op == token.EQL}, true
					}
				}
			}
			return condFact{}, false
		})
		tested := len(ef.edgesWith(func(f condFact) bool { return f.id == "opcode" })) > 0
		for _, op := range []string{"Jmp", "Jm", "Jnm"} {
			op := op
			_, reached := g.Search(core.Query{Goal: core.At(core.HitPoints(stores)...), AvoidEdge: ef.avoid(func(f condFact) bool { return !f.compatible("opcode", op) })})
			if len(stores) > 0 && !tested {
				c.Undecided("C04-R1", "writeJumps handles "+op, pos(c, wj.Decl), "no test of the instruction's opcode against a constant found in writeJumps: cannot decide which opcodes get their operand resolved")
				continue
			}
			c.Verdict(reached, "C04-R1", "writeJumps handles "+op, pos(c, wj.Decl), "resolved", "jump opcode "+op+" is not resolved by writeJumps: its operand stays a label number")
		}
	}
	c.Floor("C04-R1", 55)

	// ---------- R2
	c.Rule("C04-R2", "REPRESENTATION: Rep(Int) = {int, int64} (both are pushed: see producers in the evidence). Every consumer of an arbitrary value — the type switches of PopInt/PopFloat/PopString and every raw Pop whose value is not fed by an adjacent Push in the code generator — that accepts one member of Rep(Int) accepts both; every numeric Go type pushed by the VM or as a Push operand is accepted by the coercing pop of its class")
	producers := map[string][]string{}
	for _, op := range vm.Order {
		for _, p := range vm.Cases[op].Pushes {
			if !vm.Cases[op].PushOperand || !vm.isInstrOperand(p.Expr) {
				producers[p.Type] = append(producers[p.Type], op)
			}
		}
	}
	for _, es := range emits {
		if has(es.Ops, "Push") {
			producers[es.OpndType] = append(producers[es.OpndType], "Push operand @"+pos(c, es.Node))
		}
	}
	prodSummary := map[string]int{}
	for t, ps := range producers {
		prodSummary[t] = len(ps)
	}
	c.Extra["pushed_go_types"] = prodSummary
	for _, r := range intRep {
		c.Verdict(len(producers[r]) > 0, "C04-R2", "producer of "+r, "-", fmt.Sprintf("%d producers", len(producers[r])), "no producer of Go type "+r+" found: Rep(Int) assumption is stale")
	}
	helpers := map[string][]string{}
	for _, h := range []string{"PopInt", "PopFloat", "PopString"} {
		ts, hf := popHelperTypes(c, h)
		if hf == nil || len(ts) == 0 {
			c.Undecided("C04-R2", h, "-", "type switch of "+h+" not found")
			continue
		}
		helpers[h] = ts
		a, b := has(ts, "int"), has(ts, "int64")
		c.Verdict(a == b, "C04-R2", "consumer thread."+h, pos(c, hf.Decl), "accepts "+strings.Join(ts, ","),
			fmt.Sprintf("%s accepts %s but not %s although both represent an mtail Int on the stack (accepted: %s): an Int-typed expression reaching this pop in the missing representation faults at run time", h, pick(a, "int", "int64"), pick(a, "int64", "int"), strings.Join(ts, ",")))
	}
	// numeric producers known to coercing pops
	var ptypes []string
	for t := range producers {
		ptypes = append(ptypes, t)
	}
	sort.Strings(ptypes)
	for _, t := range ptypes {
		switch t {
		case "string", "bool", "interface{}", "any", "*metrics.Metric", "metrics/datum.Datum", "time.Duration", "nil":
			continue
		}
		isFloat := strings.HasPrefix(t, "float")
		isInt := strings.HasPrefix(t, "int") || strings.HasPrefix(t, "uint")
		switch {
		case isInt:
			c.Verdict(has(helpers["PopInt"], t) && has(helpers["PopString"], t), "C04-R2", "producer type "+t, "-", "known to PopInt and PopString", "values of Go type "+t+" are pushed ("+strings.Join(producers[t], "; ")+") but PopInt/PopString do not accept that representation")
		case isFloat:
			c.Verdict(has(helpers["PopFloat"], t) && has(helpers["PopString"], t), "C04-R2", "producer type "+t, "-", "known to PopFloat and PopString", "values of Go type "+t+" are pushed but PopFloat/PopString do not accept that representation")
		default:
			c.Fail("C04-R2", "producer type "+t, "-", "a value of Go type "+t+" is pushed ("+strings.Join(producers[t], "; ")+") that no consumer class is known for")
		}
	}
	// raw pops
	fedByPush := func(op string, first bool) (string, bool) {
		// all emit sites of op are directly preceded by an emit of Push, and this is the first pop of the case
		if !first {
			return "", false
		}
		t, n := "", 0
		for _, es := range emits {
			if !has(es.Ops, op) || es.Call == nil {
				continue
			}
			n++
			if es.PrevPush == nil || !has(es.PrevPush.Ops, "Push") || len(es.PrevPush.Ops) != 1 {
				return "", false
			}
			if t != "" && t != es.PrevPush.OpndType {
				return "", false
			}
			t = es.PrevPush.OpndType
		}
		return t, n > 0
	}
	compareTypes := []string{}
	if cf := c.Prog.Fn("internal/runtime/vm.compare"); cf != nil {
		ast.Inspect(cf.Body, func(n ast.Node) bool {
			if ta, ok := n.(*ast.TypeAssertExpr); ok && ta.Type != nil {
				compareTypes = append(compareTypes, typeStr(cf.Info().TypeOf(ta.Type)))
			}
			return true
		})
		compareTypes = uniq(compareTypes)
	}
	nraw := 0
	for _, op := range vm.Order {
		vc := vm.Cases[op]
		for k, p := range vc.Pops {
			if p.Kind != "Pop" {
				continue
			}
			nraw++
			key := fmt.Sprintf("consumer %s pop#%d", op, k+1)
			var accepted []string
			handled := true
			for _, a := range p.Asserts {
				accepted = append(accepted, a.Types...)
				if !a.CommaOk {
					handled = false
				}
			}
			for _, callee := range p.PassTo {
				if callee == "internal/runtime/vm.compare" {
					accepted = append(accepted, compareTypes...)
				}
			}
			accepted = uniq(accepted)
			if ft, ok := fedByPush(op, k == 0); ok {
				c.Verdict(has(accepted, ft), "C04-R2", key, pos(c, p.Call), "fed by an adjacent Push of "+ft+", accepted", "the value popped by "+op+" is pushed by the code generator as "+ft+" but the case accepts only "+strings.Join(accepted, ","))
				continue
			}
			if cls, ok := builtinArgClass(c, op, k, len(vc.Pops)); ok && cls != "Int" {
				// the popped value is the argument of a builtin whose declared parameter type is not Int
				want := map[string]string{"String": "string", "Float": "float64", "Bool": "bool"}[cls]
				c.Verdict(want == "" || has(accepted, want), "C04-R2", key, pos(c, p.Call), "builtin parameter of type "+cls+"; accepts "+strings.Join(accepted, ","), "the argument of a builtin declared "+cls+" is popped but "+want+" is not accepted")
				continue
			}
			a, b := has(accepted, "int"), has(accepted, "int64")
			if a != b {
				c.Fail("C04-R2", key, pos(c, p.Call), fmt.Sprintf("%s pops an arbitrary value and accepts %s but not %s (accepted: %s): an mtail Int arriving in the other representation (len() pushes int, arithmetic and literals push int64) is %s", op, pick(a, "int", "int64"), pick(a, "int64", "int"), strings.Join(accepted, ","), pick(handled, "reported as a fault or silently treated as no value", "a panic")))
				continue
			}
			c.Ok("C04-R2", key, pos(c, p.Call), "accepts "+strings.Join(accepted, ","))
		}
	}
	c.Extra["raw_pops"] = nraw
	c.Floor("C04-R2", 20)

	// ---------- R3
	c.Rule("C04-R3", "INDICES: PatternExpr.Index is assigned only as `len(c.obj.Regexps) - 1` directly after `c.obj.Regexps = append(c.obj.Regexps, …)`; the Str operand is `len(c.obj.Strings)-1` directly after the append; Symbol.Addr of a metric is `len(c.obj.Metrics)` directly before the append; operands of Match/Smatch/Rsubst-push come from PatternExpr.Index and of Mload from Symbol.Addr")
	tableSlots(c, "C04-R3")
	for i, es := range emits {
		if es.Call == nil {
			continue
		}
		key := fmt.Sprintf("emit#%d %s table index in %s", i+1, strings.Join(es.Ops, "|"), es.F.Decl.Name.Name)
		switch {
		case has(es.Ops, "Str"):
			ok, why := freshIndex(es.F, es.Operand, "Strings", 0)
			c.Verdict(ok, "C04-R3", key, pos(c, es.Call), "fresh string slot ("+why+")", "the Str operand is not the index of the string just appended ("+why+"): the instruction pushes another string constant or indexes outside the table")
		case has(es.Ops, "Match"), has(es.Ops, "Smatch"):
			c.Verdict(operandFromField(es.F, es.Operand, "Index", "ast.PatternExpr"), "C04-R3", key, pos(c, es.Call), "PatternExpr.Index", "the regexp index operand does not come from PatternExpr.Index")
		case has(es.Ops, "Mload"):
			c.Verdict(symbolAddrOfNode(es.F, es.Operand), "C04-R3", key, pos(c, es.Call), "Symbol.Addr", "the metric index operand does not come from the symbol's address")
		case has(es.Ops, "Rsubst") && es.PrevPush != nil:
			c.Verdict(operandFromField(es.F, es.PrevPush.Operand, "Index", "ast.PatternExpr"), "C04-R3", key, pos(c, es.Call), "pushed regexp index is PatternExpr.Index", "the regexp index pushed for rsubst does not come from PatternExpr.Index")
		}
	}
	c.Floor("C04-R3", 7)

	// ---------- R4
	c.Rule("C04-R4", "LABELS: in every code-generator clause each label from newLabel() reaches setLabel() of that label on every path to the clause's end; every Jnm/Jm/Jmp emit takes such a label as operand")
	for _, k := range c.Prog.SortedFuncKeys() {
		f := c.Prog.Funcs[k]
		if core.Rel(f.Pkg.PkgPath) != "internal/runtime/compiler/codegen" || f.Lit != nil {
			continue
		}
		g := f.Graph()
		labels := labelDefs(f)
		var lobjs []types.Object
		for obj := range labels {
			lobjs = append(lobjs, obj)
		}
		sort.Slice(lobjs, func(i, j int) bool { return lobjs[i].Pos() < lobjs[j].Pos() })
		for _, obj := range lobjs {
			obj, h := obj, labels[obj]
			sets := g.Calls(func(id string, call *ast.CallExpr) bool {
				return strings.HasSuffix(id, ".setLabel") && identObj(f.Info(), call.Args[0]) == obj
			})
			from := h.P
			var goals []core.Point
			for _, e := range normalExits(g) {
				if !afterErrorf(f, e) {
					goals = append(goals, e.P)
				}
			}
			tr, found := pathAvoiding(g, &from, goals, core.HitPoints(sets))
			c.Verdict(!found, "C04-R4", f.Key+"|label "+obj.Name()+"@"+enclosingCaseName(f, h.N), pos(c, h.N), "resolved on every path", "a jump label is created but not placed on some path: jumps to it go to offset -1 (compile error at best, a jump outside the program at worst)", tr...)
			// set at most once per path
			for _, s := range sets {
				from := s.P
				if _, again := pathAvoiding(g, &from, core.HitPoints(sets), nil); again {
					c.Fail("C04-R4", f.Key+"|label "+obj.Name()+" set twice", pos(c, s.N), "a label is placed twice on one path: earlier jumps to it land at the later position")
				}
			}
		}
	}
	for i, es := range emits {
		if es.Call == nil {
			continue
		}
		isJump := false
		for _, op := range es.Ops {
			if op == "Jmp" || op == "Jm" || op == "Jnm" {
				isJump = true
			}
		}
		if !isJump {
			continue
		}
		okLabel := false
		if obj := identObj(es.F.Info(), es.Operand); obj != nil {
			_, okLabel = labelDefs(es.F)[obj]
		}
		c.Verdict(okLabel, "C04-R4", fmt.Sprintf("jump emit#%d %s", i+1, strings.Join(es.Ops, "|")), pos(c, es.Call), "operand is a label", "a jump is emitted whose operand is not a label from newLabel(): writeJumps resolves it through the label table anyway")
	}
	c.Floor("C04-R4", 14)

	// ---------- R5
	c.Rule("C04-R5", "CAPTURE-BOUNDS: every index into a capture-group slice t.matches[r][k] in vm.execute is preceded in its case by `len(t.matches[r]) <= k` leading to errorf and return — or its case is unreachable for compiled programs (Strptime's int form: the code generator never emits a non-string second value)")
	for _, op := range vm.Order {
		vc := vm.Cases[op]
		vm.inspectCase(vc, func(n ast.Node) bool {
			ix, ok := n.(*ast.IndexExpr)
			if !ok {
				return true
			}
			hf := funcContaining(c, ix) // execute, one of its literals, or a helper the case calls
			if hf == nil {
				return true
			}
			info := hf.Info()
			bt := info.TypeOf(ix.X)
			if bt == nil || bt.String() != "[]string" {
				return true
			}
			if tv := info.Types[ix.Index]; tv.Value != nil {
				return true // constant index: not a capture-group reference
			}
			if !isCaptureSlice(hf, ix.X) {
				return true
			}
			key := fmt.Sprintf("%s capture lookup [%s]", op, exprStr(ix.Index))
			base, idx := canonExpr(hf, ix.X), canonExpr(hf, ix.Index)
			g := hf.Graph()
			ef := graphFacts(g, boundsAtom(hf, base, idx))
			p, found := g.PointOf(ix)
			if !found {
				c.Undecided("C04-R5", key, pos(c, ix), "the capture-group lookup is not a node of the control-flow graph of "+hf.Key)
				return true
			}
			inb := func(v string) func(condFact) bool {
				return func(f condFact) bool { return f.id == "inbounds" && f.eq && f.val == v }
			}
			tr, unguarded := g.Search(core.Query{Goal: core.At(p), AvoidEdge: ef.avoid(inb("true"))})
			if unguarded && op == "Strptime" {
				c.Note("C04-R5", key, pos(c, ix), "unguarded, but only reached when the value under the layout is a Go int: the code generator emits strptime's arguments as string expressions (checked: no Push of an int directly precedes a Strptime emit)")
				for _, es := range emits {
					if has(es.Ops, "Strptime") && len(es.Ops) == 1 && es.PrevPush != nil && has(es.PrevPush.Ops, "Push") && es.PrevPush.OpndType == "int" {
						c.Fail("C04-R5", key+"|fed", pos(c, es.Call), "an int is pushed directly before strptime: the unguarded capture-group lookup in the VM becomes reachable")
					}
				}
				return true
			}
			if unguarded {
				c.Fail("C04-R5", key, pos(c, ix), "a capture-group slice is indexed without first comparing its length with the index: a pattern that was evaluated and did not match leaves a nil slice, so referencing its group panics instead of raising the checked 'not enough capture groups' error", g.Trail(tr)...)
				return true
			}
			// the out-of-range side must raise the checked runtime error before the instruction ends
			errs := core.HitPoints(g.CallsTo(vmErrorf))
			silent := false
			for _, start := range ef.edgesWith(inb("false")) {
				start := start
				if tr, quiet := pathAvoiding(g, &start, core.ExitPoints(normalExits(g)), errs); quiet {
					silent = true
					c.Fail("C04-R5", key+"|reported", pos(c, ix), "when the capture group does not exist the instruction ends without raising the runtime error: the reference silently yields nothing (the property lists 'a capture group of a pattern that did not match' as a checked error)", tr...)
					break
				}
			}
			if !silent {
				c.Ok("C04-R5", key, pos(c, ix), "bounds-checked on every path, the out-of-range side raises the runtime error")
			}
			return true
		})
	}
	c.Floor("C04-R5", 2)
}

// typeSwitchWithDefault reports whether n is the guard `x.(type)` of a type switch that has a default clause.
func typeSwitchWithDefault(c *core.Check, n ast.Node) bool {
	ta, ok := n.(*ast.TypeAssertExpr)
	if !ok || ta.Type != nil {
		return false
	}
	f := funcContaining(c, ta)
	if f == nil {
		return false
	}
	found := false
	ast.Inspect(f.Body, func(x ast.Node) bool {
		ts, ok := x.(*ast.TypeSwitchStmt)
		if !ok || found {
			return !found
		}
		if ts.Assign.Pos() <= ta.Pos() && ta.End() <= ts.Assign.End() {
			for _, cl := range ts.Body.List {
				if cl.(*ast.CaseClause).List == nil {
					found = true
				}
			}
		}
		return true
	})
	return found
}

func pick(cond bool, a, b string) string {
	if cond {
		return a
	}
	return b
}

// objTable names the table of code.Object (Regexps, Strings, Metrics) that e
// selects, with the canonical form of the selection; "" if e is no such field.
func objTable(f *core.Func, e ast.Expr) (table, path string) {
	sel, ok := core.Unparen(e).(*ast.SelectorExpr)
	if !ok {
		return "", ""
	}
	s := f.Info().Selections[sel]
	if s == nil || s.Kind() != types.FieldVal || !strings.HasSuffix(s.Recv().String(), "code.Object") {
		return "", ""
	}
	return sel.Sel.Name, canonExpr(f, sel)
}

// appendTo reports whether st is `<X.T> = append(<X.T>, e…)` for a table T of code.Object.
func appendTo(f *core.Func, st ast.Stmt) (table, path string) {
	as, ok := st.(*ast.AssignStmt)
	if !ok || len(as.Lhs) != 1 || len(as.Rhs) != 1 {
		return "", ""
	}
	call, ok := core.Unparen(as.Rhs[0]).(*ast.CallExpr)
	if !ok || len(call.Args) < 2 || f.CalleeID(call) != "builtin.append" {
		return "", ""
	}
	t1, p1 := objTable(f, as.Lhs[0])
	t2, p2 := objTable(f, call.Args[0])
	if t1 == "" || t1 != t2 || p1 != p2 {
		return "", ""
	}
	return t1, p1
}

// mentionsTable reports whether n refers to table T of code.Object.
func mentionsTable(f *core.Func, n ast.Node, table string) bool {
	found := false
	ast.Inspect(n, func(x ast.Node) bool {
		if e, ok := x.(ast.Expr); ok && !found {
			if t, _ := objTable(f, e); t == table {
				found = true
			}
		}
		return !found
	})
	return found
}

// lenOfTable reports whether e is len(<X.T>) and returns the canonical path of X.T.
func lenOfTable(f *core.Func, e ast.Expr, table string) (string, bool) {
	call, ok := core.Unparen(e).(*ast.CallExpr)
	if !ok || len(call.Args) != 1 || f.CalleeID(call) != "builtin.len" {
		return "", false
	}
	t, p := objTable(f, call.Args[0])
	return p, t == table
}

// freshIndex decides whether e, evaluated where it stands in f, is the index
// of an element appended to table T of code.Object at that moment:
//   - `len(X.T) - 1` where the nearest earlier statement of the same statement
//     list that touches T is `X.T = append(X.T, …)`;
//   - `len(X.T)` where the nearest later statement that touches T is that append;
//   - a local variable defined once by such an expression (judged at its definition);
//   - a call of a module function all of whose returns yield such an index.
func freshIndex(f *core.Func, e ast.Expr, table string, depth int) (bool, string) {
	e = core.Unparen(e)
	if depth > 4 {
		return false, "definition chain too deep"
	}
	list, i := stmtContext(f, e)
	if i < 0 {
		return false, "expression not found in a statement list"
	}
	switch x := e.(type) {
	case *ast.Ident:
		if obj := f.Info().Uses[x]; obj != nil {
			if d := onceDef(f, obj); d != nil {
				return freshIndex(f, d, table, depth+1)
			}
		}
		return false, "the variable " + x.Name + " is not defined once from a table length"
	case *ast.BinaryExpr:
		if n, isC := constInt(f.Info(), x.Y); x.Op == token.SUB && isC && n == 1 {
			if p, ok := lenOfTable(f, x.X, table); ok {
				for j := i - 1; j >= 0; j-- {
					if mentionsTable(f, list[j], table) {
						if t, ap := appendTo(f, list[j]); t == table && ap == p {
							return true, "len-1 directly after the append"
						}
						return false, "the statement before it that touches " + table + " is not the append"
					}
				}
				return false, "no append to " + table + " precedes len-1 in its block"
			}
		}
	case *ast.CallExpr:
		if p, ok := lenOfTable(f, x, table); ok {
			for j := i + 1; j < len(list); j++ {
				if mentionsTable(f, list[j], table) {
					if t, ap := appendTo(f, list[j]); t == table && ap == p {
						return true, "len directly before the append"
					}
					return false, "the statement after it that touches " + table + " is not the append"
				}
			}
			return false, "no append to " + table + " follows len in its block"
		}
		if h := f.CalleeFunc(x); h != nil && h.Lit == nil {
			n := 0
			for _, ex := range h.Graph().Exits() {
				if ex.Kind == "panic" {
					continue
				}
				if ex.Ret == nil || len(ex.Ret.Results) != 1 {
					return false, "helper " + h.Key + " does not return the index in a return statement"
				}
				n++
				if ok, why := freshIndex(h, ex.Ret.Results[0], table, depth+1); !ok {
					return false, "helper " + h.Key + ": " + why
				}
			}
			if n > 0 {
				return true, "helper " + h.Key + " appends and returns the index"
			}
		}
	}
	return false, "not derived from the length of " + table
}

// operandFromField reports whether e is X.<field> of the given receiver type, or a local variable defined once as such a selector.
func operandFromField(f *core.Func, e ast.Expr, field, recvSuffix string) bool {
	return fieldOfType(f, e, recvSuffix, field)
}

// symbolAddrOfNode reports whether e is <node>.Symbol.Addr: the Addr field of
// a symbol.Symbol reached through the Symbol field of an ast node (locals in
// between are resolved).
func symbolAddrOfNode(f *core.Func, e ast.Expr) bool {
	if !fieldOfType(f, e, "symbol.Symbol", "Addr") {
		return false
	}
	sel := throughLocals(f, e).(*ast.SelectorExpr)
	inner, ok := throughLocals(f, sel.X).(*ast.SelectorExpr)
	if !ok || inner.Sel.Name != "Symbol" {
		return false
	}
	s := f.Info().Selections[inner]
	return s != nil && s.Kind() == types.FieldVal && strings.Contains(s.Recv().String(), "compiler/ast.")
}

// labelDefs lists the local variables of f defined from newLabel(), whatever
// the form of the definition (`a := c.newLabel()`, `a, b := c.newLabel(),
// c.newLabel()`, `var a = c.newLabel()`), with the CFG point of the definition.
func labelDefs(f *core.Func) map[types.Object]core.Hit {
	info := f.Info()
	isNew := func(e ast.Expr) bool {
		call, ok := core.Unparen(e).(*ast.CallExpr)
		return ok && f.CalleeID(call) == "internal/runtime/compiler/codegen.(*codegen).newLabel"
	}
	out := map[types.Object]core.Hit{}
	for _, h := range f.Graph().Find(func(n ast.Node) bool {
		switch n.(type) {
		case *ast.AssignStmt, *ast.ValueSpec:
			return true
		}
		return false
	}) {
		switch x := h.N.(type) {
		case *ast.AssignStmt:
			if len(x.Lhs) != len(x.Rhs) {
				continue
			}
			for i, l := range x.Lhs {
				if o := identObj(info, l); o != nil && isNew(x.Rhs[i]) {
					out[o] = h
				}
			}
		case *ast.ValueSpec:
			if len(x.Names) != len(x.Values) {
				continue
			}
			for i, nm := range x.Names {
				if o := info.Defs[nm]; o != nil && isNew(x.Values[i]) {
					out[o] = h
				}
			}
		}
	}
	return out
}

// isCaptureSlice reports whether e denotes an element of the thread's
// capture-group table (a map field of vm.thread indexed by the regexp number),
// directly or through a local variable assigned from such an element
// (`groups := t.matches[re]`, `groups, ok := t.matches[re]`).
func isCaptureSlice(f *core.Func, e ast.Expr) bool {
	info := f.Info()
	isElem := func(x ast.Expr) bool {
		ix, ok := core.Unparen(x).(*ast.IndexExpr)
		if !ok {
			return false
		}
		sel, ok := core.Unparen(ix.X).(*ast.SelectorExpr)
		if !ok {
			return false
		}
		s := info.Selections[sel]
		if s == nil || s.Kind() != types.FieldVal || !strings.HasSuffix(s.Recv().String(), "vm.thread") {
			return false
		}
		_, isMap := s.Type().Underlying().(*types.Map)
		return isMap
	}
	if isElem(e) {
		return true
	}
	obj := identObj(info, e)
	if obj == nil {
		return false
	}
	found := false
	var body ast.Node = f.Body
	if f.Decl != nil && f.Decl.Body != nil {
		body = f.Decl.Body
	}
	ast.Inspect(body, func(n ast.Node) bool {
		if as, ok := n.(*ast.AssignStmt); ok {
			for i, l := range as.Lhs {
				if identObj(info, l) == obj && len(as.Rhs) >= 1 && isElem(as.Rhs[min(i, len(as.Rhs)-1)]) {
					found = true
				}
			}
		}
		return true
	})
	return found
}

// boundsAtom reads comparisons between len(base) and idx (both in canonical
// form): the condFact "inbounds" is true when idx < len(base) is established.
// `len(b) < k` / `k > len(b)` establish nothing about k == len(b) and yield no condFact.
func boundsAtom(f *core.Func, base, idx string) atomFn {
	isLen := func(x ast.Expr) bool {
		call, ok := core.Unparen(x).(*ast.CallExpr)
		return ok && len(call.Args) == 1 && f.CalleeID(call) == "builtin.len" && canonExpr(f, call.Args[0]) == base
	}
	isIdx := func(x ast.Expr) bool { return canonExpr(f, x) == idx }
	return func(e ast.Expr) (condFact, bool) {
		b, ok := core.Unparen(e).(*ast.BinaryExpr)
		if !ok {
			return condFact{}, false
		}
		switch {
		case isLen(b.X) && isIdx(b.Y):
			switch b.Op {
			case token.LEQ: // len <= idx: out of range
				return condFact{"inbounds", "false", true}, true
			case token.GTR: // len > idx
				return condFact{"inbounds", "true", true}, true
			}
		case isIdx(b.X) && isLen(b.Y):
			switch b.Op {
			case token.GEQ: // idx >= len
				return condFact{"inbounds", "false", true}, true
			case token.LSS: // idx < len
				return condFact{"inbounds", "true", true}, true
			}
		}
		return condFact{}, false
	}
}

// enclosingCaseName names the case clause (type or token) enclosing n, for stable keys.
func enclosingCaseName(f *core.Func, n ast.Node) string {
	name := ""
	ast.Inspect(f.Body, func(x ast.Node) bool {
		cc, ok := x.(*ast.CaseClause)
		if ok && cc.Pos() <= n.Pos() && n.End() <= cc.End() && len(cc.List) > 0 {
			var parts []string
			for _, e := range cc.List {
				parts = append(parts, strings.TrimPrefix(strings.TrimPrefix(exprStr(e), "*ast."), "parser."))
			}
			name = strings.Join(parts, ",")
		}
		return true
	})
	return name
}

// builtinArgClass maps the k-th pop (0-based) of the VM case of a builtin's
// opcode to the declared mtail type of the corresponding parameter
// (types.Builtins; arguments are pushed left to right, so pops see them in
// reverse).  ok is false when op is not the opcode of exactly one builtin
// with a fixed signature of as many parameters as the case has pops.
func builtinArgClass(c *core.Check, op string, k, npops int) (string, bool) {
	_, byName, _ := mapLiteralOpcodes(c, "internal/runtime/compiler/codegen", "builtin")
	var names []string
	for name, ops := range byName {
		if has(ops, op) {
			names = append(names, name)
		}
	}
	if len(names) != 1 {
		return "", false
	}
	sig := builtinSignatures(c)[names[0]]
	if len(sig) == 0 {
		return "", false
	}
	params := sig[:len(sig)-1]
	if k >= len(params) || npops < len(params) {
		return "", false
	}
	return params[len(params)-1-k], true
}

// builtinSignatures extracts types.Builtins: name -> parameter type names followed by the result type name.
func builtinSignatures(c *core.Check) map[string][]string {
	out := map[string][]string{}
	pkg := c.Prog.Pkgs["internal/runtime/compiler/types"]
	if pkg == nil {
		return out
	}
	for _, file := range pkg.Syntax {
		ast.Inspect(file, func(n ast.Node) bool {
			vs, ok := n.(*ast.ValueSpec)
			if !ok || len(vs.Names) != 1 || vs.Names[0].Name != "Builtins" || len(vs.Values) != 1 {
				return true
			}
			lit, ok := vs.Values[0].(*ast.CompositeLit)
			if !ok {
				return true
			}
			for _, el := range lit.Elts {
				kv := el.(*ast.KeyValueExpr)
				name := strings.Trim(exprStr(kv.Key), `"`)
				call, ok := kv.Value.(*ast.CallExpr)
				if !ok {
					continue
				}
				var sig []string
				for _, a := range call.Args {
					sig = append(sig, exprStr(a))
				}
				out[name] = sig
			}
			return false
		})
	}
	return out
}

// tableSlots checks that every assignment to PatternExpr.Index / a metric
// symbol's Addr is the index of an element appended at that moment.
func tableSlots(c *core.Check, rule string) {
	for _, k := range c.Prog.SortedFuncKeys() {
		f := c.Prog.Funcs[k]
		if f.Lit != nil || c.Prog.IsTestSupport(f) {
			continue
		}
		info := f.Info()
		ast.Inspect(f.Body, func(n ast.Node) bool {
			as, ok := n.(*ast.AssignStmt)
			if !ok || len(as.Lhs) != len(as.Rhs) {
				return true
			}
			for i, l := range as.Lhs {
				sel, ok := core.Unparen(l).(*ast.SelectorExpr)
				if !ok {
					continue
				}
				s := info.Selections[sel]
				if s == nil || s.Kind() != types.FieldVal {
					continue
				}
				recvT := s.Recv().String()
				rhs := strings.ReplaceAll(exprStr(as.Rhs[i]), " ", "")
				switch {
				case sel.Sel.Name == "Index" && strings.HasSuffix(recvT, "ast.PatternExpr"):
					c.Analysed(f)
					ok, why := freshIndex(f, as.Rhs[i], "Regexps", 0)
					c.Verdict(ok, rule, f.Key+"|PatternExpr.Index", pos(c, as), "fresh slot ("+why+")", "a pattern's regexp index is not the index of a regexp appended for it at that moment ("+rhs+": "+why+"): it may be out of range or shared with another pattern, whose capture groups it then overwrites")
				case sel.Sel.Name == "Addr" && strings.HasSuffix(recvT, "symbol.Symbol"):
					c.Analysed(f)
					if core.Rel(f.Pkg.PkgPath) == "internal/runtime/compiler/codegen" {
						ok, why := freshIndex(f, as.Rhs[i], "Metrics", 0)
						c.Verdict(ok, rule, f.Key+"|Symbol.Addr", pos(c, as), "index of the metric appended at that moment ("+why+")", "a metric symbol's address is not the index at which its metric is appended ("+rhs+": "+why+")")
					} else {
						c.Ok(rule, f.Key+"|Symbol.Addr", pos(c, as), "capture-group number assigned by the checker; the VM bounds-checks it (R5)")
					}
				}
			}
			return true
		})
	}
}
