package props

import (
	"fmt"
	"go/ast"
	"go/token"
	"go/types"
	"sort"
	"strings"

	"verif/sa/core"
)

func init() { register("C05", c05); register("C07", c07) }

const (
	processLogLine = "internal/runtime/vm.(*VM).ProcessLogLine"
	vmParseTime    = "internal/runtime/vm.(*VM).ParseTime"
	vmNew          = "internal/runtime/vm.New"
)

// closureFrom returns the declared functions reachable from root through statically resolved calls (root included).
func closureFrom(root *core.Func) []*core.Func {
	seen := map[*core.Func]bool{root: true}
	work := []*core.Func{root}
	var out []*core.Func
	for len(work) > 0 {
		f := work[0]
		work = work[1:]
		out = append(out, f)
		for _, cf := range f.Callees() {
			if !seen[cf] {
				seen[cf] = true
				work = append(work, cf)
			}
		}
	}
	sort.Slice(out, func(i, j int) bool { return out[i].Key < out[j].Key })
	return out
}

type fieldWrite struct {
	f     *core.Func
	node  ast.Node
	owner string // "VM" or "thread"
	field string
	how   string
}

// stateWrites lists writes to fields of vm.VM and vm.thread (assignment, inc/dec, append-to, map store, delete, mutating method call on the field) in fs.
func stateWrites(fs []*core.Func) []fieldWrite {
	var out []fieldWrite
	for _, f := range fs {
		info := f.Info()
		fieldOf := func(e ast.Expr) (string, string, bool) {
			// strip index/slice to reach the selector
			for {
				switch x := core.Unparen(e).(type) {
				case *ast.IndexExpr:
					e = x.X
					continue
				case *ast.SliceExpr:
					e = x.X
					continue
				case *ast.StarExpr:
					e = x.X
					continue
				}
				break
			}
			sel, ok := core.Unparen(e).(*ast.SelectorExpr)
			if !ok {
				return "", "", false
			}
			s := info.Selections[sel]
			if s == nil || s.Kind() != types.FieldVal {
				return "", "", false
			}
			r := s.Recv().String()
			switch {
			case strings.HasSuffix(r, "vm.VM"):
				return "VM", sel.Sel.Name, true
			case strings.HasSuffix(r, "vm.thread"):
				return "thread", sel.Sel.Name, true
			}
			return "", "", false
		}
		ast.Inspect(f.Body, func(n ast.Node) bool {
			switch x := n.(type) {
			case *ast.AssignStmt:
				for _, l := range x.Lhs {
					if o, fl, ok := fieldOf(l); ok {
						out = append(out, fieldWrite{f, x, o, fl, "assign"})
					}
				}
			case *ast.IncDecStmt:
				if o, fl, ok := fieldOf(x.X); ok {
					out = append(out, fieldWrite{f, x, o, fl, "incdec"})
				}
			case *ast.CallExpr:
				id := f.CalleeID(x)
				if id == "builtin.delete" && len(x.Args) > 0 {
					if o, fl, ok := fieldOf(x.Args[0]); ok {
						out = append(out, fieldWrite{f, x, o, fl, "delete"})
					}
				}
				// mutating method on a field value (pointer receiver of a non-module type, e.g. lru.Cache.Add)
				if r := core.RecvExpr(x); r != nil {
					if o, fl, ok := fieldOf(r); ok {
						m := id[strings.LastIndex(id, ".")+1:]
						switch m {
						case "Add", "Remove", "RemoveOldest", "Clear", "Set", "Store", "Delete", "Reset", "Put", "Push":
							out = append(out, fieldWrite{f, x, o, fl, "call " + m})
						}
					}
				}
			}
			return true
		})
	}
	return out
}

func c05(c *core.Check) {
	c.Explain = "Cross-line state audit of the VM.  From /repo's current source the check computes every write to a field of vm.VM and vm.thread, and to package-level variables, in the functions reachable from ProcessLogLine, and requires each written location to be provably one of: (fresh) the per-line thread and its map/slice are created anew in ProcessLogLine before the first instruction on every path, and v.input is assigned there; (reset) v.terminate is only set within the dynamic extent of execute and ProcessLogLine tests it after every execute, resetting it before returning; (diagnostic) runtimeError/trace are never read by the interpreter; (keyed monitoring) package-level writes are the per-program counters; (memo) the strptime memo — whose key must contain every varying input of the memoised function and which must not store a failed parse (R2).  Any other written field is cross-line state and a violation.  Not decided: state inside regexp/time/lru; wall-clock reads."
	c.Assume = append(c.Assume, "regexp.Regexp, time.Parse and groupcache/lru are semantically stateless apart from the cache contents", "metrics are the permitted channel between lines")
	pll := c.MustFn("C05-R1", processLogLine)
	if pll == nil {
		return
	}
	fs := closureFrom(pll)
	var vmfs []*core.Func
	for _, f := range fs {
		if core.Rel(f.Pkg.PkgPath) == "internal/runtime/vm" {
			vmfs = append(vmfs, f)
			c.Analysed(f)
		}
	}
	writes := stateWrites(vmfs)
	c.Extra["functions_reachable_from_ProcessLogLine_in_vm"] = len(vmfs)

	c.Rule("C05-R1", "AUDIT: every field of vm.VM / vm.thread written under ProcessLogLine is classified by a checked argument — fresh (assigned in ProcessLogLine from the thread created in this call, or from its parameter), reset (a flag only ever assigned constants: tested after every instruction and cleared before the line is left), diagnostic (read only by the error reporter, to update itself, or in a presence test), memo (the cache of C05-R2) — whatever the fields are called; a written field that fits no class fails")
	exe := c.Prog.Fn(vmExecute)
	memoFields := map[string]bool{}
	if exe != nil {
		ops, _ := memoOps(c, exe)
		for _, op := range ops {
			if op.field != "" {
				memoFields[op.field] = true
			}
		}
	}
	reportFns := map[*core.Func]bool{}
	if ef := c.Prog.Fn(vmErrorf); ef != nil {
		for _, f := range closureFrom(ef) {
			reportFns[f] = true
		}
	}
	byField := map[string][]fieldWrite{}
	for _, w := range writes {
		if w.owner == "VM" {
			byField[w.field] = append(byField[w.field], w)
		}
	}
	// the value assigned to the field by an assignment write
	rhsOf := func(w fieldWrite) ast.Expr {
		as, ok := w.node.(*ast.AssignStmt)
		if !ok || len(as.Lhs) != len(as.Rhs) || as.Tok != token.ASSIGN {
			return nil
		}
		for i, l := range as.Lhs {
			if isVMField(w.f.Info(), l, w.field) {
				return as.Rhs[i]
			}
		}
		return nil
	}
	// diagnostic: outside the error reporter the field is only read to update itself or to test its presence
	diagnostic := func(field string) (bool, string) {
		for _, f := range vmfs {
			if reportFns[f] {
				continue
			}
			info := f.Info()
			fine := map[*ast.SelectorExpr]bool{}
			mark := func(n ast.Node) {
				ast.Inspect(n, func(x ast.Node) bool {
					if sel, ok := x.(*ast.SelectorExpr); ok && isVMField(info, sel, field) {
						fine[sel] = true
					}
					return true
				})
			}
			ast.Inspect(f.Body, func(n ast.Node) bool {
				switch x := n.(type) {
				case *ast.AssignStmt:
					for _, l := range x.Lhs {
						root := l
						for {
							if ix, ok := core.Unparen(root).(*ast.IndexExpr); ok {
								root = ix.X
								continue
							}
							break
						}
						if isVMField(info, root, field) {
							mark(x) // self-update: reads on the right only flow back into the field
						}
					}
				case *ast.IncDecStmt:
					if isVMField(info, x.X, field) {
						mark(x)
					}
				case *ast.BinaryExpr:
					if y, _, ok := nilTest(info, x); ok && isVMField(info, y, field) {
						mark(x)
					}
				}
				return true
			})
			bad := ""
			ast.Inspect(f.Body, func(n ast.Node) bool {
				if sel, ok := n.(*ast.SelectorExpr); ok && bad == "" && isVMField(info, sel, field) && !fine[sel] {
					bad = f.Key + " at " + c.Prog.Position(sel.Pos())
				}
				return true
			})
			if bad != "" {
				return false, bad
			}
		}
		return true, ""
	}
	resetFields := map[string]bool{}
	classify := func(field string) (string, bool) {
		ws := byField[field]
		if memoFields[field] {
			return "memo: the cache of the memo operations of execute, see C05-R2", true
		}
		allThread, allParam, allConst := true, true, true
		for _, w := range ws {
			r := rhsOf(w)
			var o types.Object
			if r != nil {
				o = identObj(w.f.Info(), r)
			}
			if w.f != pll || o == nil || isParam(pll, o) || !strings.HasSuffix(strings.TrimPrefix(o.Type().String(), "*"), "vm.thread") {
				allThread = false
			}
			if w.f != pll || o == nil || !isParam(pll, o) {
				allParam = false
			}
			if r == nil {
				allConst = false
			} else if _, isC := constBool(w.f.Info(), r); !isC {
				allConst = false
			}
		}
		if allThread || allParam {
			// fresh only if this very field is assigned before the first instruction on every path
			pg := pll.Graph()
			var at []core.Point
			for _, w := range ws {
				if p, ok := pg.PointOf(w.node); ok {
					at = append(at, p)
				}
			}
			if _, late := pathAvoiding(pg, nil, core.HitPoints(pg.CallsTo(vmExecute)), at); late || len(at) != len(ws) {
				return "assigned in ProcessLogLine, but an instruction can run before the assignment: it still holds the previous line's value then", false
			}
		}
		switch {
		case allThread:
			return "fresh: assigned in ProcessLogLine from the thread variable (its creation in this call is checked below)", true
		case allParam:
			return "fresh: assigned in ProcessLogLine from its parameter before the loop (checked below)", true
		case allConst:
			resetFields[field] = true
			return "reset: a flag only assigned constants, see the reset rules", true
		}
		if ok, where := diagnostic(field); ok {
			return "diagnostic: outside the error reporter only read to update itself or to test its presence", true
		} else if where != "" {
			return "read in " + where, false
		}
		return "", false
	}
	classOf := map[string]string{}
	classOK := map[string]bool{}
	for _, fld := range sortedKeys(byField) {
		classOf[fld], classOK[fld] = classify(fld)
	}
	c.Extra["vm_field_classes"] = classOf
	seen := map[string]bool{}
	for _, w := range writes {
		k := w.owner + "." + w.field
		if seen[k+w.f.Key] {
			continue
		}
		seen[k+w.f.Key] = true
		key := k + " in " + w.f.Key
		if w.owner == "thread" {
			c.Ok("C05-R1", key, pos(c, w.node), "per-line thread (freshness checked below)")
			continue
		}
		if classOK[w.field] {
			c.Ok("C05-R1", key, pos(c, w.node), classOf[w.field])
			continue
		}
		extra := ""
		if classOf[w.field] != "" {
			extra = " (it is " + classOf[w.field] + ")"
		}
		c.Fail("C05-R1", key, pos(c, w.node), "VM field "+w.field+" is written ("+w.how+") while a line is processed and is not known to be fresh, reset, diagnostic or a transparent memo"+extra+": its value survives into the next line")
	}
	threadFreshness(c, "C05-R1", pll)
	g := pll.Graph()
	execs := g.CallsTo(vmExecute)
	inExtent := map[*core.Func]bool{}
	if exe != nil {
		for _, f := range closureFrom(exe) {
			inExtent[f] = true
		}
	}
	// callers of errorf (which sets the stop flag) must be in the extent of execute
	for _, k := range c.Prog.SortedFuncKeys() {
		f := c.Prog.Funcs[k]
		if core.Rel(f.Pkg.PkgPath) != "internal/runtime/vm" || c.Prog.IsTestSupport(f) {
			continue
		}
		decl := c.Prog.FuncOf[f.Decl]
		core.InspectNoLit(f.Body, func(n ast.Node) bool {
			if call, ok := n.(*ast.CallExpr); ok && f.CalleeID(call) == vmErrorf {
				c.Verdict(inExtent[decl] && (f.Lit == nil || decl.Key == vmExecute), "C05-R1", "errorf called in "+f.Key, pos(c, call), "within the extent of execute", "a runtime error is raised (which sets the stop flag) outside execute's dynamic extent: the flag is not reset for the next line")
			}
			return true
		})
	}
	if len(resetFields) == 0 {
		c.Undecided("C05-R1", processLogLine+"|stop flag", pos(c, pll.Decl), "no flag field of the VM (assigned only constants under ProcessLogLine) found: the reset protocol cannot be located")
	}
	// reset protocol, for every flag field
	for _, flag := range sortedKeys(resetFields) {
		flag := flag
		for _, f := range vmfs {
			ast.Inspect(f.Body, func(n ast.Node) bool {
				if as, ok := n.(*ast.AssignStmt); ok && len(as.Lhs) == len(as.Rhs) {
					for i, l := range as.Lhs {
						if v, isC := constBool(f.Info(), as.Rhs[i]); isVMField(f.Info(), l, flag) && isC && v {
							c.Verdict(inExtent[f], "C05-R1", flag+"=true in "+f.Key, pos(c, as), "within the extent of execute", "the stop flag is set outside execute's dynamic extent (e.g. in a recover handler of ProcessLogLine): the test-and-reset after execute is bypassed and the flag aborts the next line")
						}
					}
				}
				return true
			})
		}
		if len(execs) == 0 {
			continue
		}
		// The flag is read in conditions of any shape (`if v.terminate`, `if !v.terminate { continue }`,
		// `v.terminate == true`, a loop condition, a switch): each condition is reduced to what it
		// establishes about the flag on its two out-edges.
		ef := graphFacts(g, func(e ast.Expr) (condFact, bool) {
			if isVMField(pll.Info(), e, flag) {
				return condFact{flag, "true", true}, true
			}
			return condFact{}, false
		})
		tested := func(f condFact) bool { return f.id == flag }
		isSet := func(f condFact) bool { return f.id == flag && f.eq && f.val == "true" }
		goals := append(core.ExitPoints(normalExits(g)), core.HitPoints(execs)...)
		for _, e := range execs {
			from := e.P
			tr, found := g.Search(core.Query{From: &from, Goal: core.At(goals...), AvoidEdge: ef.avoid(tested)})
			c.Verdict(!found, "C05-R1", processLogLine+"|"+flag+" tested after execute", pos(c, e.N), "tested on every path", "after an instruction the stop flag is not tested on some path: a stop or runtime error does not end the line, or the flag leaks into the next line", g.Trail(tr)...)
		}
		resets := g.Find(func(n ast.Node) bool {
			as, ok := n.(*ast.AssignStmt)
			if !ok || len(as.Lhs) != len(as.Rhs) {
				return false
			}
			for i, l := range as.Lhs {
				if v, isC := constBool(pll.Info(), as.Rhs[i]); isVMField(pll.Info(), l, flag) && isC && !v {
					return true
				}
			}
			return false
		})
		setEdges := ef.edgesWith(isSet)
		if len(setEdges) == 0 {
			c.Undecided("C05-R1", processLogLine+"|"+flag+" reset", pos(c, pll.Decl), "no condition of ProcessLogLine establishes that the stop flag is set: cannot decide where it has to be cleared")
		}
		for k := range setEdges {
			start := setEdges[k]
			tr, found := pathAvoiding(g, &start, goals, core.HitPoints(resets))
			c.Verdict(!found, "C05-R1", processLogLine+"|"+flag+" reset", ppos(c, core.Point{B: start.B, I: 0}, pll), "reset before leaving", "the stop flag is not cleared when a line is abandoned: the next line is abandoned after its first instruction", tr...)
		}
		// other readers of the flag
		for _, f := range vmfs {
			if f == pll {
				continue
			}
			ast.Inspect(f.Body, func(n ast.Node) bool {
				sel, ok := n.(*ast.SelectorExpr)
				if ok && isVMField(f.Info(), sel, flag) {
					isWrite := false
					ast.Inspect(f.Body, func(m ast.Node) bool {
						if as, ok := m.(*ast.AssignStmt); ok {
							for _, l := range as.Lhs {
								if l == ast.Expr(sel) {
									isWrite = true
								}
							}
						}
						return true
					})
					if !isWrite {
						c.Note("C05-R1", flag+" read in "+f.Key, pos(c, sel), "read within the same line's extent")
					}
				}
				return true
			})
		}
	}
	// package-level writes
	for _, f := range vmfs {
		info := f.Info()
		ast.Inspect(f.Body, func(n ast.Node) bool {
			var lhs []ast.Expr
			switch x := n.(type) {
			case *ast.AssignStmt:
				if x.Tok != token.DEFINE {
					lhs = x.Lhs
				}
			case *ast.IncDecStmt:
				lhs = []ast.Expr{x.X}
			}
			for _, l := range lhs {
				root := l
				for {
					switch y := core.Unparen(root).(type) {
					case *ast.IndexExpr:
						root = y.X
						continue
					case *ast.SelectorExpr:
						if _, isPkg := info.Uses[identOf(y.X)].(*types.PkgName); !isPkg {
							root = y.X
							continue
						}
					case *ast.StarExpr:
						root = y.X
						continue
					}
					break
				}
				if v, ok := usedObj(info, root).(*types.Var); ok && v.Parent() == v.Pkg().Scope() {
					c.Fail("C05-R1", "package variable "+v.Name()+" written in "+f.Key, pos(c, n), "a package-level variable is written while a line is processed: state shared across lines (and programs)")
				}
			}
			return true
		})
	}
	c.Floor("C05-R1", 14)

	c05memo(c, "C05-R2")
}

func identOf(e ast.Expr) *ast.Ident {
	id, _ := core.Unparen(e).(*ast.Ident)
	return id
}

func isParam(f *core.Func, o types.Object) bool {
	for _, fl := range f.Type.Params.List {
		for _, n := range fl.Names {
			if f.Info().Defs[n] == o {
				return true
			}
		}
	}
	return false
}

func threadStruct(c *core.Check) *types.Struct {
	pkg := c.Prog.Pkgs["internal/runtime/vm"]
	if pkg == nil {
		return nil
	}
	o := pkg.Types.Scope().Lookup("thread")
	if o == nil {
		return nil
	}
	st, _ := o.Type().Underlying().(*types.Struct)
	return st
}

// memoOp is a lookup or an insertion on an lru cache held in a field of the
// VM, made in execute directly or through a pass-through wrapper function.
type memoOp struct {
	hit   core.Hit
	call  *ast.CallExpr
	add   bool
	field string   // VM field holding the cache
	key   ast.Expr // key expression at the call site in execute
	val   ast.Expr // inserted value (add only)
	via   string   // wrapper function key, "" if direct
}

func isLRU(id, method string) bool { return strings.HasSuffix(id, "lru.(*Cache)."+method) }

// vmFieldIn returns the name of the first field of vm.VM selected in the chain of e.
func vmFieldIn(info *types.Info, e ast.Expr) string {
	name := ""
	ast.Inspect(e, func(n ast.Node) bool {
		if sel, ok := n.(*ast.SelectorExpr); ok && name == "" {
			if s := info.Selections[sel]; s != nil && s.Kind() == types.FieldVal && strings.HasSuffix(s.Recv().String(), "vm.VM") {
				name = sel.Sel.Name
			}
		}
		return name == ""
	})
	return name
}

// paramPos returns the position of obj among the parameters of f, or -1.
func paramPos(f *core.Func, obj types.Object) int {
	i := 0
	for _, fl := range f.Type.Params.List {
		if len(fl.Names) == 0 {
			i++
			continue
		}
		for _, n := range fl.Names {
			if obj != nil && f.Info().Defs[n] == obj {
				return i
			}
			i++
		}
	}
	return -1
}

// memoOps finds the memo operations of execute.  stray lists cache insertions
// reachable from execute that are neither made in execute nor inside a
// recognised pass-through wrapper.
func memoOps(c *core.Check, exe *core.Func) (ops []memoOp, stray []string) {
	info := exe.Info()
	wrappers := map[*core.Func]bool{}
	for _, h := range exe.Graph().Calls(func(id string, call *ast.CallExpr) bool { return true }) {
		call := h.N.(*ast.CallExpr)
		id := exe.CalleeID(call)
		switch {
		case isLRU(id, "Add") && len(call.Args) == 2 && core.RecvExpr(call) != nil:
			ops = append(ops, memoOp{hit: h, call: call, add: true, field: vmFieldIn(info, core.RecvExpr(call)), key: call.Args[0], val: call.Args[1]})
		case isLRU(id, "Get") && len(call.Args) == 1 && core.RecvExpr(call) != nil:
			ops = append(ops, memoOp{hit: h, call: call, field: vmFieldIn(info, core.RecvExpr(call)), key: call.Args[0]})
		default:
			w := exe.CalleeFunc(call)
			if w == nil || w.Lit != nil || w.Pkg != exe.Pkg {
				continue
			}
			// a pass-through wrapper: one cache call in its body whose key (and value) are its own parameters
			var inner []*ast.CallExpr
			ast.Inspect(w.Body, func(n ast.Node) bool {
				if ic, ok := n.(*ast.CallExpr); ok {
					if iid := w.CalleeID(ic); isLRU(iid, "Add") || isLRU(iid, "Get") {
						inner = append(inner, ic)
					}
				}
				return true
			})
			if len(inner) != 1 {
				continue
			}
			ic := inner[0]
			isAdd := isLRU(w.CalleeID(ic), "Add")
			ki := paramPos(w, identObj(w.Info(), ic.Args[0]))
			if ki < 0 || ki >= len(call.Args) {
				continue
			}
			field := ""
			if r := core.RecvExpr(call); r != nil {
				field = vmFieldIn(info, r)
			}
			if field == "" && core.RecvExpr(ic) != nil {
				field = vmFieldIn(w.Info(), core.RecvExpr(ic))
			}
			op := memoOp{hit: h, call: call, add: isAdd, field: field, key: call.Args[ki], via: w.Key}
			if isAdd {
				vi := paramPos(w, identObj(w.Info(), ic.Args[1]))
				if vi < 0 || vi >= len(call.Args) {
					continue
				}
				op.val = call.Args[vi]
			}
			wrappers[w] = true
			c.Analysed(w)
			ops = append(ops, op)
		}
	}
	for _, f := range closureFrom(exe) {
		if f == exe || f.Pkg != exe.Pkg || wrappers[f] {
			continue
		}
		ast.Inspect(f.Body, func(n ast.Node) bool {
			if ic, ok := n.(*ast.CallExpr); ok && isLRU(f.CalleeID(ic), "Add") {
				stray = append(stray, f.Key+" at "+c.Prog.Position(ic.Pos()))
			}
			return true
		})
	}
	return
}

// stopFlags lists the boolean fields of the VM that the error reporter errorf sets to true: the signal "this instruction failed".
func stopFlags(c *core.Check) map[string]bool {
	out := map[string]bool{}
	ef := c.Prog.Fn(vmErrorf)
	if ef == nil {
		return out
	}
	info := ef.Info()
	ast.Inspect(ef.Body, func(n ast.Node) bool {
		if as, ok := n.(*ast.AssignStmt); ok && len(as.Lhs) == len(as.Rhs) {
			for i, l := range as.Lhs {
				sel, isSel := core.Unparen(l).(*ast.SelectorExpr)
				if v, isC := constBool(info, as.Rhs[i]); isSel && isC && v && isVMField(info, l, sel.Sel.Name) {
					out[sel.Sel.Name] = true
				}
			}
		}
		return true
	})
	return out
}

// closureAvoiding returns the declared functions reachable from root without passing through a function with key stop.
func closureAvoiding(root *core.Func, stop string) []*core.Func {
	seen := map[*core.Func]bool{root: true}
	work := []*core.Func{root}
	var out []*core.Func
	for len(work) > 0 {
		f := work[0]
		work = work[1:]
		out = append(out, f)
		for _, cf := range f.Callees() {
			if !seen[cf] && cf.Key != stop {
				seen[cf] = true
				work = append(work, cf)
			}
		}
	}
	sort.Slice(out, func(i, j int) bool { return out[i].Key < out[j].Key })
	return out
}

// c05memo decides memo transparency for every Get/Add pair on an lru cache field of the VM.
func c05memo(c *core.Check, rule string) {
	c.Rule(rule, "MEMO: for each insertion cache.Add(k, val) on a VM cache field made by execute (directly or through a pass-through wrapper) where val is the result of a call f(args…): (a) a lookup on the same cache uses the same key (compared after resolving local variables); (b) every variable argument of f occurs in k; (c) the insertion is reached from the call of f only over an edge on which a failure of f (signalled through the stop flag or an error/ok result) is known not to have happened, so a failed result is never stored; (d) every VM field read by f and the functions it calls (the error reporter excepted) is only ever assigned in vm.New; (e) where the value found on a hit is stored, the miss stores exactly the value it inserted; the cache field itself is assigned only in vm.New")
	exe := c.Prog.Fn(vmExecute)
	if exe == nil {
		c.Undecided(rule, vmExecute, "-", "execute not found")
		return
	}
	info := exe.Info()
	g := exe.Graph()
	flags := stopFlags(c)
	ops, stray := memoOps(c, exe)
	for _, s := range stray {
		c.Undecided(rule, "memo insertion outside execute", "-", "a cache insertion reachable from execute is made in "+s+", which is not a pass-through wrapper called from execute: the memo's key, producer and failure test cannot be located")
	}
	var adds, gets []memoOp
	for _, op := range ops {
		if op.add {
			adds = append(adds, op)
		} else {
			gets = append(gets, op)
		}
	}
	c.Extra["memo_sites"] = len(adds)
	if len(adds) == 0 {
		if len(stray) == 0 {
			c.Note(rule, "no memo", "-", "no cache insertion found in or under execute: nothing memoised")
		}
		return
	}
	fields := map[string]bool{}
	for i, a := range adds {
		call := a.call
		cache := a.field
		if cache == "" {
			c.Undecided(rule, fmt.Sprintf("memo Add#%d", i+1), pos(c, call), "the cache of this insertion is not held in a field of the VM")
			continue
		}
		fields[cache] = true
		key := fmt.Sprintf("v.%s Add#%d", cache, i+1)
		kexpr := a.key
		// (a)
		sameKey := false
		for _, gt := range gets {
			if gt.field == cache && canonExpr(exe, gt.key) == canonExpr(exe, kexpr) {
				sameKey = true
			}
		}
		c.Verdict(sameKey, rule, key+"|a same key", pos(c, call), "lookup and insertion use "+exprStr(kexpr), "the memo is filled under a key expression that the lookup does not use")
		// find the producing call
		valObj := identObj(info, a.val)
		var prod *ast.CallExpr
		if valObj != nil {
			ast.Inspect(exe.Body, func(n ast.Node) bool {
				if as, ok := n.(*ast.AssignStmt); ok && as.End() <= call.Pos() {
					for j, l := range as.Lhs {
						if identObj(info, l) == valObj && len(as.Rhs) >= 1 {
							if pc, ok := core.Unparen(as.Rhs[min(j, len(as.Rhs)-1)]).(*ast.CallExpr); ok {
								prod = pc
							}
						}
					}
				}
				return true
			})
		} else if pc, ok := core.Unparen(a.val).(*ast.CallExpr); ok {
			prod = pc
		}
		if prod == nil {
			c.Undecided(rule, key+"|producer", pos(c, call), "cannot find the call producing the memoised value")
			continue
		}
		// (b) key components: the variables the key is built from, local definitions resolved
		keyIdents := map[types.Object]bool{}
		var collectKey func(e ast.Expr, depth int)
		collectKey = func(e ast.Expr, depth int) {
			ast.Inspect(e, func(n ast.Node) bool {
				if id, ok := n.(*ast.Ident); ok {
					if o := info.Uses[id]; o != nil {
						keyIdents[o] = true
						if depth < 4 {
							if d := onceDef(exe, o); d != nil {
								if _, isCall := core.Unparen(d).(*ast.CallExpr); !isCall {
									collectKey(d, depth+1)
								}
							}
						}
					}
				}
				return true
			})
		}
		collectKey(kexpr, 0)
		var missing []string
		for _, arg := range prod.Args {
			if tv := info.Types[arg]; tv.Value != nil {
				continue
			}
			ao := identObj(info, arg)
			if ao == nil || !keyIdents[ao] {
				missing = append(missing, exprStr(arg))
			}
		}
		c.Verdict(len(missing) == 0, rule, key+"|b key covers inputs", pos(c, call), "every argument of "+exprStr(prod.Fun)+" is part of the key",
			"the memoised result of "+exprStr(prod.Fun)+"("+joinExprs(prod.Args)+") is keyed by "+exprStr(kexpr)+" only; argument(s) "+strings.Join(missing, ", ")+" are missing from the key: the same text parsed under a different one returns the earlier result")
		// (c) the insertion is reached only over an edge that excludes a failure of the producer
		pf := exe.CalleeFunc(prod)
		if pp, ok := g.PointOf(prod); ok {
			producerCanFail := false
			if pf != nil {
				for _, cf := range closureFrom(pf) {
					if cf.Key == vmErrorf {
						producerCanFail = true
					}
				}
			}
			// variables bound to further results of the producer (err, ok)
			resultVars := map[types.Object]bool{}
			ast.Inspect(exe.Body, func(n ast.Node) bool {
				if as, ok := n.(*ast.AssignStmt); ok && len(as.Rhs) == 1 && core.Unparen(as.Rhs[0]) == ast.Expr(prod) {
					for _, l := range as.Lhs[1:] {
						if o := identObj(info, l); o != nil {
							resultVars[o] = true
							producerCanFail = true
						}
					}
				}
				return true
			})
			ef := graphFacts(g, func(e ast.Expr) (condFact, bool) {
				for fl := range flags {
					if isVMField(info, e, fl) {
						return condFact{"failed", "true", true}, true
					}
				}
				if o := identObj(info, e); o != nil && resultVars[o] {
					if bt, ok := o.Type().Underlying().(*types.Basic); ok && bt.Info()&types.IsBoolean != 0 {
						return condFact{"failed", "false", true}, true // ok result
					}
				}
				if x, nonNilWhenTrue, ok := nilTest(info, e); ok {
					if o := identObj(info, x); o != nil && resultVars[o] {
						if nonNilWhenTrue {
							return condFact{"failed", "true", true}, true
						}
						return condFact{"failed", "false", true}, true
					}
				}
				return condFact{}, false
			})
			if producerCanFail {
				tr, found := g.Search(core.Query{From: &pp, Goal: core.At(a.hit.P), AvoidEdge: ef.avoid(func(f condFact) bool { return f.id == "failed" && f.eq && f.val == "false" })})
				c.Verdict(!found, rule, key+"|c failure not stored", pos(c, call), "insertion only reached when the producer is known not to have failed", "the producer can fail (it raises a runtime error) but its result reaches the memo on a path where that failure has not been excluded: the same bad input raises an error the first time and is silently accepted (as the zero value) afterwards", g.Trail(tr)...)
			} else {
				c.Ok(rule, key+"|c failure not stored", pos(c, call), "producer cannot raise a runtime error")
			}
		}
		// (e) a hit returns what the miss returned: wherever the looked-up value is stored on a
		// hit, the miss stores the very value it puts into the memo
		var cachedObj types.Object
		var getCall *ast.CallExpr
		for _, gt := range gets {
			if gt.field == cache && canonExpr(exe, gt.key) == canonExpr(exe, kexpr) {
				getCall = gt.call
			}
		}
		if getCall != nil {
			ast.Inspect(exe.Body, func(n ast.Node) bool {
				if as, ok := n.(*ast.AssignStmt); ok && len(as.Rhs) == 1 && core.Unparen(as.Rhs[0]) == ast.Expr(getCall) && len(as.Lhs) >= 1 {
					cachedObj = identObj(info, as.Lhs[0])
				}
				return true
			})
		}
		fromCache := func(e ast.Expr) bool {
			e = core.Unparen(e)
			if ta, ok := e.(*ast.TypeAssertExpr); ok {
				e = core.Unparen(ta.X)
			}
			return cachedObj != nil && identObj(info, e) == cachedObj
		}
		type asg struct {
			as  *ast.AssignStmt
			rhs ast.Expr
		}
		hitTargets := map[string]*ast.AssignStmt{}
		var others []asg
		ast.Inspect(exe.Body, func(n ast.Node) bool {
			as, ok := n.(*ast.AssignStmt)
			if !ok || len(as.Lhs) != len(as.Rhs) {
				return true
			}
			for k, l := range as.Lhs {
				if _, isIdent := core.Unparen(l).(*ast.Ident); isIdent {
					continue // locals are followed by canonExpr, only stores into state are compared
				}
				if fromCache(as.Rhs[k]) {
					hitTargets[canonExpr(exe, l)] = as
				}
			}
			return true
		})
		if cachedObj == nil || len(hitTargets) == 0 {
			c.Undecided(rule, key+"|e hit equals miss", pos(c, call), "cannot locate where the value found in the memo is stored on a hit")
		} else {
			ast.Inspect(exe.Body, func(n ast.Node) bool {
				as, ok := n.(*ast.AssignStmt)
				if !ok || len(as.Lhs) != len(as.Rhs) {
					return true
				}
				for k, l := range as.Lhs {
					if _, isIdent := core.Unparen(l).(*ast.Ident); isIdent {
						continue
					}
					if _, isTarget := hitTargets[canonExpr(exe, l)]; isTarget && !fromCache(as.Rhs[k]) {
						// only the stores made in the same case as the insertion are the miss side
						if inSameCase(exe, as, call) {
							others = append(others, asg{as, as.Rhs[k]})
						}
					}
				}
				return true
			})
			okE := true
			for _, o := range others {
				if canonExpr(exe, o.rhs) != canonExpr(exe, a.val) {
					okE = false
					c.Fail(rule, key+"|e hit equals miss", pos(c, o.as), "on a memo miss the instruction stores "+exprStr(o.rhs)+" but puts "+exprStr(a.val)+" into the memo: a later hit for the same key yields a different value than the first evaluation did (the result depends on what was parsed before)")
				}
			}
			if okE {
				c.Ok(rule, key+"|e hit equals miss", pos(c, call), fmt.Sprintf("the miss stores the memoised value itself (%d store(s) compared)", len(others)))
			}
		}
		// (d) other inputs of the producer are immutable after New
		if pf != nil {
			reads := map[string]bool{}
			for _, rf := range closureAvoiding(pf, vmErrorf) {
				if rf.Pkg != exe.Pkg {
					continue
				}
				c.Analysed(rf)
				ast.Inspect(rf.Body, func(n ast.Node) bool {
					if sel, ok := n.(*ast.SelectorExpr); ok {
						if s := rf.Info().Selections[sel]; s != nil && s.Kind() == types.FieldVal && strings.HasSuffix(s.Recv().String(), "vm.VM") {
							reads[sel.Sel.Name] = true
						}
					}
					return true
				})
			}
			var rs []string
			for r := range reads {
				rs = append(rs, r)
			}
			sort.Strings(rs)
			for _, r := range rs {
				if flags[r] {
					continue // the failure signal itself, see (c)
				}
				writers := fieldWriters(c, "vm.VM", r)
				okImm := true
				for _, w := range writers {
					if w != vmNew {
						okImm = false
					}
				}
				c.Verdict(okImm, rule, key+"|d input field "+r, pos(c, pf.Decl), "assigned only in vm.New", "the memoised function reads VM field "+r+" which is also assigned in "+strings.Join(writers, ", ")+": a memo hit can return a result computed under a different value")
			}
		}
	}
	// the cache field itself is per VM: assigned only in New from a constructor call
	for _, fld := range sortedKeys(fields) {
		ws := fieldWriters(c, "vm.VM", fld)
		if len(ws) == 0 {
			c.Undecided(rule, fld+" assigned", "-", "no assignment of the cache field found: cannot decide that every VM has its own cache")
		}
		for _, w := range ws {
			c.Verdict(w == vmNew, rule, fld+" assigned in "+w, "-", "per-VM cache created in New", "the time memo of a VM is (re)assigned outside vm.New: caches can be shared between programs or replaced mid-run")
		}
	}
	c.Floor(rule, 4)
}

// inSameCase reports whether a and b lie in the same outermost case clause of f (the opcode case of execute).
func inSameCase(f *core.Func, a, b ast.Node) bool {
	outer := func(n ast.Node) *ast.CaseClause {
		var res *ast.CaseClause
		ast.Inspect(f.Body, func(x ast.Node) bool {
			if cc, ok := x.(*ast.CaseClause); ok && res == nil && cc.Pos() <= n.Pos() && n.End() <= cc.End() {
				res = cc
			}
			return res == nil
		})
		return res
	}
	return outer(a) == outer(b)
}

func joinExprs(es []ast.Expr) string {
	var s []string
	for _, e := range es {
		s = append(s, exprStr(e))
	}
	return strings.Join(s, ", ")
}

// fieldWriters lists the keys of shipped functions that assign (or set in a composite literal) field `field` of the struct type whose name ends in recvSuffix.
func fieldWriters(c *core.Check, recvSuffix, field string) []string {
	var out []string
	for _, f := range shipped(c) {
		info := f.Info()
		hit := false
		core.InspectNoLit(f.Body, func(n ast.Node) bool {
			switch x := n.(type) {
			case *ast.AssignStmt:
				for _, l := range x.Lhs {
					if sel, ok := core.Unparen(l).(*ast.SelectorExpr); ok && sel.Sel.Name == field {
						if s := info.Selections[sel]; s != nil && strings.HasSuffix(s.Recv().String(), recvSuffix) {
							hit = true
						}
					}
				}
			case *ast.CompositeLit:
				if t := info.TypeOf(x); t != nil && strings.HasSuffix(t.String(), recvSuffix) {
					for _, el := range x.Elts {
						if kv, ok := el.(*ast.KeyValueExpr); ok && exprStr(kv.Key) == field {
							hit = true
						}
					}
				}
			}
			return true
		})
		if hit {
			out = append(out, f.Key)
		}
	}
	return uniq(out)
}

// isVMField reports whether e selects the named field of vm.VM.
func isVMField(info *types.Info, e ast.Expr, field string) bool {
	return isFieldOf(info, e, "vm.VM", field)
}

func isFieldOf(info *types.Info, e ast.Expr, recvSuffix, field string) bool {
	sel, ok := core.Unparen(e).(*ast.SelectorExpr)
	if !ok || sel.Sel.Name != field {
		return false
	}
	s := info.Selections[sel]
	return s != nil && s.Kind() == types.FieldVal && strings.HasSuffix(s.Recv().String(), recvSuffix)
}

// threadCreation describes one place where a per-line thread is created.
type threadCreation struct {
	f    *core.Func        // function holding the creating expression
	v    types.Object      // local variable of f bound to the new thread
	lit  *ast.CompositeLit // the composite literal, if created as &thread{…}
	node ast.Node
}

// freshThreadExpr reports whether e creates a thread: new(thread) or &thread{…}.
func freshThreadExpr(f *core.Func, e ast.Expr) (*ast.CompositeLit, bool) {
	info := f.Info()
	e = core.Unparen(e)
	if call, ok := e.(*ast.CallExpr); ok && f.CalleeID(call) == "builtin.new" && len(call.Args) == 1 {
		if t := info.TypeOf(call.Args[0]); t != nil && strings.HasSuffix(t.String(), "vm.thread") {
			return nil, true
		}
	}
	if u, ok := e.(*ast.UnaryExpr); ok && u.Op == token.AND {
		if cl, ok := core.Unparen(u.X).(*ast.CompositeLit); ok {
			if t := info.TypeOf(cl); t != nil && strings.HasSuffix(t.String(), "vm.thread") {
				return cl, true
			}
		}
	}
	return nil, false
}

// threadCreations lists the definitions `x := new(thread)` / `x := &thread{…}` of f.
func threadCreations(f *core.Func) []threadCreation {
	var out []threadCreation
	info := f.Info()
	core.InspectNoLit(f.Body, func(n ast.Node) bool {
		switch x := n.(type) {
		case *ast.AssignStmt:
			if len(x.Lhs) != len(x.Rhs) {
				return true
			}
			for i, l := range x.Lhs {
				if cl, ok := freshThreadExpr(f, x.Rhs[i]); ok {
					if o := identObj(info, l); o != nil {
						out = append(out, threadCreation{f, o, cl, x})
					}
				}
			}
		case *ast.ValueSpec:
			if len(x.Names) != len(x.Values) {
				return true
			}
			for i, nm := range x.Names {
				if cl, ok := freshThreadExpr(f, x.Values[i]); ok {
					if o := info.Defs[nm]; o != nil {
						out = append(out, threadCreation{f, o, cl, x})
					}
				}
			}
		}
		return true
	})
	return out
}

// threadConstructor reports whether h is a function every return of which
// yields a thread created in h (`t := new(thread); …; return t`), and
// returns that creation.
func threadConstructor(h *core.Func) (threadCreation, bool) {
	if h == nil || h.Lit != nil {
		return threadCreation{}, false
	}
	cs := threadCreations(h)
	if len(cs) != 1 {
		return threadCreation{}, false
	}
	n := 0
	for _, ex := range h.Graph().Exits() {
		if ex.Kind == "panic" {
			continue
		}
		if ex.Ret == nil || len(ex.Ret.Results) != 1 || identObj(h.Info(), ex.Ret.Results[0]) != cs[0].v {
			return threadCreation{}, false
		}
		n++
	}
	// the variable must not be re-bound
	if onceDef(h, cs[0].v) == nil {
		return threadCreation{}, false
	}
	return cs[0], n > 0
}

// freshValue reports whether e creates a new, empty map/slice/channel (make,
// a composite literal of that type, or nil).
func freshValue(f *core.Func, e ast.Expr) bool {
	e = core.Unparen(e)
	if isNilIdent(f.Info(), e) {
		return true
	}
	if call, ok := e.(*ast.CallExpr); ok && f.CalleeID(call) == "builtin.make" {
		return true
	}
	if cl, ok := e.(*ast.CompositeLit); ok {
		switch f.Info().TypeOf(cl).Underlying().(type) {
		case *types.Map, *types.Slice:
			return len(cl.Elts) == 0
		}
	}
	return false
}

// threadFreshness checks that ProcessLogLine creates the per-line thread (and
// its map/slice fields) anew, and binds v.t and v.input, before the first
// instruction on every path.  The thread may be created inline (new(thread) or
// &thread{…}) or by a constructor function that returns a thread it created.
func threadFreshness(c *core.Check, rule string, pll *core.Func) {
	g := pll.Graph()
	info := pll.Info()
	execs := g.CallsTo(vmExecute)
	if len(execs) == 0 {
		c.Undecided(rule, processLogLine+"|execute", pos(c, pll.Decl), "no call of execute found")
		return
	}
	// where is the thread created?
	var threadVar types.Object
	var creations []threadCreation // the inline creation, or the one inside the constructor
	var newThread []core.Hit
	for _, h := range g.Find(func(n ast.Node) bool {
		switch n.(type) {
		case *ast.AssignStmt, *ast.ValueSpec:
			return true
		}
		return false
	}) {
		var lhs []ast.Expr
		var rhs []ast.Expr
		switch x := h.N.(type) {
		case *ast.AssignStmt:
			lhs, rhs = x.Lhs, x.Rhs
		case *ast.ValueSpec:
			for _, nm := range x.Names {
				lhs = append(lhs, nm)
			}
			rhs = x.Values
		}
		if len(lhs) != len(rhs) {
			continue
		}
		for i := range lhs {
			o := identObj(info, lhs[i])
			if o == nil {
				continue
			}
			if cl, ok := freshThreadExpr(pll, rhs[i]); ok {
				threadVar = o
				newThread = append(newThread, h)
				creations = append(creations, threadCreation{pll, o, cl, h.N})
			} else if call, ok := core.Unparen(rhs[i]).(*ast.CallExpr); ok {
				if tc, ok := threadConstructor(pll.CalleeFunc(call)); ok {
					threadVar = o
					newThread = append(newThread, h)
					creations = append(creations, tc)
					c.Analysed(tc.f)
				}
			}
		}
	}
	if len(newThread) == 0 && recycledThread(c, rule, pll, execs) {
		return
	}
	var assignVT, assignInput []core.Hit
	for _, h := range g.Find(func(n ast.Node) bool { _, ok := n.(*ast.AssignStmt); return ok }) {
		as := h.N.(*ast.AssignStmt)
		if len(as.Lhs) != len(as.Rhs) {
			continue
		}
		for i, l := range as.Lhs {
			// the VM's current-thread and input fields are recognised by what they are given, not by their names
			sel, isSel := core.Unparen(l).(*ast.SelectorExpr)
			if !isSel || !isVMField(info, l, sel.Sel.Name) {
				continue
			}
			if threadVar != nil && identObj(info, as.Rhs[i]) == threadVar {
				assignVT = append(assignVT, h)
			}
			if o := identObj(info, as.Rhs[i]); o != nil && isParam(pll, o) {
				assignInput = append(assignInput, h)
			}
		}
	}
	for _, ev := range []struct {
		name string
		evs  []core.Hit
	}{{"new thread", newThread}, {"v.t = thread", assignVT}, {"v.input = line", assignInput}} {
		tr, found := pathAvoiding(g, nil, core.HitPoints(execs), core.HitPoints(ev.evs))
		c.Verdict(!found && len(ev.evs) > 0, rule, processLogLine+"|fresh "+ev.name, pos(c, pll.Decl), "on every path before the first instruction", "an instruction can execute without "+ev.name+" having happened in this call: the previous line's thread state (capture groups, time register, stack, matched flag) or input is reused", tr...)
	}
	// execute must be called with the fresh thread
	for _, e := range execs {
		call := e.N.(*ast.CallExpr)
		c.Verdict(len(call.Args) >= 1 && identObj(info, call.Args[0]) == threadVar && threadVar != nil, rule, processLogLine+"|execute runs on the fresh thread", pos(c, call), "fresh thread passed", "execute is not given the thread created for this line")
	}
	if threadVar == nil {
		return
	}
	// reference-typed thread fields: every value they are given — in the creating composite
	// literal, in the constructor, or in ProcessLogLine before the first instruction — is made anew
	st := threadStruct(c)
	if st == nil {
		c.Undecided(rule, "thread struct", "-", "vm.thread not found")
		return
	}
	for i := 0; i < st.NumFields(); i++ {
		fld := st.Field(i)
		switch fld.Type().Underlying().(type) {
		case *types.Map, *types.Slice, *types.Pointer, *types.Chan:
		default:
			continue
		}
		okFresh := true
		var where ast.Node = pll.Decl
		given, atCreation := 0, false
		var inPLL []core.Point
		check := func(f *core.Func, val ast.Expr, at ast.Node) {
			given++
			where = at
			if !freshValue(f, val) {
				okFresh = false
			}
		}
		for _, cr := range creations {
			if cr.lit != nil {
				for k, el := range cr.lit.Elts {
					if kv, ok := el.(*ast.KeyValueExpr); ok {
						if id, ok := kv.Key.(*ast.Ident); ok && id.Name == fld.Name() {
							check(cr.f, kv.Value, kv)
							atCreation = true
						}
					} else if k == i { // positional literal
						check(cr.f, el, el)
						atCreation = true
					}
				}
			}
			// assignments x.F = … on the created variable: in the function that created it, and in ProcessLogLine
			type scopeT struct {
				f *core.Func
				v types.Object
			}
			scope := []scopeT{{cr.f, cr.v}}
			if cr.f != pll {
				scope = append(scope, scopeT{pll, threadVar})
			}
			for _, sc := range scope {
				for _, h := range sc.f.Graph().Find(func(n ast.Node) bool { _, ok := n.(*ast.AssignStmt); return ok }) {
					as := h.N.(*ast.AssignStmt)
					for k, l := range as.Lhs {
						sel, ok := core.Unparen(l).(*ast.SelectorExpr)
						if !ok || !isFieldOf(sc.f.Info(), l, "vm.thread", fld.Name()) || identObj(sc.f.Info(), sel.X) != sc.v {
							continue
						}
						if len(as.Lhs) != len(as.Rhs) {
							given++
							where, okFresh = as, false
							continue
						}
						check(sc.f, as.Rhs[k], as)
						if sc.f == pll {
							inPLL = append(inPLL, h.P)
						} else {
							atCreation = true // inside the constructor
						}
					}
				}
			}
		}
		if okFresh && given > 0 && !atCreation {
			// given its value only by assignments in ProcessLogLine: they must precede the first instruction
			if _, late := pathAvoiding(g, nil, core.HitPoints(execs), inPLL); late {
				okFresh = false
			}
		}
		// a nil slice/map left at its zero value is fresh too, if never given a value
		detail := "made anew for this line"
		if given == 0 {
			detail = "left at its zero value by the creation of the thread"
		}
		c.Verdict(okFresh, rule, processLogLine+"|fresh thread."+fld.Name(), pos(c, where), detail, "the per-line thread's "+fld.Name()+" is not created with make() in this call (taken from the VM or reused): entries written while processing an earlier line are visible to this one")
	}
}
