package props

import (
	"fmt"
	"go/ast"
	"go/token"
	"go/types"
	"sort"
	"strings"

	"verif/sa/core"
)

func init() { register("C05", c05); register("C07", c07) }

const (
	processLogLine = "internal/runtime/vm.(*VM).ProcessLogLine"
	vmParseTime    = "internal/runtime/vm.(*VM).ParseTime"
	vmNew          = "internal/runtime/vm.New"
)

// closureFrom returns the declared functions reachable from root through statically resolved calls (root included).
func closureFrom(root *core.Func) []*core.Func {
	seen := map[*core.Func]bool{root: true}
	work := []*core.Func{root}
	var out []*core.Func
	for len(work) > 0 {
		f := work[0]
		work = work[1:]
		out = append(out, f)
		for _, cf := range f.Callees() {
			if !seen[cf] {
				seen[cf] = true
				work = append(work, cf)
			}
		}
	}
	sort.Slice(out, func(i, j int) bool { return out[i].Key < out[j].Key })
	return out
}

type fieldWrite struct {
	f     *core.Func
	node  ast.Node
	owner string // "VM" or "thread"
	field string
	how   string
}

// stateWrites lists writes to fields of vm.VM and vm.thread (assignment, inc/dec, append-to, map store, delete, mutating method call on the field) in fs.
func stateWrites(fs []*core.Func) []fieldWrite {
	var out []fieldWrite
	for _, f := range fs {
		info := f.Info()
		fieldOf := func(e ast.Expr) (string, string, bool) {
			// strip index/slice to reach the selector
			for {
				switch x := core.Unparen(e).(type) {
				case *ast.IndexExpr:
					e = x.X
					continue
				case *ast.SliceExpr:
					e = x.X
					continue
				case *ast.StarExpr:
					e = x.X
					continue
				}
				break
			}
			sel, ok := core.Unparen(e).(*ast.SelectorExpr)
			if !ok {
				return "", "", false
			}
			s := info.Selections[sel]
			if s == nil || s.Kind() != types.FieldVal {
				return "", "", false
			}
			r := s.Recv().String()
			switch {
			case strings.HasSuffix(r, "vm.VM"):
				return "VM", sel.Sel.Name, true
			case strings.HasSuffix(r, "vm.thread"):
				return "thread", sel.Sel.Name, true
			}
			return "", "", false
		}
		ast.Inspect(f.Body, func(n ast.Node) bool {
			switch x := n.(type) {
			case *ast.AssignStmt:
				for _, l := range x.Lhs {
					if o, fl, ok := fieldOf(l); ok {
						out = append(out, fieldWrite{f, x, o, fl, "assign"})
					}
				}
			case *ast.IncDecStmt:
				if o, fl, ok := fieldOf(x.X); ok {
					out = append(out, fieldWrite{f, x, o, fl, "incdec"})
				}
			case *ast.CallExpr:
				id := f.CalleeID(x)
				if id == "builtin.delete" && len(x.Args) > 0 {
					if o, fl, ok := fieldOf(x.Args[0]); ok {
						out = append(out, fieldWrite{f, x, o, fl, "delete"})
					}
				}
				// mutating method on a field value (pointer receiver of a non-module type, e.g. lru.Cache.Add)
				if r := core.RecvExpr(x); r != nil {
					if o, fl, ok := fieldOf(r); ok {
						m := id[strings.LastIndex(id, ".")+1:]
						switch m {
						case "Add", "Remove", "RemoveOldest", "Clear", "Set", "Store", "Delete", "Reset", "Put", "Push":
							out = append(out, fieldWrite{f, x, o, fl, "call " + m})
						}
					}
				}
			}
			return true
		})
	}
	return out
}

func c05(c *core.Check) {
	c.Explain = "Cross-line state audit of the VM.  From /repo's current source the check computes every write to a field of vm.VM and vm.thread, and to package-level variables, in the functions reachable from ProcessLogLine, and requires each written location to be provably one of: (fresh) the per-line thread and its map/slice are created anew in ProcessLogLine before the first instruction on every path, and v.input is assigned there; (reset) v.terminate is only set within the dynamic extent of execute and ProcessLogLine tests it after every execute, resetting it before returning; (diagnostic) runtimeError/trace are never read by the interpreter; (keyed monitoring) package-level writes are the per-program counters; (memo) the strptime memo — whose key must contain every varying input of the memoised function and which must not store a failed parse (R2).  Any other written field is cross-line state and a violation.  Not decided: state inside regexp/time/lru; wall-clock reads."
	c.Assume = append(c.Assume, "regexp.Regexp, time.Parse and groupcache/lru are semantically stateless apart from the cache contents", "metrics are the permitted channel between lines")
	pll := c.MustFn("C05-R1", processLogLine)
	if pll == nil {
		return
	}
	fs := closureFrom(pll)
	var vmfs []*core.Func
	for _, f := range fs {
		if core.Rel(f.Pkg.PkgPath) == "internal/runtime/vm" {
			vmfs = append(vmfs, f)
			c.Analysed(f)
		}
	}
	writes := stateWrites(vmfs)
	c.Extra["functions_reachable_from_ProcessLogLine_in_vm"] = len(vmfs)

	c.Rule("C05-R1", "AUDIT: every field of vm.VM / vm.thread written under ProcessLogLine is classified fresh, reset, diagnostic or memo by a checked argument; an unclassified written field fails")
	type cls struct{ kind, why string }
	vmClass := map[string]cls{
		"t":            {"fresh", "assigned from a thread created in this call before the loop"},
		"input":        {"fresh", "assigned from the line parameter before the loop"},
		"terminate":    {"reset", "see reset rules"},
		"runtimeError": {"diagnostic", "never read by ProcessLogLine/execute"},
		"trace":        {"diagnostic", "never read by execute; appended only"},
		"timeMemos":    {"memo", "see C05-R2"},
	}
	seen := map[string]bool{}
	for _, w := range writes {
		k := w.owner + "." + w.field
		if seen[k+w.f.Key] {
			continue
		}
		seen[k+w.f.Key] = true
		key := k + " in " + w.f.Key
		if w.owner == "thread" {
			c.Ok("C05-R1", key, pos(c, w.node), "per-line thread (freshness checked below)")
			continue
		}
		if cl, ok := vmClass[w.field]; ok {
			c.Ok("C05-R1", key, pos(c, w.node), cl.kind+": "+cl.why)
			continue
		}
		c.Fail("C05-R1", key, pos(c, w.node), "VM field "+w.field+" is written ("+w.how+") while a line is processed and is not known to be fresh, reset, diagnostic or a transparent memo: its value survives into the next line")
	}
	threadFreshness(c, "C05-R1", pll)
	g := pll.Graph()
	execs := g.CallsTo(vmExecute)
	// reset protocol for terminate
	termTrue := func(f *core.Func) []ast.Node {
		var out []ast.Node
		ast.Inspect(f.Body, func(n ast.Node) bool {
			if as, ok := n.(*ast.AssignStmt); ok && len(as.Lhs) == 1 && strings.HasSuffix(core.PathOf(as.Lhs[0]), ".terminate") && exprStr(as.Rhs[0]) == "true" {
				out = append(out, as)
			}
			return true
		})
		return out
	}
	exe := c.Prog.Fn(vmExecute)
	inExtent := map[*core.Func]bool{}
	if exe != nil {
		for _, f := range closureFrom(exe) {
			inExtent[f] = true
		}
	}
	for _, f := range vmfs {
		for _, n := range termTrue(f) {
			c.Verdict(inExtent[f], "C05-R1", "terminate=true in "+f.Key, pos(c, n), "within the extent of execute", "the stop flag is set outside execute's dynamic extent (e.g. in a recover handler of ProcessLogLine): the test-and-reset after execute is bypassed and the flag aborts the next line")
		}
	}
	// callers of errorf / functions setting terminate must be in the extent of execute
	for _, k := range c.Prog.SortedFuncKeys() {
		f := c.Prog.Funcs[k]
		if core.Rel(f.Pkg.PkgPath) != "internal/runtime/vm" || c.Prog.IsTestSupport(f) {
			continue
		}
		decl := c.Prog.FuncOf[f.Decl]
		core.InspectNoLit(f.Body, func(n ast.Node) bool {
			if call, ok := n.(*ast.CallExpr); ok && f.CalleeID(call) == vmErrorf {
				c.Verdict(inExtent[decl] && (f.Lit == nil || decl.Key == vmExecute), "C05-R1", "errorf called in "+f.Key, pos(c, call), "within the extent of execute", "a runtime error is raised (which sets the stop flag) outside execute's dynamic extent: the flag is not reset for the next line")
			}
			return true
		})
	}
	if len(execs) > 0 {
		termIfs := ifsWhere(pll, func(is *ast.IfStmt) bool { return strings.HasSuffix(core.PathOf(is.Cond), ".terminate") })
		var conds []core.Point
		for _, is := range termIfs {
			if p, ok := g.PointOf(is.Cond); ok {
				conds = append(conds, p)
			}
		}
		for _, e := range execs {
			from := e.P
			goals := append(core.ExitPoints(normalExits(g)), core.HitPoints(execs)...)
			tr, found := pathAvoiding(g, &from, goals, conds)
			c.Verdict(!found && len(conds) > 0, "C05-R1", processLogLine+"|terminate tested after execute", pos(c, e.N), "tested on every path", "after an instruction the stop flag is not tested on some path: a stop or runtime error does not end the line, or the flag leaks into the next line", tr...)
		}
		for _, is := range termIfs {
			resets := g.Find(func(n ast.Node) bool {
				as, ok := n.(*ast.AssignStmt)
				return ok && len(as.Lhs) == 1 && strings.HasSuffix(core.PathOf(as.Lhs[0]), ".terminate") && exprStr(as.Rhs[0]) == "false"
			})
			if start, ok := branchStart(g, is, true); ok {
				tr, found := pathAvoiding(g, start, append(core.ExitPoints(normalExits(g)), core.HitPoints(execs)...), core.HitPoints(resets))
				c.Verdict(!found, "C05-R1", processLogLine+"|terminate reset", pos(c, is), "reset before leaving", "the stop flag is not cleared when a line is abandoned: the next line is abandoned after its first instruction", tr...)
			}
		}
		// no other reader of terminate
		for _, f := range vmfs {
			ast.Inspect(f.Body, func(n ast.Node) bool {
				sel, ok := n.(*ast.SelectorExpr)
				if ok && sel.Sel.Name == "terminate" && f != pll {
					// allowed: assignments (writers); readers elsewhere are cross-line reads
					isWrite := false
					ast.Inspect(f.Body, func(m ast.Node) bool {
						if as, ok := m.(*ast.AssignStmt); ok {
							for _, l := range as.Lhs {
								if l == ast.Expr(sel) {
									isWrite = true
								}
							}
						}
						return true
					})
					if !isWrite {
						c.Note("C05-R1", "terminate read in "+f.Key, pos(c, sel), "read within the same line's extent")
					}
				}
				return true
			})
		}
	}
	// diagnostic fields never read by the interpreter
	for _, fld := range []string{"runtimeError"} {
		for _, f := range vmfs {
			if f.Key == vmErrorf {
				continue
			}
			ast.Inspect(f.Body, func(n ast.Node) bool {
				if sel, ok := n.(*ast.SelectorExpr); ok && sel.Sel.Name == fld {
					if s := f.Info().Selections[sel]; s != nil && strings.HasSuffix(s.Recv().String(), "vm.VM") {
						c.Fail("C05-R1", "diagnostic "+fld+" read in "+f.Key, pos(c, sel), "the last runtime error text is read while processing a line: an earlier line's error influences a later line")
					}
				}
				return true
			})
		}
	}
	// package-level writes
	for _, f := range vmfs {
		info := f.Info()
		ast.Inspect(f.Body, func(n ast.Node) bool {
			var lhs []ast.Expr
			switch x := n.(type) {
			case *ast.AssignStmt:
				if x.Tok != token.DEFINE {
					lhs = x.Lhs
				}
			case *ast.IncDecStmt:
				lhs = []ast.Expr{x.X}
			}
			for _, l := range lhs {
				root := l
				for {
					switch y := core.Unparen(root).(type) {
					case *ast.IndexExpr:
						root = y.X
						continue
					case *ast.SelectorExpr:
						if _, isPkg := info.Uses[identOf(y.X)].(*types.PkgName); !isPkg {
							root = y.X
							continue
						}
					case *ast.StarExpr:
						root = y.X
						continue
					}
					break
				}
				if v, ok := usedObj(info, root).(*types.Var); ok && v.Parent() == v.Pkg().Scope() {
					c.Fail("C05-R1", "package variable "+v.Name()+" written in "+f.Key, pos(c, n), "a package-level variable is written while a line is processed: state shared across lines (and programs)")
				}
			}
			return true
		})
	}
	c.Floor("C05-R1", 14)

	c05memo(c, "C05-R2")
}

func identOf(e ast.Expr) *ast.Ident {
	id, _ := core.Unparen(e).(*ast.Ident)
	return id
}

func isParam(f *core.Func, o types.Object) bool {
	for _, fl := range f.Type.Params.List {
		for _, n := range fl.Names {
			if f.Info().Defs[n] == o {
				return true
			}
		}
	}
	return false
}

func threadStruct(c *core.Check) *types.Struct {
	pkg := c.Prog.Pkgs["internal/runtime/vm"]
	if pkg == nil {
		return nil
	}
	o := pkg.Types.Scope().Lookup("thread")
	if o == nil {
		return nil
	}
	st, _ := o.Type().Underlying().(*types.Struct)
	return st
}

// c05memo decides memo transparency for every Get/Add pair on an lru cache field of the VM.
func c05memo(c *core.Check, rule string) {
	c.Rule(rule, "MEMO: for each cache.Add(k, val) on a VM cache field where val is the result of a call f(args…): (a) the lookup cache.Get uses the same key expression; (b) every variable argument of f occurs in k; (c) on every path from the call of f to the Add a failure of f (signalled through the stop flag or an error result) has been tested, so a failed result is never stored; (d) every field read inside f besides its parameters is only ever assigned in vm.New")
	exe := c.Prog.Fn(vmExecute)
	if exe == nil {
		c.Undecided(rule, vmExecute, "-", "execute not found")
		return
	}
	info := exe.Info()
	g := exe.Graph()
	adds := g.Calls(func(id string, call *ast.CallExpr) bool {
		return strings.HasSuffix(id, "lru.(*Cache).Add") && core.RecvExpr(call) != nil
	})
	gets := g.Calls(func(id string, call *ast.CallExpr) bool {
		return strings.HasSuffix(id, "lru.(*Cache).Get") && core.RecvExpr(call) != nil
	})
	c.Extra["memo_sites"] = len(adds)
	if len(adds) == 0 {
		c.Note(rule, "no memo", "-", "no cache insertion found in execute: nothing memoised")
		return
	}
	for i, a := range adds {
		call := a.N.(*ast.CallExpr)
		cache := core.PathOf(core.RecvExpr(call))
		key := fmt.Sprintf("%s Add#%d", cache, i+1)
		kexpr := call.Args[0]
		// (a)
		sameKey := false
		for _, gt := range gets {
			gc := gt.N.(*ast.CallExpr)
			if core.PathOf(core.RecvExpr(gc)) == cache && exprStr(gc.Args[0]) == exprStr(kexpr) {
				sameKey = true
			}
		}
		c.Verdict(sameKey, rule, key+"|a same key", pos(c, call), "lookup and insertion use "+exprStr(kexpr), "the memo is filled under a key expression that the lookup does not use")
		// find the producing call
		valObj := identObj(info, call.Args[1])
		var prod *ast.CallExpr
		var prodAssign *ast.AssignStmt
		if valObj != nil {
			ast.Inspect(exe.Body, func(n ast.Node) bool {
				if as, ok := n.(*ast.AssignStmt); ok && as.End() <= call.Pos() {
					for j, l := range as.Lhs {
						if identObj(info, l) == valObj && len(as.Rhs) >= 1 {
							if pc, ok := core.Unparen(as.Rhs[min(j, len(as.Rhs)-1)]).(*ast.CallExpr); ok {
								prod, prodAssign = pc, as
							}
						}
					}
				}
				return true
			})
		} else if pc, ok := core.Unparen(call.Args[1]).(*ast.CallExpr); ok {
			prod = pc
		}
		if prod == nil {
			c.Undecided(rule, key+"|producer", pos(c, call), "cannot find the call producing the memoised value")
			continue
		}
		// (b) key components: identifiers appearing in the key expression, following one level of local definition
		keyIdents := map[types.Object]bool{}
		var collectKey func(e ast.Expr, depth int)
		collectKey = func(e ast.Expr, depth int) {
			ast.Inspect(e, func(n ast.Node) bool {
				if id, ok := n.(*ast.Ident); ok {
					if o := info.Uses[id]; o != nil {
						keyIdents[o] = true
						if depth < 2 {
							// local definition
							ast.Inspect(exe.Body, func(m ast.Node) bool {
								if as, ok := m.(*ast.AssignStmt); ok && as.Tok == token.DEFINE && as.End() <= call.Pos() {
									for j, l := range as.Lhs {
										if info.Defs[identOf(l)] == o && j < len(as.Rhs) {
											if _, isCall := core.Unparen(as.Rhs[j]).(*ast.CallExpr); !isCall {
												collectKey(as.Rhs[j], depth+1)
											}
										}
									}
								}
								return true
							})
						}
					}
				}
				return true
			})
		}
		collectKey(kexpr, 0)
		var missing []string
		for _, arg := range prod.Args {
			if tv := info.Types[arg]; tv.Value != nil {
				continue
			}
			ao := identObj(info, arg)
			if ao == nil || !keyIdents[ao] {
				missing = append(missing, exprStr(arg))
			}
		}
		c.Verdict(len(missing) == 0, rule, key+"|b key covers inputs", pos(c, call), "every argument of "+exprStr(prod.Fun)+" is part of the key",
			"the memoised result of "+exprStr(prod.Fun)+"("+joinExprs(prod.Args)+") is keyed by "+exprStr(kexpr)+" only; argument(s) "+strings.Join(missing, ", ")+" are missing from the key: the same text parsed under a different one returns the earlier result")
		// (c) failure tested between producer and Add
		if pp, ok := g.PointOf(prod); ok {
			var tests []core.Point
			for _, is := range ifsWhere(exe, func(is *ast.IfStmt) bool {
				s := exprStr(is.Cond)
				return is.Pos() > prod.End() && is.End() <= call.Pos()+4000 && (strings.Contains(s, ".terminate") || strings.Contains(s, "err != nil") || strings.Contains(s, "!ok") || strings.HasPrefix(s, "ok"))
			}) {
				if p, ok := g.PointOf(is.Cond); ok {
					tests = append(tests, p)
				}
			}
			producerCanFail := false
			if pf := exe.CalleeFunc(prod); pf != nil {
				for _, cf := range closureFrom(pf) {
					if cf.Key == vmErrorf {
						producerCanFail = true
					}
				}
				_ = prodAssign
			}
			if producerCanFail {
				tr, found := pathAvoiding(g, &pp, []core.Point{a.P}, tests)
				c.Verdict(!found, rule, key+"|c failure not stored", pos(c, call), "failure tested before storing", "the producer can fail (it raises a runtime error) but its result is stored in the memo without testing for that failure: the same bad input raises an error the first time and is silently accepted (as the zero value) afterwards", tr...)
			} else {
				c.Ok(rule, key+"|c failure not stored", pos(c, call), "producer cannot raise a runtime error")
			}
		}
		// (d) other inputs of the producer are immutable after New
		if pf := exe.CalleeFunc(prod); pf != nil {
			reads := map[string]bool{}
			ast.Inspect(pf.Body, func(n ast.Node) bool {
				if sel, ok := n.(*ast.SelectorExpr); ok {
					if s := pf.Info().Selections[sel]; s != nil && s.Kind() == types.FieldVal && strings.HasSuffix(s.Recv().String(), "vm.VM") {
						reads[sel.Sel.Name] = true
					}
				}
				return true
			})
			var rs []string
			for r := range reads {
				rs = append(rs, r)
			}
			sort.Strings(rs)
			for _, r := range rs {
				writers := fieldWriters(c, "vm.VM", r)
				okImm := true
				for _, w := range writers {
					if w != vmNew {
						okImm = false
					}
				}
				c.Verdict(okImm, rule, key+"|d input field "+r, pos(c, pf.Decl), "assigned only in vm.New", "the memoised function reads VM field "+r+" which is also assigned in "+strings.Join(writers, ", ")+": a memo hit can return a result computed under a different value")
			}
		}
	}
	// the cache field itself is per VM: assigned only in New from a constructor call
	for _, w := range fieldWriters(c, "vm.VM", "timeMemos") {
		c.Verdict(w == vmNew, rule, "timeMemos assigned in "+w, "-", "per-VM cache created in New", "the time memo of a VM is (re)assigned outside vm.New: caches can be shared between programs or replaced mid-run")
	}
	c.Floor(rule, 4)
}

func joinExprs(es []ast.Expr) string {
	var s []string
	for _, e := range es {
		s = append(s, exprStr(e))
	}
	return strings.Join(s, ", ")
}

// fieldWriters lists the keys of shipped functions that assign (or set in a composite literal) field `field` of the struct type whose name ends in recvSuffix.
func fieldWriters(c *core.Check, recvSuffix, field string) []string {
	var out []string
	for _, f := range shipped(c) {
		info := f.Info()
		hit := false
		core.InspectNoLit(f.Body, func(n ast.Node) bool {
			switch x := n.(type) {
			case *ast.AssignStmt:
				for _, l := range x.Lhs {
					if sel, ok := core.Unparen(l).(*ast.SelectorExpr); ok && sel.Sel.Name == field {
						if s := info.Selections[sel]; s != nil && strings.HasSuffix(s.Recv().String(), recvSuffix) {
							hit = true
						}
					}
				}
			case *ast.CompositeLit:
				if t := info.TypeOf(x); t != nil && strings.HasSuffix(t.String(), recvSuffix) {
					for _, el := range x.Elts {
						if kv, ok := el.(*ast.KeyValueExpr); ok && exprStr(kv.Key) == field {
							hit = true
						}
					}
				}
			}
			return true
		})
		if hit {
			out = append(out, f.Key)
		}
	}
	return uniq(out)
}

// threadFreshness checks that ProcessLogLine creates the per-line thread (and
// its map/slice fields) anew, and binds v.t and v.input, before the first
// instruction on every path.
func threadFreshness(c *core.Check, rule string, pll *core.Func) {
	// fresh thread
	g := pll.Graph()
	info := pll.Info()
	execs := g.CallsTo(vmExecute)
	var threadVar types.Object
	var newThread, assignVT, assignInput []core.Hit
	for _, h := range g.Find(func(n ast.Node) bool { _, ok := n.(*ast.AssignStmt); return ok }) {
		as := h.N.(*ast.AssignStmt)
		if len(as.Lhs) != 1 || len(as.Rhs) != 1 {
			continue
		}
		rhs := core.Unparen(as.Rhs[0])
		fresh := false
		if call, ok := rhs.(*ast.CallExpr); ok && pll.CalleeID(call) == "builtin.new" && strings.HasSuffix(info.TypeOf(call.Args[0]).String(), "vm.thread") {
			fresh = true
		}
		if u, ok := rhs.(*ast.UnaryExpr); ok && u.Op == token.AND {
			if cl, ok := u.X.(*ast.CompositeLit); ok && strings.HasSuffix(info.TypeOf(cl).String(), "vm.thread") {
				fresh = true
			}
		}
		if fresh {
			threadVar = identObj(info, as.Lhs[0])
			newThread = append(newThread, h)
		}
	}
	for _, h := range g.Find(func(n ast.Node) bool { _, ok := n.(*ast.AssignStmt); return ok }) {
		as := h.N.(*ast.AssignStmt)
		if len(as.Lhs) != 1 || len(as.Rhs) != 1 {
			continue
		}
		l := core.PathOf(as.Lhs[0])
		if l == recvIdent(pll)+".t" && threadVar != nil && identObj(info, as.Rhs[0]) == threadVar {
			assignVT = append(assignVT, h)
		}
		if l == recvIdent(pll)+".input" && identObj(info, as.Rhs[0]) != nil && isParam(pll, identObj(info, as.Rhs[0])) {
			assignInput = append(assignInput, h)
		}
	}
	if len(execs) == 0 {
		c.Undecided(rule, processLogLine+"|execute", pos(c, pll.Decl), "no call of execute found")
	} else {
		for name, evs := range map[string][]core.Hit{"new thread": newThread, "v.t = thread": assignVT, "v.input = line": assignInput} {
			tr, found := pathAvoiding(g, nil, core.HitPoints(execs), core.HitPoints(evs))
			c.Verdict(!found && len(evs) > 0, rule, processLogLine+"|fresh "+name, pos(c, pll.Decl), "on every path before the first instruction", "an instruction can execute without "+name+" having happened in this call: the previous line's thread state (capture groups, time register, stack, matched flag) or input is reused", tr...)
		}
		// execute must be called with the fresh thread
		for _, e := range execs {
			call := e.N.(*ast.CallExpr)
			c.Verdict(len(call.Args) >= 1 && identObj(info, call.Args[0]) == threadVar && threadVar != nil, rule, processLogLine+"|execute runs on the fresh thread", pos(c, call), "fresh thread passed", "execute is not given the thread created for this line")
		}
		// reference-typed thread fields assigned from make()
		if threadVar != nil {
			st := threadStruct(c)
			if st == nil {
				c.Undecided(rule, "thread struct", "-", "vm.thread not found")
			} else {
				for i := 0; i < st.NumFields(); i++ {
					fld := st.Field(i)
					switch fld.Type().Underlying().(type) {
					case *types.Map, *types.Slice, *types.Pointer, *types.Chan:
					default:
						continue
					}
					okFresh := false
					var where ast.Node = pll.Decl
					for _, h := range g.Find(func(n ast.Node) bool { _, ok := n.(*ast.AssignStmt); return ok }) {
						as := h.N.(*ast.AssignStmt)
						if len(as.Lhs) == 1 && core.PathOf(as.Lhs[0]) == threadVar.Name()+"."+fld.Name() {
							where = as
							if call, ok := core.Unparen(as.Rhs[0]).(*ast.CallExpr); ok && pll.CalleeID(call) == "builtin.make" {
								okFresh = true
								if _, found := pathAvoiding(g, nil, core.HitPoints(execs), []core.Point{h.P}); found {
									okFresh = false
								}
							} else {
								okFresh = false
								break
							}
						}
					}
					// a nil slice/map left at its zero value is fresh too, if never assigned
					if where == ast.Node(pll.Decl) {
						okFresh = true
					}
					c.Verdict(okFresh, rule, processLogLine+"|fresh thread."+fld.Name(), pos(c, where), "made anew for this line", "the per-line thread's "+fld.Name()+" is not created with make() in this call (taken from the VM or reused): entries written while processing an earlier line are visible to this one")
				}
			}
		}
	}
}
