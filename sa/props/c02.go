package props

import (
	"fmt"
	"go/ast"
	"go/token"
	"go/types"
	"regexp"
	"sort"
	"strings"

	"verif/sa/core"
)

func init() { register("C02", c02) }

const optVisitAfter = "internal/runtime/compiler/opt.(*optimiser).VisitAfter"

type foldEntry struct {
	lk, rk, op string
	assign     *ast.AssignStmt // r.X = expr
	target     string
	expr       string // normalised over a, b
	resKind    string // kind of the literal r
	clause     *ast.CaseClause
}

var spaceRe = regexp.MustCompile(`\s+`)

func nospace(s string) string { return spaceRe.ReplaceAllString(s, "") }

// extractFolds reads the (lhs kind, rhs kind, operator) -> expression table out of opt.VisitAfter.
func extractFolds(c *core.Check, f *core.Func) ([]foldEntry, []string) {
	var out []foldEntry
	var problems []string
	info := f.Info()
	litKind := func(e ast.Expr) string {
		s := typeStr(info.TypeOf(e))
		switch {
		case strings.HasSuffix(s, "ast.IntLit"):
			return "Int"
		case strings.HasSuffix(s, "ast.FloatLit"):
			return "Float"
		}
		return ""
	}
	var walkL func(ts *ast.TypeSwitchStmt, side string, lk string, lvar, rvar string)
	handleOps := func(body []ast.Stmt, lk, rk, lvar, rvar string) {
		// find r := &ast.XLit{…} and the switch n.Op
		resKind, rname := "", ""
		for _, st := range body {
			if as, ok := st.(*ast.AssignStmt); ok && as.Tok == token.DEFINE && len(as.Lhs) == 1 {
				if k := litKind(as.Rhs[0]); k != "" {
					resKind, rname = k, exprStr(as.Lhs[0])
				}
			}
			sw, ok := st.(*ast.SwitchStmt)
			if !ok || sw.Tag == nil || !strings.HasSuffix(exprStr(sw.Tag), ".Op") {
				continue
			}
			for _, cl := range sw.Body.List {
				cc := cl.(*ast.CaseClause)
				for _, e := range cc.List {
					op := opName(e)
					fe := foldEntry{lk: lk, rk: rk, op: op, resKind: resKind, clause: cc}
					n := 0
					ast.Inspect(cc, func(x ast.Node) bool {
						as, ok := x.(*ast.AssignStmt)
						if !ok || len(as.Lhs) != 1 || len(as.Rhs) != 1 {
							return true
						}
						if sel, ok := as.Lhs[0].(*ast.SelectorExpr); ok && (sel.Sel.Name == "I" || sel.Sel.Name == "F") {
							n++
							fe.assign = as
							fe.target = exprStr(as.Lhs[0])
							ex := nospace(exprStr(as.Rhs[0]))
							ex = strings.ReplaceAll(ex, lvar+".I", "a")
							ex = strings.ReplaceAll(ex, lvar+".F", "a")
							ex = strings.ReplaceAll(ex, rvar+".I", "b")
							ex = strings.ReplaceAll(ex, rvar+".F", "b")
							fe.expr = ex
						}
						return true
					})
					if n != 1 {
						problems = append(problems, fmt.Sprintf("%s: fold clause %s×%s %s has %d result assignments", c.Prog.Position(cc.Pos()), lk, rk, op, n))
					}
					_ = rname
					out = append(out, fe)
				}
			}
		}
	}
	walkL = func(ts *ast.TypeSwitchStmt, side, lk, lvar, rvar string) {
		as, ok := ts.Assign.(*ast.AssignStmt)
		if !ok {
			return
		}
		v := exprStr(as.Lhs[0])
		for _, cl := range ts.Body.List {
			cc := cl.(*ast.CaseClause)
			for _, e := range cc.List {
				k := litKind(e)
				if k == "" {
					continue
				}
				if side == "L" {
					for _, st := range cc.Body {
						if inner, ok := st.(*ast.TypeSwitchStmt); ok {
							walkL(inner, "R", k, v, "")
						}
					}
				} else {
					handleOps(cc.Body, lk, k, lvar, v)
				}
			}
		}
	}
	ast.Inspect(f.Body, func(n ast.Node) bool {
		if cc, ok := n.(*ast.CaseClause); ok {
			for _, e := range cc.List {
				if strings.HasSuffix(exprStr(e), "ast.BinaryExpr") {
					for _, st := range cc.Body {
						if ts, ok := st.(*ast.TypeSwitchStmt); ok {
							walkL(ts, "L", "", "", "")
						}
					}
					return false
				}
			}
		}
		return true
	})
	return out, problems
}

func c02(c *core.Check) {
	c.Explain = "Translation validation of the constant folder's own table against the VM's arithmetic, from /repo's current source: (R1) for every (literal kind, literal kind, operator) clause of the optimiser the folded expression, normalised over operands a and b, is syntactically the expression the unfolded program computes — the push expression of the VM opcode that the code generator's typedOperators table selects for the result type, with int operands wrapped in the VM's own int-to-float conversion; (R2) each clause assigns the field of the fresh result literal that matches its kind exactly once and never writes to an operand; (R3) the folder reports an error only under a test that the divisor literal equals zero inside a DIV or MOD clause; (R4) the compiler runs the folder only when optimisation is enabled; (R5) the optimiser does nothing but fold: it builds only Int/Float literals, returns only the unchanged node or the fresh literal, and never rewrites other nodes (no re-association). Because both sides then evaluate the same Go expression on the same operands, results and runtime errors are identical for all literal values. Not decided: identity of floating-point evaluation at compile time vs run time (same machine, same operations)."
	c.Assume = append(c.Assume, "the checker makes the result of mixed arithmetic Float and converts the Int operand with the I2f instruction", "Go evaluates the same expression identically in the compiler process and in the VM")
	f := c.MustFn("C02-R1", optVisitAfter)
	vm := extractVM(c)
	if f == nil || vm == nil {
		c.Undecided("C02-R1", optVisitAfter, "-", "cannot extract optimiser or VM tables")
		return
	}
	folds, problems := extractFolds(c, f)
	for _, p := range problems {
		c.Undecided("C02-R2", "fold clause", "-", p)
	}
	_, _, typed := mapLiteralOpcodes(c, "internal/runtime/compiler/codegen", "typedOperators")
	// VM push expression per opcode, over a (second pop) and b (first pop)
	vmExpr := func(op string) (string, string) {
		vc := vm.Cases[op]
		if vc == nil {
			return "", "no VM case"
		}
		if len(vc.Pops) < 2 || len(vc.Pushes) < 1 {
			return "", "unexpected shape"
		}
		bVar, aVar := vc.Pops[0].Var, vc.Pops[1].Var
		if aVar == nil || bVar == nil {
			return "", "pops not bound to variables"
		}
		// the push that is not guarded by an error: take the last push of the clause
		ex := nospace(exprStr(vc.Pushes[len(vc.Pushes)-1].Expr))
		// rename identifiers by object
		out := renameIdents(vm.F, vc.Pushes[len(vc.Pushes)-1].Expr, map[types.Object]string{aVar: "a", bVar: "b"})
		_ = ex
		return nospace(out), ""
	}
	i2f := ""
	if ic := vm.Cases["I2f"]; ic != nil && len(ic.Pops) == 1 && len(ic.Pushes) == 1 && ic.Pops[0].Var != nil {
		i2f = nospace(renameIdents(vm.F, ic.Pushes[0].Expr, map[types.Object]string{ic.Pops[0].Var: "X"}))
	}
	c.Extra["vm_int_to_float"] = i2f

	c.Rule("C02-R1", "FOLD≡VM: normalised fold expression == VM push expression of typedOperators[op][result type], with int operands replaced by the VM's I2f expression; result literal kind == Int iff both operands are Int")
	seen := map[string]bool{}
	for _, fe := range folds {
		key := fmt.Sprintf("%s %s %s", fe.lk, fe.op, fe.rk)
		seen[key] = true
		wantKind := "Float"
		if fe.lk == "Int" && fe.rk == "Int" {
			wantKind = "Int"
		}
		opc := typed[fe.op][wantKind]
		if opc == "" {
			c.Fail("C02-R1", key, pos(c, fe.clause), "the folder folds operator "+fe.op+" for which the code generator has no "+wantKind+" opcode")
			continue
		}
		vx, why := vmExpr(opc)
		if why != "" {
			c.Undecided("C02-R1", key, pos(c, fe.clause), "VM case "+opc+": "+why)
			continue
		}
		if i2f == "" {
			c.Undecided("C02-R1", key, pos(c, fe.clause), "I2f expression not extracted")
			continue
		}
		want := vx
		if wantKind == "Float" {
			if fe.lk == "Int" {
				want = replaceIdent(want, "a", strings.ReplaceAll(i2f, "X", "a"))
			}
			if fe.rk == "Int" {
				want = replaceIdent(want, "b", strings.ReplaceAll(i2f, "X", "b"))
			}
		}
		okExpr := fe.expr == want
		okKind := fe.resKind == wantKind
		c.Verdict(okExpr && okKind, "C02-R1", key, pos(c, fe.clause), "folds to "+fe.expr+" = unfolded "+opc,
			fmt.Sprintf("folding `%s %s %s` computes %s (as %s) but the unfolded program executes %s computing %s (as %s): optimised and unoptimised compiles give different results", fe.lk, fe.op, fe.rk, fe.expr, fe.resKind, opc, want, wantKind))
	}
	// completeness of the table is not required (unfolded is always right), but record it
	var keys []string
	for k := range seen {
		keys = append(keys, k)
	}
	sort.Strings(keys)
	c.Extra["fold_clauses"] = keys
	c.Floor("C02-R1", 24)

	c.Rule("C02-R2", "DEFINITE: each fold clause assigns exactly once, to the .I (Int) or .F (Float) field of the fresh result literal r, and to nothing else")
	for _, fe := range folds {
		key := fmt.Sprintf("%s %s %s", fe.lk, fe.op, fe.rk)
		if fe.assign == nil {
			continue
		}
		want := "r." + map[string]string{"Int": "I", "Float": "F"}[fe.resKind]
		c.Verdict(fe.target == want, "C02-R2", key, pos(c, fe.assign), "assigns "+want, "the clause stores its result in "+fe.target+" instead of "+want+": the returned literal keeps its zero value (the expression folds to 0) and an operand node is modified")
	}
	c.Floor("C02-R2", 24)

	c.Rule("C02-R3", "ZERO-ONLY: every o.errors.Add in the optimiser is inside `if rhs.{I,F} == 0` within a DIV or MOD clause")
	nerr := 0
	ast.Inspect(f.Body, func(n ast.Node) bool {
		call, ok := n.(*ast.CallExpr)
		if !ok || !strings.HasSuffix(f.CalleeID(call), "errors.(*ErrorList).Add") {
			return true
		}
		nerr++
		okZero := false
		for _, ic := range f.EnclosingIfs(call.Pos()) {
			cond := nospace(exprStr(ic.If.Cond))
			if ic.InThen && (cond == "rhs.I==0" || cond == "rhs.F==0") {
				okZero = true
			}
		}
		okOp := inCase(f, call, "parser.DIV") || inCase(f, call, "parser.MOD")
		c.Verdict(okZero && okOp, "C02-R3", fmt.Sprintf("error#%d", nerr), pos(c, call), "literal zero divisor only", "the optimiser rejects a program for something other than a division or modulus by a literal zero")
		return true
	})
	// and every DIV/MOD clause has the zero test before its assignment
	for _, fe := range folds {
		if fe.op != "DIV" && fe.op != "MOD" {
			continue
		}
		has0 := false
		ast.Inspect(fe.clause, func(n ast.Node) bool {
			if is, ok := n.(*ast.IfStmt); ok {
				cond := nospace(exprStr(is.Cond))
				if (cond == "rhs.I==0" || cond == "rhs.F==0") && fe.assign != nil && is.End() <= fe.assign.Pos() {
					if _, isRet := is.Body.List[len(is.Body.List)-1].(*ast.ReturnStmt); isRet {
						has0 = true
					}
				}
			}
			return true
		})
		key := fmt.Sprintf("%s %s %s zero test", fe.lk, fe.op, fe.rk)
		if fe.lk == "Int" && fe.rk == "Int" {
			c.Verdict(has0, "C02-R3", key, pos(c, fe.clause), "integer division by literal zero rejected before folding", "an integer division or modulus by a literal zero is folded (the compiler itself panics) instead of rejected")
		} else if has0 {
			c.Ok("C02-R3", key, pos(c, fe.clause), "float zero divisor rejected (permitted by the property)")
		}
	}
	c.Floor("C02-R3", 8)

	c.Rule("C02-R4", "PLACEMENT: every call of opt.Optimise in Compile is guarded by !c.disableOptimisation and its error ends the compile")
	if cf := c.MustFn("C02-R4", "internal/runtime/compiler.(*Compiler).Compile"); cf != nil {
		g := cf.Graph()
		calls := g.CallsTo("internal/runtime/compiler/opt.Optimise")
		for i, h := range calls {
			guard := false
			for _, ic := range cf.EnclosingIfs(h.N.Pos()) {
				if ic.InThen && nospace(exprStr(ic.If.Cond)) == "!c.disableOptimisation" {
					guard = true
				}
			}
			c.Verdict(guard, "C02-R4", fmt.Sprintf("Optimise call#%d", i+1), pos(c, h.N), "guarded by the option", "the optimiser runs although optimisation is disabled (or the guard is inverted): 'unoptimised' compiles are folded")
		}
		if len(calls) == 0 {
			c.Note("C02-R4", "no Optimise call", pos(c, cf.Decl), "the compiler never optimises: the property holds trivially")
		}
	}
	c.Floor("C02-R4", 1)

	c.Rule("C02-R5", "FOLD-ONLY: in package opt composite literals are only ast.IntLit/ast.FloatLit; VisitAfter returns only its argument (node / n) or the fresh literal r; no field of an existing AST node is assigned (n.SetType on the error path excepted)")
	for _, k := range c.Prog.SortedFuncKeys() {
		of := c.Prog.Funcs[k]
		if core.Rel(of.Pkg.PkgPath) != "internal/runtime/compiler/opt" || of.Lit != nil {
			continue
		}
		c.Analysed(of)
		ast.Inspect(of.Body, func(n ast.Node) bool {
			switch x := n.(type) {
			case *ast.CompositeLit:
				t := typeStr(of.Info().TypeOf(x))
				if strings.Contains(t, "compiler/ast.") && !strings.HasSuffix(t, "ast.IntLit") && !strings.HasSuffix(t, "ast.FloatLit") {
					c.Fail("C02-R5", of.Key+"|builds "+t, pos(c, x), "the optimiser constructs a "+t+" node: it rewrites expressions beyond folding two literals (e.g. re-association), which changes floating-point results and where conversions happen")
				}
			case *ast.AssignStmt:
				for _, l := range x.Lhs {
					sel, ok := core.Unparen(l).(*ast.SelectorExpr)
					if !ok {
						continue
					}
					s := of.Info().Selections[sel]
					if s == nil || s.Kind() != types.FieldVal || !strings.Contains(s.Recv().String(), "compiler/ast.") {
						continue
					}
					if exprStr(sel.X) == "r" {
						continue
					}
					// operand mutation is R2's finding when it is the result assignment; anything else is a rewrite
					isResult := false
					for _, fe := range folds {
						if fe.assign == x {
							isResult = true
						}
					}
					if !isResult {
						c.Fail("C02-R5", of.Key+"|assigns "+exprStr(sel), pos(c, x), "the optimiser modifies an existing AST node ("+exprStr(sel)+"): more than constant folding")
					}
				}
			}
			return true
		})
	}
	nret := 0
	ast.Inspect(f.Body, func(n ast.Node) bool {
		r, ok := n.(*ast.ReturnStmt)
		if !ok || len(r.Results) != 1 {
			return true
		}
		nret++
		s := exprStr(r.Results[0])
		c.Verdict(s == "node" || s == "n" || s == "r", "C02-R5", fmt.Sprintf("VisitAfter return#%d", nret), pos(c, r), "returns "+s, "VisitAfter returns "+s+", neither the unchanged node nor the folded literal")
		return true
	})
	c.Floor("C02-R5", 20)
}

// renameIdents renders e with the given objects renamed.
func renameIdents(f *core.Func, e ast.Expr, m map[types.Object]string) string {
	s := exprStr(e)
	// do it structurally: collect identifier positions
	type rep struct {
		pos, end int
		to       string
	}
	var reps []rep
	base := int(e.Pos())
	ast.Inspect(e, func(n ast.Node) bool {
		if id, ok := n.(*ast.Ident); ok {
			if to, ok := m[f.Info().Uses[id]]; ok {
				reps = append(reps, rep{int(id.Pos()) - base, int(id.End()) - base, to})
			}
		}
		return true
	})
	// positions refer to source text, not to ExprString output; fall back to token-wise replacement on the printed form
	_ = reps
	out := s
	for obj, to := range m {
		out = replaceIdent(out, obj.Name(), "\x00"+to+"\x00")
	}
	return strings.ReplaceAll(out, "\x00", "")
}

// replaceIdent replaces whole-word occurrences of identifier name in s (not
// preceded by '.'), in a single pass.
func replaceIdent(s, name, to string) string {
	var b strings.Builder
	i := 0
	isW := func(c byte) bool {
		return c == '_' || (c >= '0' && c <= '9') || (c >= 'a' && c <= 'z') || (c >= 'A' && c <= 'Z')
	}
	for i < len(s) {
		if isW(s[i]) && (i == 0 || !isW(s[i-1])) {
			j := i
			for j < len(s) && isW(s[j]) {
				j++
			}
			w := s[i:j]
			if w == name && (i == 0 || s[i-1] != '.') {
				b.WriteString(to)
			} else {
				b.WriteString(w)
			}
			i = j
			continue
		}
		b.WriteByte(s[i])
		i++
	}
	return b.String()
}
