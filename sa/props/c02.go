package props

import (
	"fmt"
	"go/ast"
	"go/constant"
	"go/token"
	"go/types"
	"regexp"
	"sort"
	"strings"

	"golang.org/x/tools/go/cfg"

	"verif/sa/core"
)

func init() { register("C02", c02) }

const optVisitAfter = "internal/runtime/compiler/opt.(*optimiser).VisitAfter"

var spaceRe = regexp.MustCompile(`\s+`)

func nospace(s string) string { return spaceRe.ReplaceAllString(s, "") }

// ---- generic structural helpers (shared with C01) -------------------------

// singleDefs lists the local variables of body that are defined exactly once
// (`x := e`, `x, y := e1, e2`, `var x = e`) and never assigned, incremented,
// ranged over or address-taken afterwards, with their defining expression.
// Such a variable is a name for its definition.
func singleDefs(info *types.Info, body ast.Node) map[types.Object]ast.Expr {
	def := map[types.Object]ast.Expr{}
	n := map[types.Object]int{}
	kill := func(e ast.Expr) {
		if o := identObj(info, e); o != nil {
			n[o] += 2
		}
	}
	ast.Inspect(body, func(x ast.Node) bool {
		switch s := x.(type) {
		case *ast.AssignStmt:
			for i, l := range s.Lhs {
				id, ok := core.Unparen(l).(*ast.Ident)
				if !ok {
					continue
				}
				if s.Tok == token.DEFINE && info.Defs[id] != nil && len(s.Lhs) == len(s.Rhs) {
					o := info.Defs[id]
					n[o]++
					def[o] = s.Rhs[i]
					continue
				}
				kill(id)
			}
		case *ast.ValueSpec:
			for i, id := range s.Names {
				o := info.Defs[id]
				if o == nil {
					continue
				}
				if len(s.Values) == len(s.Names) {
					n[o]++
					def[o] = s.Values[i]
				} else {
					n[o] += 2
				}
			}
		case *ast.IncDecStmt:
			kill(s.X)
		case *ast.RangeStmt:
			if s.Key != nil {
				kill(s.Key)
			}
			if s.Value != nil {
				kill(s.Value)
			}
		case *ast.UnaryExpr:
			if s.Op == token.AND {
				kill(s.X)
			}
		}
		return true
	})
	out := map[types.Object]ast.Expr{}
	for o, e := range def {
		if n[o] == 1 && e != nil {
			out[o] = e
		}
	}
	return out
}

// throughDefs follows single-definition locals: the expression a local stands for.
func throughDefs(info *types.Info, defs map[types.Object]ast.Expr, e ast.Expr) ast.Expr {
	for i := 0; i < 8; i++ {
		e = core.Unparen(e)
		id, ok := e.(*ast.Ident)
		if !ok {
			return e
		}
		d, ok := defs[identObj(info, id)]
		if !ok {
			return e
		}
		e = d
	}
	return e
}

// symCtx renders expressions canonically: identifiers are resolved through
// go/types objects, single-definition locals are replaced by their definition,
// `leaf` names the sub-expressions that stand for operands, every nested
// binary expression is parenthesised and no white space is written.
type symCtx struct {
	info *types.Info
	defs map[types.Object]ast.Expr
	leaf func(ast.Expr) (string, bool)
}

func (sx *symCtx) top(e ast.Expr) string {
	s := sx.str(e, 0)
	// strip one pair of parentheses that encloses the whole rendering
	if strings.HasPrefix(s, "(") && strings.HasSuffix(s, ")") {
		depth := 0
		for i := 0; i < len(s); i++ {
			switch s[i] {
			case '(':
				depth++
			case ')':
				depth--
				if depth == 0 && i != len(s)-1 {
					return s
				}
			}
		}
		return s[1 : len(s)-1]
	}
	return s
}

func (sx *symCtx) leafOf(e ast.Expr) (string, bool) {
	if sx.leaf == nil {
		return "", false
	}
	return sx.leaf(e)
}

func (sx *symCtx) str(e ast.Expr, depth int) string {
	e = core.Unparen(e)
	if s, ok := sx.leafOf(e); ok {
		return s
	}
	switch x := e.(type) {
	case *ast.Ident:
		obj := identObj(sx.info, x)
		if d, ok := sx.defs[obj]; ok && depth < 8 {
			return sx.str(d, depth+1)
		}
		if obj != nil && obj.Pkg() != nil && obj.Parent() == obj.Pkg().Scope() {
			return obj.Pkg().Name() + "." + obj.Name()
		}
		return x.Name
	case *ast.SelectorExpr:
		if id, ok := x.X.(*ast.Ident); ok {
			if _, isPkg := sx.info.Uses[id].(*types.PkgName); isPkg {
				if obj := sx.info.Uses[x.Sel]; obj != nil && obj.Pkg() != nil {
					return obj.Pkg().Name() + "." + obj.Name()
				}
			}
		}
		return sx.str(x.X, depth) + "." + x.Sel.Name
	case *ast.BinaryExpr:
		return "(" + sx.str(x.X, depth) + x.Op.String() + sx.str(x.Y, depth) + ")"
	case *ast.UnaryExpr:
		return x.Op.String() + sx.str(x.X, depth)
	case *ast.StarExpr:
		return "*" + sx.str(x.X, depth)
	case *ast.CallExpr:
		var as []string
		for _, a := range x.Args {
			as = append(as, sx.top(a))
		}
		return sx.str(x.Fun, depth) + "(" + strings.Join(as, ",") + ")"
	case *ast.IndexExpr:
		return sx.str(x.X, depth) + "[" + sx.top(x.Index) + "]"
	case *ast.BasicLit:
		return x.Value
	}
	return nospace(exprStr(e))
}

// tri is a three-valued truth value.
type tri int

const (
	triU tri = iota
	triT
	triF
)

func (t tri) not() tri {
	switch t {
	case triT:
		return triF
	case triF:
		return triT
	}
	return triU
}

// evalCond evaluates a boolean expression in three-valued logic; atom gives
// the value of the sub-expressions it knows (tested before decomposition).
func evalCond(info *types.Info, defs map[types.Object]ast.Expr, e ast.Expr, atom func(ast.Expr) tri) tri {
	e = throughDefs(info, defs, e)
	if v := atom(e); v != triU {
		return v
	}
	if v, ok := constBool(info, e); ok {
		if v {
			return triT
		}
		return triF
	}
	switch x := e.(type) {
	case *ast.UnaryExpr:
		if x.Op == token.NOT {
			return evalCond(info, defs, x.X, atom).not()
		}
	case *ast.BinaryExpr:
		switch x.Op {
		case token.LAND:
			a, b := evalCond(info, defs, x.X, atom), evalCond(info, defs, x.Y, atom)
			if a == triF || b == triF {
				return triF
			}
			if a == triT && b == triT {
				return triT
			}
		case token.LOR:
			a, b := evalCond(info, defs, x.X, atom), evalCond(info, defs, x.Y, atom)
			if a == triT || b == triT {
				return triT
			}
			if a == triF && b == triF {
				return triF
			}
		case token.EQL, token.NEQ:
			// comparison of a boolean with a boolean constant
			for _, p := range [][2]ast.Expr{{x.X, x.Y}, {x.Y, x.X}} {
				if cv, ok := constBool(info, p[1]); ok {
					v := evalCond(info, defs, p[0], atom)
					if !cv {
						v = v.not()
					}
					if x.Op == token.NEQ {
						v = v.not()
					}
					return v
				}
			}
		}
	}
	return triU
}

// factEdges classifies the two-way branches of g with respect to a fact Z:
// atom(e, z) must return the value of the atomic sub-expression e under the
// assumption Z = z (triU if e does not depend on Z).  The result maps each
// branching block to what each outgoing edge implies: +1 = Z holds, -1 = Z
// does not hold, 0 = nothing.
func factEdges(g *core.Graph, defs map[types.Object]ast.Expr, atom func(e ast.Expr, z bool) tri) map[*cfg.Block][2]int {
	info := g.F.Info()
	out := map[*cfg.Block][2]int{}
	for _, b := range g.C.Blocks {
		if !b.Live || len(b.Succs) != 2 || len(b.Nodes) == 0 {
			continue
		}
		cond, ok := b.Nodes[len(b.Nodes)-1].(ast.Expr)
		if !ok {
			continue
		}
		if t := info.TypeOf(cond); t == nil || !types.Identical(t.Underlying(), types.Typ[types.Bool]) && !types.Identical(t.Underlying(), types.Typ[types.UntypedBool]) {
			continue
		}
		ifZ := evalCond(info, defs, cond, func(e ast.Expr) tri { return atom(e, true) })
		ifNotZ := evalCond(info, defs, cond, func(e ast.Expr) tri { return atom(e, false) })
		var r [2]int
		// edge 0 is taken when cond is true, edge 1 when it is false; a condition that does not depend on Z says nothing
		if ifNotZ == triF && ifZ != triF { // cond true is impossible without Z
			r[0] = +1
		} else if ifZ == triF && ifNotZ != triF {
			r[0] = -1
		}
		if ifNotZ == triT && ifZ != triT { // cond false is impossible without Z
			r[1] = +1
		} else if ifZ == triT && ifNotZ != triT {
			r[1] = -1
		}
		if r != [2]int{} {
			out[b] = r
		}
	}
	return out
}

// reachableWithout reports a path from the entry of g to the point `to` that
// takes no edge on which the fact has the given sign.
func reachableWithout(g *core.Graph, edges map[*cfg.Block][2]int, sign int, to core.Point) ([]string, bool) {
	tr, ok := g.Search(core.Query{Goal: core.At(to), AvoidEdge: func(b *cfg.Block, si int) bool {
		r, has := edges[b]
		return has && si < 2 && r[si] == sign
	}})
	return g.Trail(tr), ok
}

// selField resolves a selector expression to (field name, name of the struct type that declares the receiver), "" if it is not a field selection.
func selField(info *types.Info, e ast.Expr) (field, recv string, x ast.Expr) {
	sel, ok := core.Unparen(e).(*ast.SelectorExpr)
	if !ok {
		return "", "", nil
	}
	s := info.Selections[sel]
	if s == nil || s.Kind() != types.FieldVal {
		return "", "", nil
	}
	t := s.Recv()
	if p, ok := t.(*types.Pointer); ok {
		t = p.Elem()
	}
	return s.Obj().Name(), typeStr(t), sel.X
}

// constName names the constant an expression denotes (the declared name, through any import alias), "" if none.
func constName(info *types.Info, e ast.Expr) string {
	if c, ok := usedObj(info, e).(*types.Const); ok {
		return c.Name()
	}
	return ""
}

// isZeroConst reports whether e is a numeric constant equal to zero.
func isZeroConst(info *types.Info, e ast.Expr) bool {
	tv, ok := info.Types[e]
	if !ok || tv.Value == nil {
		return false
	}
	switch tv.Value.Kind() {
	case constant.Int, constant.Float:
		return constant.Sign(tv.Value) == 0
	}
	return false
}

// ---- the fold table ---------------------------------------------------------

type foldEntry struct {
	lk, rk, op string
	assign     *ast.AssignStmt // <literal>.{I,F} = expr
	target     string          // rendered assignment target
	fresh      bool            // the target's base is a literal freshly built in this call
	wantTarget string          // the fresh literal's field the clause should assign
	expr       string          // normalised over a, b
	resKind    string          // kind of the literal assigned to
	clause     *ast.CaseClause // operator clause
	rhsObj     types.Object    // variable bound to the right operand literal
	rhsAliases map[types.Object]bool
	point      core.Point
}

// operandBinding is a region of the function in which obj is the left or right operand, known to be a literal of the given kind.
type operandBinding struct {
	side, kind string
	obj        types.Object
	region     ast.Node
}

type foldTable struct {
	f        *core.Func
	defs     map[types.Object]ast.Expr
	entries  []foldEntry
	problems []string
	fresh    map[types.Object]string // local -> kind, for locals defined as &ast.IntLit{…} / &ast.FloatLit{…}
	binds    []operandBinding
}

func litKindOf(t types.Type) string {
	s := typeStr(t)
	switch {
	case strings.HasSuffix(s, "compiler/ast.IntLit"):
		return "Int"
	case strings.HasSuffix(s, "compiler/ast.FloatLit"):
		return "Float"
	}
	return ""
}

func posWithin(n ast.Node, p token.Pos) bool { return n != nil && n.Pos() <= p && p < n.End() }

// extractFolds reads the (lhs kind, rhs kind, operator) -> expression table out of opt.VisitAfter.
// Recognised family: the operand literals are bound by type-switch clauses (`switch l := n.LHS.(type) { case *ast.IntLit:`)
// or comma-ok assertions in an if header, in any nesting order with the switch on the operator; operands may be read
// through single-definition locals; every name is resolved through go/types.
func extractFolds(c *core.Check, f *core.Func) *foldTable {
	info := f.Info()
	ft := &foldTable{f: f, defs: singleDefs(info, f.Body), fresh: map[types.Object]string{}}
	sideOf := func(e ast.Expr) string {
		fld, recv, _ := selField(info, throughDefs(info, ft.defs, e))
		if strings.HasSuffix(recv, "compiler/ast.BinaryExpr") && (fld == "LHS" || fld == "RHS") {
			return fld[:1]
		}
		return ""
	}
	// fresh literals
	for o, d := range ft.defs {
		d = core.Unparen(d)
		if u, ok := d.(*ast.UnaryExpr); ok && u.Op == token.AND {
			if cl, ok := core.Unparen(u.X).(*ast.CompositeLit); ok {
				if k := litKindOf(info.TypeOf(cl)); k != "" {
					ft.fresh[o] = k
				}
			}
		}
		if call, ok := d.(*ast.CallExpr); ok && f.CalleeID(call) == "builtin.new" && len(call.Args) == 1 {
			if k := litKindOf(info.TypeOf(call.Args[0])); k != "" {
				ft.fresh[o] = k
			}
		}
	}
	// operand bindings
	ast.Inspect(f.Body, func(n ast.Node) bool {
		switch s := n.(type) {
		case *ast.TypeSwitchStmt:
			var ta *ast.TypeAssertExpr
			switch a := s.Assign.(type) {
			case *ast.AssignStmt:
				if len(a.Rhs) == 1 {
					ta, _ = core.Unparen(a.Rhs[0]).(*ast.TypeAssertExpr)
				}
			case *ast.ExprStmt:
				ta, _ = core.Unparen(a.X).(*ast.TypeAssertExpr)
			}
			if ta == nil {
				return true
			}
			side := sideOf(ta.X)
			if side == "" {
				return true
			}
			for _, cl := range s.Body.List {
				cc := cl.(*ast.CaseClause)
				if len(cc.List) != 1 {
					continue
				}
				if k := litKindOf(info.TypeOf(cc.List[0])); k != "" {
					ft.binds = append(ft.binds, operandBinding{side, k, info.Implicits[cc], cc})
				}
			}
		case *ast.IfStmt:
			as, ok := s.Init.(*ast.AssignStmt)
			if !ok || len(as.Lhs) != 2 || len(as.Rhs) != 1 {
				return true
			}
			ta, ok := core.Unparen(as.Rhs[0]).(*ast.TypeAssertExpr)
			if !ok || ta.Type == nil {
				return true
			}
			side, k := sideOf(ta.X), litKindOf(info.TypeOf(ta.Type))
			okObj := identObj(info, as.Lhs[1])
			if side == "" || k == "" || okObj == nil || identObj(info, s.Cond) != okObj {
				return true
			}
			ft.binds = append(ft.binds, operandBinding{side, k, identObj(info, as.Lhs[0]), s.Body})
		}
		return true
	})
	bindAt := func(p token.Pos, side string) *operandBinding {
		var best *operandBinding
		for i := range ft.binds {
			b := &ft.binds[i]
			if b.side == side && posWithin(b.region, p) && (best == nil || best.region.Pos() <= b.region.Pos()) {
				best = b
			}
		}
		return best
	}
	// operator clauses: clauses of a switch whose tag is the Op field of a BinaryExpr
	type opClause struct {
		cc   *ast.CaseClause
		toks []string
	}
	var opClauses []opClause
	ast.Inspect(f.Body, func(n ast.Node) bool {
		sw, ok := n.(*ast.SwitchStmt)
		if !ok || sw.Tag == nil {
			return true
		}
		var tag ast.Expr = sw.Tag
		if as, ok := sw.Init.(*ast.AssignStmt); ok && len(as.Lhs) == 1 && len(as.Rhs) == 1 && identObj(info, as.Lhs[0]) == identObj(info, tag) && identObj(info, tag) != nil {
			tag = as.Rhs[0]
		}
		fld, recv, _ := selField(info, throughDefs(info, ft.defs, tag))
		if fld != "Op" || !strings.HasSuffix(recv, "compiler/ast.BinaryExpr") {
			return true
		}
		for _, cl := range sw.Body.List {
			cc := cl.(*ast.CaseClause)
			var toks []string
			for _, e := range cc.List {
				if name := constName(info, e); name != "" {
					toks = append(toks, name)
				} else {
					toks = append(toks, opName(e))
				}
			}
			if len(toks) > 0 {
				opClauses = append(opClauses, opClause{cc, toks})
			}
		}
		return true
	})
	opAt := func(p token.Pos) *opClause {
		var best *opClause
		for i := range opClauses {
			oc := &opClauses[i]
			if posWithin(oc.cc, p) && (best == nil || best.cc.Pos() <= oc.cc.Pos()) {
				best = oc
			}
		}
		return best
	}
	// result assignments: <x>.I / <x>.F of an IntLit / FloatLit
	g := f.Graph()
	nIn := map[*ast.CaseClause]int{}
	seen := map[string]bool{}
	for _, h := range g.Find(func(n ast.Node) bool { _, ok := n.(*ast.AssignStmt); return ok }) {
		as := h.N.(*ast.AssignStmt)
		if len(as.Lhs) != len(as.Rhs) {
			continue
		}
		for i, l := range as.Lhs {
			fld, recv, base := selField(info, l)
			kind := ""
			switch {
			case fld == "I" && strings.HasSuffix(recv, "compiler/ast.IntLit"):
				kind = "Int"
			case fld == "F" && strings.HasSuffix(recv, "compiler/ast.FloatLit"):
				kind = "Float"
			default:
				continue
			}
			where := c.Prog.Position(as.Pos())
			oc := opAt(as.Pos())
			lb, rb := bindAt(as.Pos(), "L"), bindAt(as.Pos(), "R")
			if oc == nil || lb == nil || rb == nil {
				ft.problems = append(ft.problems, fmt.Sprintf("%s: literal value assigned outside a recognised (left literal, right literal, operator) context", where))
				continue
			}
			nIn[oc.cc]++
			aliases := func(b *operandBinding) map[types.Object]bool {
				m := map[types.Object]bool{}
				if b.obj != nil {
					m[b.obj] = true
				}
				return m
			}
			la, ra := aliases(lb), aliases(rb)
			sx := &symCtx{info: info, defs: ft.defs}
			sx.leaf = func(e ast.Expr) (string, bool) {
				fl, rc, x := selField(info, e)
				if (fl == "I" && strings.HasSuffix(rc, "compiler/ast.IntLit")) || (fl == "F" && strings.HasSuffix(rc, "compiler/ast.FloatLit")) {
					o := identObj(info, throughDefs(info, ft.defs, x))
					if o != nil && la[o] {
						return "a", true
					}
					if o != nil && ra[o] {
						return "b", true
					}
				}
				return "", false
			}
			baseObj := identObj(info, base)
			fe := foldEntry{lk: lb.kind, rk: rb.kind, assign: as, target: exprStr(l), resKind: kind, clause: oc.cc,
				expr: sx.top(as.Rhs[i]), rhsObj: rb.obj, point: h.P}
			if k, isFresh := ft.fresh[baseObj]; isFresh && k == kind {
				fe.fresh = true
			}
			// the fresh literal of the innermost operand region, for the message
			inner := lb.region
			if rb.region.Pos() >= lb.region.Pos() {
				inner = rb.region
			}
			for o, k := range ft.fresh {
				if posWithin(inner, o.Pos()) {
					fe.wantTarget = o.Name() + "." + map[string]string{"Int": "I", "Float": "F"}[k]
				}
			}
			for _, t := range oc.toks {
				e := fe
				e.op = t
				key := e.lk + " " + e.op + " " + e.rk
				if seen[key] {
					ft.problems = append(ft.problems, fmt.Sprintf("%s: second result assignment for %s", where, key))
					continue
				}
				seen[key] = true
				ft.entries = append(ft.entries, e)
			}
		}
	}
	for _, oc := range opClauses {
		if nIn[oc.cc] == 0 {
			// a clause that folds nothing must leave the node alone: it is judged by R5's return rule
			empty := true
			ast.Inspect(oc.cc, func(n ast.Node) bool {
				if r, ok := n.(*ast.ReturnStmt); ok && r != nil {
					empty = false
				}
				return true
			})
			if empty && bindAt(oc.cc.Pos(), "L") != nil && bindAt(oc.cc.Pos(), "R") != nil {
				ft.problems = append(ft.problems, fmt.Sprintf("%s: fold clause %v has 0 result assignments and no return", c.Prog.Position(oc.cc.Pos()), oc.toks))
			}
		}
	}
	sort.SliceStable(ft.entries, func(i, j int) bool { return ft.entries[i].assign.Pos() < ft.entries[j].assign.Pos() })
	return ft
}

// zeroFactEdges classifies the branches of the folder with respect to "the right operand literal bound to obj is zero".
func (ft *foldTable) zeroFactEdges(obj types.Object) map[*cfg.Block][2]int {
	info := ft.f.Info()
	isDivisor := func(e ast.Expr) bool {
		fl, rc, x := selField(info, throughDefs(info, ft.defs, e))
		if (fl == "I" && strings.HasSuffix(rc, "compiler/ast.IntLit")) || (fl == "F" && strings.HasSuffix(rc, "compiler/ast.FloatLit")) {
			return obj != nil && identObj(info, throughDefs(info, ft.defs, x)) == obj
		}
		return false
	}
	// locals defined in an if/switch header (`if d := rhs.I; d == 0`) are single definitions too and already in defs
	return factEdges(ft.f.Graph(), ft.defs, func(e ast.Expr, z bool) tri {
		be, ok := e.(*ast.BinaryExpr)
		if !ok || (be.Op != token.EQL && be.Op != token.NEQ) {
			return triU
		}
		if !(isDivisor(be.X) && isZeroConst(info, be.Y)) && !(isDivisor(be.Y) && isZeroConst(info, be.X)) {
			return triU
		}
		v := triF
		if z == (be.Op == token.EQL) {
			v = triT
		}
		return v
	})
}

func c02(c *core.Check) {
	c.Explain = "Translation validation of the constant folder's own table against the VM's arithmetic, from /repo's current source: (R1) for every (literal kind, literal kind, operator) clause of the optimiser the folded expression, normalised over operands a and b, is syntactically the expression the unfolded program computes — the push expression of the VM opcode that the code generator's typedOperators table selects for the result type, with int operands wrapped in the VM's own int-to-float conversion; (R2) each clause assigns the field of the fresh result literal that matches its kind exactly once and never writes to an operand; (R3) the folder reports an error only under a test that the divisor literal equals zero inside a DIV or MOD clause; (R4) the compiler runs the folder only when optimisation is enabled; (R5) the optimiser does nothing but fold: it builds only Int/Float literals, returns only the unchanged node or the fresh literal, and never rewrites other nodes (no re-association). Because both sides then evaluate the same Go expression on the same operands, results and runtime errors are identical for all literal values. Not decided: identity of floating-point evaluation at compile time vs run time (same machine, same operations). All names (receiver, parameters, locals, import aliases) are resolved through go/types; conditions are evaluated structurally (either operand order, negation, comparison with true/false, tests through single-definition locals) on the control-flow graph; helpers of package opt / compiler are followed through their resolved callees."
	c.Assume = append(c.Assume, "the checker makes the result of mixed arithmetic Float and converts the Int operand with the I2f instruction", "Go evaluates the same expression identically in the compiler process and in the VM")
	f := c.MustFn("C02-R1", optVisitAfter)
	vm := extractVM(c)
	if f == nil || vm == nil {
		c.Undecided("C02-R1", optVisitAfter, "-", "cannot extract optimiser or VM tables")
		return
	}
	info := f.Info()
	ft := extractFolds(c, f)
	folds := ft.entries
	for _, p := range ft.problems {
		c.Undecided("C02-R2", "fold clause", "-", p)
	}
	_, _, typed := mapLiteralOpcodes(c, "internal/runtime/compiler/codegen", "typedOperators")
	// VM push expression per opcode, over a (second pop) and b (first pop); alt is the operand-swapped form of a commutative + or *
	vmDefs := singleDefs(vm.F.Info(), vm.F.Body)
	vmExpr := func(op string) (expr, alt, why string) {
		vc := vm.Cases[op]
		if vc == nil {
			return "", "", "no VM case"
		}
		if len(vc.Pops) < 2 || len(vc.Pushes) < 1 {
			return "", "", "unexpected shape"
		}
		bVar, aVar := vc.Pops[0].Var, vc.Pops[1].Var
		if aVar == nil || bVar == nil {
			return "", "", "pops not bound to variables"
		}
		return vmPushExpr(vm, vmDefs, vc.Pushes[len(vc.Pushes)-1].Expr, map[types.Object]string{aVar: "a", bVar: "b"})
	}
	i2f := ""
	if ic := vm.Cases["I2f"]; ic != nil && len(ic.Pops) == 1 && len(ic.Pushes) == 1 && ic.Pops[0].Var != nil {
		i2f, _, _ = vmPushExpr(vm, vmDefs, ic.Pushes[0].Expr, map[types.Object]string{ic.Pops[0].Var: "X"})
	}
	c.Extra["vm_int_to_float"] = i2f

	c.Rule("C02-R1", "FOLD≡VM: normalised fold expression == VM push expression of typedOperators[op][result type] (or its operand-swapped form for the commutative + and *), with int operands replaced by the VM's I2f expression; result literal kind == Int iff both operands are Int")
	seen := map[string]bool{}
	for _, fe := range folds {
		key := fmt.Sprintf("%s %s %s", fe.lk, fe.op, fe.rk)
		seen[key] = true
		wantKind := "Float"
		if fe.lk == "Int" && fe.rk == "Int" {
			wantKind = "Int"
		}
		opc := typed[fe.op][wantKind]
		if opc == "" {
			c.Fail("C02-R1", key, pos(c, fe.clause), "the folder folds operator "+fe.op+" for which the code generator has no "+wantKind+" opcode")
			continue
		}
		vx, valt, why := vmExpr(opc)
		if why != "" {
			c.Undecided("C02-R1", key, pos(c, fe.clause), "VM case "+opc+": "+why)
			continue
		}
		if i2f == "" {
			c.Undecided("C02-R1", key, pos(c, fe.clause), "I2f expression not extracted")
			continue
		}
		conv := func(want string) string {
			if want == "" {
				return ""
			}
			if wantKind == "Float" {
				ia, ib := "a", "b"
				if fe.lk == "Int" {
					ia = strings.ReplaceAll(i2f, "X", "a")
				}
				if fe.rk == "Int" {
					ib = strings.ReplaceAll(i2f, "X", "b")
				}
				want = replaceIdent(replaceIdent(want, "a", ia), "b", ib)
			}
			return want
		}
		want, wantAlt := conv(vx), conv(valt)
		okExpr := fe.expr == want || (wantAlt != "" && fe.expr == wantAlt)
		okKind := fe.resKind == wantKind
		c.Verdict(okExpr && okKind, "C02-R1", key, pos(c, fe.clause), "folds to "+fe.expr+" = unfolded "+opc,
			fmt.Sprintf("folding `%s %s %s` computes %s (as %s) but the unfolded program executes %s computing %s (as %s): optimised and unoptimised compiles give different results", fe.lk, fe.op, fe.rk, fe.expr, fe.resKind, opc, want, wantKind))
	}
	// completeness of the table is not required (unfolded is always right), but record it
	var keys []string
	for k := range seen {
		keys = append(keys, k)
	}
	sort.Strings(keys)
	c.Extra["fold_clauses"] = keys
	c.Floor("C02-R1", 24)

	c.Rule("C02-R2", "DEFINITE: each fold clause assigns exactly once, to the .I (Int) or .F (Float) field of the fresh result literal (a local defined as &ast.IntLit{…} / &ast.FloatLit{…} in this call), and to nothing else")
	for _, fe := range folds {
		key := fmt.Sprintf("%s %s %s", fe.lk, fe.op, fe.rk)
		if fe.assign == nil {
			continue
		}
		want := fe.wantTarget
		if want == "" {
			want = "the fresh result literal"
		}
		c.Verdict(fe.fresh, "C02-R2", key, pos(c, fe.assign), "assigns "+fe.target, "the clause stores its result in "+fe.target+" instead of "+want+": the returned literal keeps its zero value (the expression folds to 0) and an operand node is modified")
	}
	c.Floor("C02-R2", 24)

	c.Rule("C02-R3", "ZERO-ONLY: every place where the optimiser records an error (errors.Add, directly or through a helper of package opt) lies in a DIV or MOD clause and is reachable only along a branch that establishes `right literal == 0`; and no Int×Int DIV/MOD result assignment is reachable without passing a branch that establishes `right literal != 0`")
	g := f.Graph()
	const errAdd = "internal/runtime/compiler/errors.(*ErrorList).Add"
	raises := c.Prog.Reaching(func(x *core.Func) bool {
		return core.Rel(x.Pkg.PkgPath) == "internal/runtime/compiler/opt" && exprCalls(x, x.Body, errAdd)
	})
	isRaise := func(id string, call *ast.CallExpr) bool {
		if id == errAdd {
			return true
		}
		cf := f.CalleeFunc(call)
		return cf != nil && cf != f && raises[cf] && core.Rel(cf.Pkg.PkgPath) == "internal/runtime/compiler/opt"
	}
	zeroEdges := map[types.Object]map[*cfg.Block][2]int{}
	edgesFor := func(o types.Object) map[*cfg.Block][2]int {
		if m, ok := zeroEdges[o]; ok {
			return m
		}
		m := ft.zeroFactEdges(o)
		zeroEdges[o] = m
		return m
	}
	rhsAt := func(p token.Pos) types.Object {
		var best *operandBinding
		for i := range ft.binds {
			b := &ft.binds[i]
			if b.side == "R" && posWithin(b.region, p) && (best == nil || best.region.Pos() <= b.region.Pos()) {
				best = b
			}
		}
		if best == nil {
			return nil
		}
		return best.obj
	}
	opToksAt := func(p token.Pos) []string {
		var toks []string
		var at token.Pos = -1
		ast.Inspect(f.Body, func(n ast.Node) bool {
			cc, ok := n.(*ast.CaseClause)
			if !ok || !posWithin(cc, p) || cc.Pos() < at {
				return true
			}
			var ts []string
			for _, e := range cc.List {
				if name := constName(info, e); name != "" {
					if cn, ok := usedObj(info, e).(*types.Const); ok && cn.Pkg() != nil && strings.HasSuffix(cn.Pkg().Path(), "compiler/parser") {
						ts = append(ts, name)
					}
				}
			}
			if len(ts) > 0 {
				toks, at = ts, cc.Pos()
			}
			return true
		})
		return toks
	}
	nerr := 0
	for _, h := range g.Calls(isRaise) {
		call := h.N.(*ast.CallExpr)
		nerr++
		key := fmt.Sprintf("error#%d", nerr)
		toks := opToksAt(call.Pos())
		okOp := len(toks) > 0
		for _, t := range toks {
			if t != "DIV" && t != "MOD" {
				okOp = false
			}
		}
		ro := rhsAt(call.Pos())
		if ro == nil {
			c.Fail("C02-R3", key, pos(c, call), "the optimiser rejects a program for something other than a division or modulus by a literal zero (the error is raised where no right-hand literal is known)")
			continue
		}
		tr, unguarded := reachableWithout(g, edgesFor(ro), +1, h.P)
		c.Verdict(!unguarded && okOp, "C02-R3", key, pos(c, call), "literal zero divisor only", "the optimiser rejects a program for something other than a division or modulus by a literal zero", tr...)
	}
	// error-raising code of package opt outside VisitAfter must be a helper judged at its call sites in VisitAfter
	for _, k := range c.Prog.SortedFuncKeys() {
		of := c.Prog.Funcs[k]
		if of == f || of.Lit != nil || core.Rel(of.Pkg.PkgPath) != "internal/runtime/compiler/opt" || c.Prog.IsTestSupport(of) || !raises[of] {
			continue
		}
		c.Analysed(of)
		// every caller in the module must be VisitAfter (judged above) or another such helper
		for _, k2 := range c.Prog.SortedFuncKeys() {
			cf := c.Prog.Funcs[k2]
			if cf == f || c.Prog.IsTestSupport(cf) || (raises[cf] && core.Rel(cf.Pkg.PkgPath) == "internal/runtime/compiler/opt" && cf.Lit == nil) {
				continue
			}
			ast.Inspect(cf.Body, func(n ast.Node) bool {
				if call, ok := n.(*ast.CallExpr); ok && cf.CalleeFunc(call) == of {
					nerr++
					c.Undecided("C02-R3", fmt.Sprintf("error#%d", nerr), pos(c, call), "the error-recording helper "+of.Key+" is called from "+cf.Key+", outside the fold clauses: cannot decide under which condition the program is rejected")
				}
				return true
			})
		}
	}
	// and every DIV/MOD clause has the zero test before its assignment
	for _, fe := range folds {
		if fe.op != "DIV" && fe.op != "MOD" {
			continue
		}
		tr, unguarded := reachableWithout(g, edgesFor(fe.rhsObj), -1, fe.point)
		key := fmt.Sprintf("%s %s %s zero test", fe.lk, fe.op, fe.rk)
		if fe.lk == "Int" && fe.rk == "Int" {
			c.Verdict(!unguarded, "C02-R3", key, pos(c, fe.clause), "integer division by literal zero rejected before folding", "an integer division or modulus by a literal zero is folded (the compiler itself panics) instead of rejected", tr...)
		} else if !unguarded {
			c.Ok("C02-R3", key, pos(c, fe.clause), "float zero divisor rejected (permitted by the property)")
		}
	}
	c.Floor("C02-R3", 8)
	if nerr < 8 {
		c.Undecided("C02-R3", "error sites", "-", fmt.Sprintf("only %d error-recording sites found in the folder, 8 were confirmed by reading", nerr))
	}

	c.Rule("C02-R4", "PLACEMENT: every call of opt.Optimise in package compiler is reachable only along a branch that establishes that the disableOptimisation option is false — in the calling function, or at every call of that function")
	c02placement(c)
	c.Floor("C02-R4", 1)

	c.Rule("C02-R5", "FOLD-ONLY: in package opt composite literals are only ast.IntLit/ast.FloatLit; VisitAfter returns only its argument (the parameter or the variable the type switch binds it to), the fresh literal, or the result of a helper of package opt that returns the node it was given; no field of an existing AST node is assigned (SetType on the error path excepted)")
	for _, k := range c.Prog.SortedFuncKeys() {
		of := c.Prog.Funcs[k]
		if core.Rel(of.Pkg.PkgPath) != "internal/runtime/compiler/opt" || of.Lit != nil || c.Prog.IsTestSupport(of) {
			continue
		}
		c.Analysed(of)
		odefs := ft.defs
		if of != f {
			odefs = singleDefs(of.Info(), of.Body)
		}
		ast.Inspect(of.Body, func(n ast.Node) bool {
			switch x := n.(type) {
			case *ast.CompositeLit:
				t := typeStr(of.Info().TypeOf(x))
				if strings.Contains(t, "compiler/ast.") && !strings.HasSuffix(t, "ast.IntLit") && !strings.HasSuffix(t, "ast.FloatLit") {
					c.Fail("C02-R5", of.Key+"|builds "+t, pos(c, x), "the optimiser constructs a "+t+" node: it rewrites expressions beyond folding two literals (e.g. re-association), which changes floating-point results and where conversions happen")
				}
			case *ast.AssignStmt:
				for _, l := range x.Lhs {
					sel, ok := core.Unparen(l).(*ast.SelectorExpr)
					if !ok {
						continue
					}
					s := of.Info().Selections[sel]
					if s == nil || s.Kind() != types.FieldVal || !strings.Contains(s.Recv().String(), "compiler/ast.") {
						continue
					}
					if isFreshLiteral(of, odefs, sel.X) {
						continue
					}
					// operand mutation is R2's finding when it is the result assignment; anything else is a rewrite
					isResult := false
					for _, fe := range folds {
						if fe.assign == x {
							isResult = true
						}
					}
					if !isResult {
						c.Fail("C02-R5", of.Key+"|assigns "+exprStr(sel), pos(c, x), "the optimiser modifies an existing AST node ("+exprStr(sel)+"): more than constant folding")
					}
				}
			}
			return true
		})
	}
	nret := 0
	ast.Inspect(f.Body, func(n ast.Node) bool {
		if _, isLit := n.(*ast.FuncLit); isLit {
			return false
		}
		r, ok := n.(*ast.ReturnStmt)
		if !ok || len(r.Results) != 1 {
			return true
		}
		nret++
		s := exprStr(r.Results[0])
		key := fmt.Sprintf("VisitAfter return#%d", nret)
		switch what, v := c02returned(c, f, ft.defs, r.Results[0], 0); v {
		case triT:
			c.Ok("C02-R5", key, pos(c, r), "returns "+s+" ("+what+")")
		case triF:
			c.Fail("C02-R5", key, pos(c, r), "VisitAfter returns "+s+", neither the unchanged node nor the folded literal")
		default:
			c.Undecided("C02-R5", key, pos(c, r), "VisitAfter returns "+s+": "+what)
		}
		return true
	})
	c.Floor("C02-R5", 20)
}

// vmPushExpr renders the pushed expression of a VM case over the named pop variables.
func vmPushExpr(vm *vmTable, defs map[types.Object]ast.Expr, e ast.Expr, names map[types.Object]string) (expr, alt, why string) {
	info := vm.F.Info()
	sx := &symCtx{info: info, defs: defs}
	sx.leaf = func(x ast.Expr) (string, bool) {
		if id, ok := x.(*ast.Ident); ok {
			if to, ok := names[identObj(info, id)]; ok {
				return to, true
			}
		}
		return "", false
	}
	expr = sx.top(e)
	if be, ok := throughDefs(info, defs, e).(*ast.BinaryExpr); ok && (be.Op == token.ADD || be.Op == token.MUL) {
		alt = sx.str(be.Y, 0) + be.Op.String() + sx.str(be.X, 0)
	}
	return expr, alt, ""
}

// isFreshLiteral reports whether e denotes a local defined as &ast.IntLit{…} / &ast.FloatLit{…} (or new of them) in fn.
func isFreshLiteral(fn *core.Func, defs map[types.Object]ast.Expr, e ast.Expr) bool {
	info := fn.Info()
	o := identObj(info, e)
	if o == nil {
		return false
	}
	d, ok := defs[o]
	if !ok {
		return false
	}
	d = core.Unparen(d)
	if u, ok := d.(*ast.UnaryExpr); ok && u.Op == token.AND {
		if cl, ok := core.Unparen(u.X).(*ast.CompositeLit); ok {
			return litKindOf(info.TypeOf(cl)) != ""
		}
	}
	if call, ok := d.(*ast.CallExpr); ok && fn.CalleeID(call) == "builtin.new" && len(call.Args) == 1 {
		return litKindOf(info.TypeOf(call.Args[0])) != ""
	}
	if _, isId := d.(*ast.Ident); isId {
		return isFreshLiteral(fn, defs, d)
	}
	return false
}

// c02returned classifies what VisitAfter (or a helper) returns: triT = the node it was given or a fresh literal,
// triF = positively something else, triU = cannot tell (with the reason).
func c02returned(c *core.Check, fn *core.Func, defs map[types.Object]ast.Expr, e ast.Expr, depth int) (string, tri) {
	info := fn.Info()
	e = core.Unparen(e)
	if isFreshLiteral(fn, defs, e) {
		return "the folded literal", triT
	}
	if o := identObj(info, e); o != nil {
		if isParam(fn, o) {
			return "the unchanged node", triT
		}
		// the variable a type switch on a parameter binds
		bound := false
		ast.Inspect(fn.Body, func(n ast.Node) bool {
			ts, ok := n.(*ast.TypeSwitchStmt)
			if !ok {
				return true
			}
			as, ok := ts.Assign.(*ast.AssignStmt)
			if !ok || len(as.Rhs) != 1 {
				return true
			}
			ta, ok := core.Unparen(as.Rhs[0]).(*ast.TypeAssertExpr)
			if !ok {
				return true
			}
			if po := identObj(info, throughDefs(info, defs, ta.X)); po == nil || !isParam(fn, po) {
				return true
			}
			for _, cl := range ts.Body.List {
				if info.Implicits[cl] == o {
					bound = true
				}
			}
			return true
		})
		if bound {
			return "the unchanged node", triT
		}
		if d, ok := defs[o]; ok && depth < 4 {
			return c02returned(c, fn, defs, d, depth+1)
		}
		if _, isVar := o.(*types.Var); isVar {
			// a result variable assigned in several places: every assigned value must qualify
			var vals []ast.Expr
			ast.Inspect(fn.Body, func(n ast.Node) bool {
				switch s := n.(type) {
				case *ast.AssignStmt:
					for i, l := range s.Lhs {
						if identObj(info, l) == o {
							if len(s.Lhs) == len(s.Rhs) {
								vals = append(vals, s.Rhs[i])
							} else {
								vals = append(vals, nil)
							}
						}
					}
				case *ast.ValueSpec:
					for i, id := range s.Names {
						if info.Defs[id] == o && len(s.Values) == len(s.Names) {
							vals = append(vals, s.Values[i])
						}
					}
				}
				return true
			})
			if len(vals) == 0 || depth >= 4 {
				return "a variable whose value is not followed", triU
			}
			res := triT
			for _, v := range vals {
				if v == nil {
					return "a variable assigned from a multi-value call", triU
				}
				if _, r := c02returned(c, fn, defs, v, depth+1); r == triF {
					return "something else", triF
				} else if r == triU {
					res = triU
				}
			}
			return "a variable holding the node or the folded literal", res
		}
		return "something else", triF
	}
	if call, ok := e.(*ast.CallExpr); ok {
		cf := fn.CalleeFunc(call)
		if cf == nil || cf.Lit != nil || depth >= 4 || core.Rel(cf.Pkg.PkgPath) != "internal/runtime/compiler/opt" {
			if tv, ok := info.Types[call.Fun]; ok && tv.IsType() && len(call.Args) == 1 {
				return c02returned(c, fn, defs, call.Args[0], depth+1) // a conversion, e.g. ast.Node(n)
			}
			return "the result of a call that is not followed", triU
		}
		// every return of the helper must be one of its parameters whose argument qualifies, or a fresh literal
		cdefs := singleDefs(cf.Info(), cf.Body)
		res := triT
		nr := 0
		ast.Inspect(cf.Body, func(n ast.Node) bool {
			if _, isLit := n.(*ast.FuncLit); isLit {
				return false
			}
			r, ok := n.(*ast.ReturnStmt)
			if !ok {
				return true
			}
			nr++
			if len(r.Results) != 1 {
				res = triU
				return true
			}
			re := throughDefs(cf.Info(), cdefs, r.Results[0])
			if isFreshLiteral(cf, cdefs, r.Results[0]) {
				return true
			}
			po := identObj(cf.Info(), re)
			idx := -1
			if po != nil {
				idx = paramIndexOfObj(cf, po)
			}
			if idx < 0 || idx >= len(call.Args) {
				if _, v := c02returned(c, cf, cdefs, r.Results[0], depth+1); v != triT {
					res = triU
				}
				return true
			}
			switch _, v := c02returned(c, fn, defs, call.Args[idx], depth+1); v {
			case triF:
				res = triF
			case triU:
				if res != triF {
					res = triU
				}
			}
			return true
		})
		if nr == 0 {
			return "the result of a helper without return statements", triU
		}
		switch res {
		case triT:
			return "through helper " + cf.Key + ", which returns the node it is given", triT
		case triF:
			return "something else", triF
		}
		return "the result of helper " + cf.Key + ", whose returns are not all recognised", triU
	}
	if isNilIdent(info, e) {
		return "nil", triF
	}
	switch e.(type) {
	case *ast.SelectorExpr, *ast.UnaryExpr, *ast.CompositeLit, *ast.IndexExpr:
		return "something else", triF
	}
	return "an expression of unrecognised shape", triU
}

// paramIndexOfObj returns the index of the parameter obj of f, or -1.
func paramIndexOfObj(f *core.Func, obj types.Object) int {
	i := 0
	for _, fl := range f.Type.Params.List {
		if len(fl.Names) == 0 {
			i++
			continue
		}
		for _, n := range fl.Names {
			if f.Info().Defs[n] == obj {
				return i
			}
			i++
		}
	}
	return -1
}

// c02placement checks that opt.Optimise runs only when the disableOptimisation option is false.
func c02placement(c *core.Check) {
	const optimise = "internal/runtime/compiler/opt.Optimise"
	isOptionField := func(info *types.Info, e ast.Expr) bool {
		fld, recv, _ := selField(info, e)
		return fld == "disableOptimisation" && strings.HasSuffix(recv, "compiler.Compiler")
	}
	var inPkg []*core.Func
	for _, k := range c.Prog.SortedFuncKeys() {
		cf := c.Prog.Funcs[k]
		if core.Rel(cf.Pkg.PkgPath) == "internal/runtime/compiler" && !c.Prog.IsTestSupport(cf) {
			inPkg = append(inPkg, cf)
		}
	}
	// guardedAt: is the point reachable only along edges establishing "option false"?
	type verdict struct {
		ok    bool
		trail []string
		und   string
	}
	var judge func(cf *core.Func, h core.Hit, depth int) verdict
	judge = func(cf *core.Func, h core.Hit, depth int) verdict {
		g := cf.Graph()
		info := cf.Info()
		defs := singleDefs(info, cf.Body)
		edges := factEdges(g, defs, func(e ast.Expr, z bool) tri {
			if !isOptionField(info, e) {
				return triU
			}
			if z {
				return triT
			}
			return triF
		})
		// Z = "optimisation disabled"; the call must not be reachable without an edge that implies not-Z
		tr, unguarded := reachableWithout(g, edges, -1, h.P)
		if !unguarded {
			return verdict{ok: true}
		}
		// conditions that mention the option but could not be evaluated make the answer uncertain
		uncertain := false
		for _, b := range g.C.Blocks {
			if !b.Live || len(b.Succs) != 2 || len(b.Nodes) == 0 {
				continue
			}
			if _, has := edges[b]; has {
				continue
			}
			ast.Inspect(b.Nodes[len(b.Nodes)-1], func(n ast.Node) bool {
				if e, ok := n.(ast.Expr); ok && isOptionField(info, e) {
					uncertain = true
				}
				if id, ok := n.(*ast.Ident); ok {
					if d, ok := defs[identObj(info, id)]; ok {
						ast.Inspect(d, func(m ast.Node) bool {
							if e, ok := m.(ast.Expr); ok && isOptionField(info, e) {
								uncertain = true
							}
							return true
						})
					}
				}
				return true
			})
		}
		if uncertain {
			return verdict{und: "a condition on disableOptimisation has a shape that is not evaluated"}
		}
		// not guarded here: every call of this function (a helper) must be guarded
		if cf.Lit != nil || depth >= 3 || (cf.Decl != nil && cf.Decl.Name.IsExported()) {
			return verdict{trail: tr}
		}
		ncall := 0
		for _, caller := range inPkg {
			for _, ch := range caller.Graph().Calls(func(_ string, call *ast.CallExpr) bool { return caller.CalleeFunc(call) == cf }) {
				ncall++
				if v := judge(caller, ch, depth+1); !v.ok {
					if v.und != "" {
						return v
					}
					return verdict{trail: append(tr, v.trail...)}
				}
			}
		}
		if ncall == 0 {
			return verdict{trail: tr}
		}
		return verdict{ok: true}
	}
	n := 0
	for _, cf := range inPkg {
		for _, h := range cf.Graph().CallsTo(optimise) {
			n++
			c.Analysed(cf)
			key := fmt.Sprintf("Optimise call#%d", n)
			v := judge(cf, h, 0)
			switch {
			case v.ok:
				c.Ok("C02-R4", key, pos(c, h.N), "guarded by the option")
			case v.und != "":
				c.Undecided("C02-R4", key, pos(c, h.N), v.und)
			default:
				c.Fail("C02-R4", key, pos(c, h.N), "the optimiser runs although optimisation is disabled (or the guard is inverted): 'unoptimised' compiles are folded", v.trail...)
			}
		}
	}
	if n == 0 {
		if cf := c.MustFn("C02-R4", "internal/runtime/compiler.(*Compiler).Compile"); cf != nil {
			c.Note("C02-R4", "no Optimise call", pos(c, cf.Decl), "package compiler never calls the optimiser: the property holds trivially")
		}
	}
}

// renameIdents renders e with the given objects renamed.
func renameIdents(f *core.Func, e ast.Expr, m map[types.Object]string) string {
	out := exprStr(e)
	for obj, to := range m {
		out = replaceIdent(out, obj.Name(), "\x00"+to+"\x00")
	}
	return strings.ReplaceAll(out, "\x00", "")
}

// replaceIdent replaces whole-word occurrences of identifier name in s (not
// preceded by '.'), in a single pass.
func replaceIdent(s, name, to string) string {
	var b strings.Builder
	i := 0
	isW := func(c byte) bool {
		return c == '_' || (c >= '0' && c <= '9') || (c >= 'a' && c <= 'z') || (c >= 'A' && c <= 'Z')
	}
	for i < len(s) {
		if isW(s[i]) && (i == 0 || !isW(s[i-1])) {
			j := i
			for j < len(s) && isW(s[j]) {
				j++
			}
			w := s[i:j]
			if w == name && (i == 0 || s[i-1] != '.') {
				b.WriteString(to)
			} else {
				b.WriteString(w)
			}
			i = j
			continue
		}
		b.WriteByte(s[i])
		i++
	}
	return b.String()
}
