package props

import (
	"fmt"
	"go/ast"
	"go/constant"
	"go/token"
	"go/types"
	"sort"
	"strings"
	"unicode"

	"golang.org/x/tools/go/cfg"

	"verif/sa/core"
)

// C03-R3 (d) RE-READ AGREEMENT.  Sending a token is not progress through the
// input: a state that reads a rune, pushes it back, sends an (empty) token and
// hands control to a state that does the same never ends.  Whether such a round
// is possible depends on the rune: the dispatcher enters a state because a
// predicate held for the rune it pushed back, and the state reads the same rune
// again and must accept it.  Here the state machine is walked for every CLASS of
// first runes (runes that no comparison or predicate of the lexer can tell
// apart), from the lexer's initial configuration, following only transitions
// that consume nothing; conditions are evaluated on the rune by interpretation
// of the predicates (comparisons with constants, unicode.IsX, the lexer's own
// helper predicates) and on the lexer's boolean flags (initial values from the
// constructor, assignments in the states and their deferred closures; a flag
// that code outside the states sets is forgotten after a token that the grammar
// shows directly before the marker production calling that code).  A
// configuration (state, flags) that comes back without a rune consumed and
// without any unknown condition on the way is an input on which Parse never
// returns.

type c03RuneEval struct {
	x   *c03Ctx
	rv  int64
	eof int64
}

var c03UnicodePreds = map[string]func(rune) bool{
	"unicode.IsDigit": unicode.IsDigit, "unicode.IsLetter": unicode.IsLetter, "unicode.IsSpace": unicode.IsSpace,
	"unicode.IsUpper": unicode.IsUpper, "unicode.IsLower": unicode.IsLower, "unicode.IsNumber": unicode.IsNumber,
	"unicode.IsPunct": unicode.IsPunct, "unicode.IsPrint": unicode.IsPrint, "unicode.IsControl": unicode.IsControl,
	"unicode.IsGraphic": unicode.IsGraphic, "unicode.IsSymbol": unicode.IsSymbol, "unicode.IsMark": unicode.IsMark,
	"unicode.IsTitle": unicode.IsTitle,
}

// flag values: 0 unknown, 1 false, 2 true
type c03Flags map[*types.Var]int

func (e c03Flags) clone() c03Flags {
	o := c03Flags{}
	for k, v := range e {
		o[k] = v
	}
	return o
}

func (e c03Flags) key(order []*types.Var) string {
	var sb strings.Builder
	for _, f := range order {
		fmt.Fprintf(&sb, "%s=%d,", f.Name(), e[f])
	}
	return sb.String()
}

func (re *c03RuneEval) isRune(f *core.Func, a ast.Expr, runes map[types.Object]bool) bool {
	a = core.Unparen(a)
	if id, ok := a.(*ast.Ident); ok {
		return runes[identObj(f.Info(), id)]
	}
	if call, ok := a.(*ast.CallExpr); ok {
		return f.CalleeID(call) == c03LexerNext
	}
	return false
}

func c03ConstInt(info *types.Info, e ast.Expr) (int64, bool) {
	tv, ok := info.Types[e]
	if !ok || tv.Value == nil {
		return 0, false
	}
	v := constant.ToInt(tv.Value)
	if v.Kind() != constant.Int {
		return 0, false
	}
	return constant.Int64Val(v)
}

// cond evaluates a boolean expression for the current rune and flags: (value, known).
func (re *c03RuneEval) cond(f *core.Func, e ast.Expr, runes map[types.Object]bool, env c03Flags, depth int) (bool, bool) {
	if depth > 6 {
		return false, false
	}
	info := f.Info()
	e = core.Unparen(e)
	if b, ok := constBool(info, e); ok {
		return b, true
	}
	switch v := e.(type) {
	case *ast.UnaryExpr:
		if v.Op == token.NOT {
			b, ok := re.cond(f, v.X, runes, env, depth)
			return !b, ok
		}
	case *ast.BinaryExpr:
		switch v.Op {
		case token.LAND, token.LOR:
			a, oka := re.cond(f, v.X, runes, env, depth)
			b, okb := re.cond(f, v.Y, runes, env, depth)
			if v.Op == token.LAND {
				if (oka && !a) || (okb && !b) {
					return false, true
				}
				return a && b, oka && okb
			}
			if (oka && a) || (okb && b) {
				return true, true
			}
			return a || b, oka && okb
		case token.EQL, token.NEQ, token.LSS, token.LEQ, token.GTR, token.GEQ:
			var l, r int64
			switch {
			case re.isRune(f, v.X, runes):
				c, ok := c03ConstInt(info, v.Y)
				if !ok {
					return false, false
				}
				l, r = re.rv, c
			case re.isRune(f, v.Y, runes):
				c, ok := c03ConstInt(info, v.X)
				if !ok {
					return false, false
				}
				l, r = c, re.rv
			default:
				return false, false
			}
			return constant.Compare(constant.MakeInt64(l), v.Op, constant.MakeInt64(r)), true
		}
	case *ast.SelectorExpr:
		if s := info.Selections[v]; s != nil && s.Kind() == types.FieldVal {
			if fv, ok := s.Obj().(*types.Var); ok && env != nil {
				switch env[fv] {
				case 1:
					return false, true
				case 2:
					return true, true
				}
			}
		}
	case *ast.CallExpr:
		if len(v.Args) != 1 || !re.isRune(f, v.Args[0], runes) {
			return false, false
		}
		id := f.CalleeID(v)
		if p, ok := c03UnicodePreds[id]; ok {
			if re.rv < 0 {
				return false, true
			}
			return p(rune(re.rv)), true
		}
		g := f.CalleeFunc(v)
		if g == nil || g.Obj == nil || g.Body == nil {
			return false, false
		}
		sig := g.Obj.Type().(*types.Signature)
		if sig.Params().Len() != 1 || re.x.reassigned(g, sig.Params().At(0)) {
			return false, false
		}
		return re.body(g, g.Body.List, map[types.Object]bool{sig.Params().At(0): true}, depth+1)
	}
	return false, false
}

// body evaluates a predicate helper: returns of boolean expressions, ifs, switches on the rune.
func (re *c03RuneEval) body(g *core.Func, stmts []ast.Stmt, runes map[types.Object]bool, depth int) (bool, bool) {
	info := g.Info()
	for _, st := range stmts {
		switch s := st.(type) {
		case *ast.ReturnStmt:
			if len(s.Results) != 1 {
				return false, false
			}
			return re.cond(g, s.Results[0], runes, nil, depth)
		case *ast.SwitchStmt:
			if s.Init != nil {
				return false, false
			}
			var chosen, deflt *ast.CaseClause
			for _, cl := range s.Body.List {
				cc := cl.(*ast.CaseClause)
				if cc.List == nil {
					deflt = cc
				}
				if chosen != nil {
					continue
				}
				for _, e := range cc.List {
					if s.Tag != nil {
						if !runes[identObj(info, s.Tag)] {
							return false, false
						}
						cv, ok := c03ConstInt(info, e)
						if !ok {
							return false, false
						}
						if cv == re.rv {
							chosen = cc
						}
					} else {
						b, ok := re.cond(g, e, runes, nil, depth)
						if !ok {
							return false, false
						}
						if b {
							chosen = cc
						}
					}
				}
			}
			if chosen == nil {
				chosen = deflt
			}
			if chosen != nil {
				for _, cs := range chosen.Body {
					if _, isFT := cs.(*ast.BranchStmt); isFT {
						return false, false
					}
				}
				if b, ok := re.body(g, chosen.Body, runes, depth); ok {
					return b, true
				}
				for _, cs := range chosen.Body {
					if _, isRet := cs.(*ast.ReturnStmt); isRet {
						return false, false
					}
				}
			}
		case *ast.IfStmt:
			if s.Init != nil {
				return false, false
			}
			b, ok := re.cond(g, s.Cond, runes, nil, depth)
			if !ok {
				return false, false
			}
			if b {
				if r, ok := re.body(g, s.Body.List, runes, depth); ok {
					return r, true
				}
				return false, false
			}
			if s.Else != nil {
				eb, isB := s.Else.(*ast.BlockStmt)
				if !isB {
					return false, false
				}
				if r, ok := re.body(g, eb.List, runes, depth); ok {
					return r, true
				}
				return false, false
			}
		default:
			return false, false
		}
	}
	return false, false
}

// c03WalkRes is the outcome of running one state function on a fixed first rune.
type c03WalkRes struct {
	next     *core.Func
	stops    bool // returned nil
	prog     int  // 0: nothing consumed, 1/2: a rune consumed
	env      c03Flags
	emitted  []string
	unknown  string // non-empty: the walk met a condition it cannot evaluate
	trail    []string
}

type c03Reread struct {
	lx       *c03Lex
	flags    []*types.Var
	external map[*types.Var][]string        // flag -> functions outside the states that write it
	trigger  map[*types.Var]map[string]bool // flag -> token kinds after which outside code may write it (nil: any)
}

func (rr *c03Reread) walk(f *core.Func, rv, eof int64, env c03Flags) c03WalkRes {
	x := rr.lx.x
	g := f.Graph()
	info := f.Info()
	N, B, E := rr.lx.events(f)
	isN, isB, isE := core.At(N...), core.At(B...), core.At(E...)
	runes := x.runeVars(f)
	re := &c03RuneEval{x: x, rv: rv, eof: eof}
	sw := c24tagSwitches(f)
	res := c03WalkRes{env: env.clone()}
	var deferred []*ast.FuncLit
	flagOf := func(e ast.Expr) *types.Var {
		if sel, ok := core.Unparen(e).(*ast.SelectorExpr); ok {
			if s := info.Selections[sel]; s != nil && s.Kind() == types.FieldVal {
				if fv, ok := s.Obj().(*types.Var); ok {
					for _, fl := range rr.flags {
						if fl == fv {
							return fv
						}
					}
				}
			}
		}
		return nil
	}
	assign := func(as *ast.AssignStmt, inf *types.Info) {
		for i, l := range as.Lhs {
			sel, ok := core.Unparen(l).(*ast.SelectorExpr)
			if !ok {
				continue
			}
			s := inf.Selections[sel]
			if s == nil || s.Kind() != types.FieldVal {
				continue
			}
			fv, _ := s.Obj().(*types.Var)
			tracked := false
			for _, fl := range rr.flags {
				if fl == fv {
					tracked = true
				}
			}
			if !tracked {
				continue
			}
			res.env[fv] = 0
			if len(as.Rhs) == len(as.Lhs) && as.Tok == token.ASSIGN {
				if b, ok := constBool(inf, as.Rhs[i]); ok {
					res.env[fv] = 1
					if b {
						res.env[fv] = 2
					}
				}
			}
		}
	}
	_ = flagOf
	b := g.C.Blocks[0]
	i := 0
	for steps := 0; steps < 4000; steps++ {
		for ; i < len(b.Nodes); i++ {
			p := core.Point{B: b, I: i}
			n := b.Nodes[i]
			if isN(p) {
				res.prog++
				if res.prog >= 2 {
					res.prog = 2
					return res
				}
			}
			if isB(p) && res.prog == 1 {
				res.prog = 0
			}
			if isE(p) {
				kind := "?"
				ast.Inspect(n, func(m ast.Node) bool {
					if call, ok := m.(*ast.CallExpr); ok && len(call.Args) >= 1 {
						if cf := f.CalleeFunc(call); cf != nil && rr.lx.senders[cf] {
							a := core.Unparen(call.Args[0])
							if cv, ok := a.(*ast.CallExpr); ok && len(cv.Args) == 1 { // Kind(X)
								a = core.Unparen(cv.Args[0])
							}
							if cn, ok := usedObj(info, a).(*types.Const); ok {
								kind = cn.Name()
							}
						}
					}
					return true
				})
				res.emitted = append(res.emitted, kind)
			}
			switch s := n.(type) {
			case *ast.AssignStmt:
				assign(s, info)
			case *ast.DeferStmt:
				if lit, ok := core.Unparen(s.Call.Fun).(*ast.FuncLit); ok {
					deferred = append(deferred, lit)
				}
			case *ast.ReturnStmt:
				if len(s.Results) != 1 {
					res.unknown = "return of other than one state"
					return res
				}
				tos, nilRet, why := rr.lx.targets(f, s.Results[0])
				if why != "" || (!nilRet && len(tos) != 1) {
					res.unknown = "returned state not resolved to one state function"
					return res
				}
				for k := len(deferred) - 1; k >= 0; k-- {
					ast.Inspect(deferred[k].Body, func(m ast.Node) bool {
						if as, ok := m.(*ast.AssignStmt); ok {
							assign(as, info)
						}
						return true
					})
				}
				res.stops = nilRet
				if !nilRet {
					res.next = tos[0]
				}
				return res
			}
		}
		switch len(b.Succs) {
		case 0:
			res.unknown = "falls off the end"
			return res
		case 1:
			b, i = b.Succs[0], 0
		case 2:
			if len(b.Nodes) == 0 {
				res.unknown = "branch without a condition"
				return res
			}
			e, isE := b.Nodes[len(b.Nodes)-1].(ast.Expr)
			if !isE {
				res.unknown = "branch on a statement (range loop, select)"
				return res
			}
			var val, known bool
			if s := sw[e]; s != nil {
				if re.isRune(f, s.Tag, runes) {
					if cv, ok := c03ConstInt(info, e); ok {
						val, known = cv == rv, true
					}
				}
			} else {
				val, known = re.cond(f, e, runes, res.env, 0)
			}
			if !known {
				res.unknown = "condition not decided by the rune and the flags: " + c03Short(exprStr(e))
				return res
			}
			if val {
				res.trail = append(res.trail, c03Short(exprStr(e)))
			}
			if val {
				b, i = b.Succs[0], 0
			} else {
				b, i = b.Succs[1], 0
			}
		default:
			res.unknown = "multi-way branch"
			return res
		}
	}
	res.unknown = "walk too long"
	return res
}

// reread is part (d) of C03-R3.
func (lx *c03Lex) reread(initState, ctor *core.Func) {
	x := lx.x
	c := x.c
	key := "state graph|every first rune is consumed"
	eofC, _ := x.tokenConst("eof").(*types.Const)
	if eofC == nil {
		c.Undecided("C03-R3", key, "-", "the end-of-input rune constant was not found")
		return
	}
	eof, _ := constant.Int64Val(constant.ToInt(eofC.Val()))
	pkg := initState.Pkg
	rr := &c03Reread{lx: lx, external: map[*types.Var][]string{}, trigger: map[*types.Var]map[string]bool{}}
	// the lexer's boolean flags and their initial values
	var lexSt *types.Struct
	if sig, ok := initState.Obj.Type().(*types.Signature); ok && sig.Params().Len() == 1 {
		lexSt = c03StructOf(sig.Params().At(0).Type())
	}
	if lexSt == nil {
		c.Undecided("C03-R3", key, pos(c, initState.Decl), "lexer struct not found")
		return
	}
	env0 := c03Flags{}
	for i := 0; i < lexSt.NumFields(); i++ {
		fld := lexSt.Field(i)
		if b, ok := fld.Type().Underlying().(*types.Basic); ok && b.Kind() == types.Bool {
			rr.flags = append(rr.flags, fld)
			env0[fld] = 0
		}
	}
	ast.Inspect(ctor.Body, func(n ast.Node) bool {
		cl, ok := n.(*ast.CompositeLit)
		if !ok || c03StructOf(ctor.Info().TypeOf(cl)) != lexSt {
			return true
		}
		for _, fld := range rr.flags {
			v, zero, ok := c03LitField(ctor.Info(), cl, fld)
			switch {
			case ok && zero:
				env0[fld] = 1
			case ok:
				if b, isC := constBool(ctor.Info(), v); isC {
					env0[fld] = 1
					if b {
						env0[fld] = 2
					}
				}
			}
		}
		return true
	})
	// a flag assigned in the constructor after the literal, or anywhere outside the states
	stateLit := map[*core.Func]bool{}
	for _, s := range lx.states {
		stateLit[s] = true
		for _, l := range s.Lits {
			stateLit[l] = true
		}
	}
	for _, sf := range shipped(c) {
		if stateLit[sf] {
			continue
		}
		info := sf.Info()
		core.InspectNoLit(sf.Body, func(n ast.Node) bool {
			as, ok := n.(*ast.AssignStmt)
			if !ok {
				return true
			}
			for _, l := range as.Lhs {
				if sel, ok := core.Unparen(l).(*ast.SelectorExpr); ok {
					if s := info.Selections[sel]; s != nil && s.Kind() == types.FieldVal {
						for _, fl := range rr.flags {
							if s.Obj() == types.Object(fl) {
								if sf == ctor {
									env0[fl] = 0
								} else {
									rr.external[fl] = append(rr.external[fl], sf.Key)
								}
							}
						}
					}
				}
			}
			return true
		})
	}
	// after which tokens can outside code write a flag?  The writer is called from a marker production
	// (empty right-hand side); the parser reduces it only after shifting the symbol that precedes the marker.
	for fl, writers := range rr.external {
		trig := map[string]bool{}
		okAll := x.gram != nil
		for _, w := range writers {
			wf := c.Prog.Fn(w)
			if wf == nil || wf.Obj == nil || !okAll {
				okAll = false
				break
			}
			name := wf.Obj.Name()
			found := false
			for nt, alts := range x.gram.Rules {
				for _, a := range alts {
					if !strings.Contains(a.Action, "."+name+"(") && !strings.Contains(a.Action, " "+name+"(") {
						continue
					}
					if len(a.Syms) != 0 {
						okAll = false
						continue
					}
					found = true
					// every use of the marker
					for _, alts2 := range x.gram.Rules {
						for _, a2 := range alts2 {
							for i, s := range a2.Syms {
								if s != nt {
									continue
								}
								if i == 0 {
									okAll = false
									continue
								}
								if _, isTok := x.gram.Tokens[a2.Syms[i-1]]; isTok {
									trig[a2.Syms[i-1]] = true
								} else {
									okAll = false
								}
							}
						}
					}
				}
			}
			// other callers than the generated parser?
			if !found {
				okAll = false
			}
			for _, cs := range x.calls[wf.Obj] {
				if !c.Prog.IsTestSupport(cs.F) && !strings.Contains(c.Prog.Position(cs.Call.Pos()), ".y:") && !strings.Contains(c.Prog.Position(cs.Call.Pos()), "parser.go:") {
					okAll = false
				}
			}
		}
		if okAll {
			rr.trigger[fl] = trig
		} else {
			rr.trigger[fl] = nil
		}
	}
	// classes of runes: what the lexer can tell apart
	var preds []func(rune) bool
	predSeen := map[string]bool{}
	thr := map[int64]bool{eof: true}
	for _, sf := range shipped(c) {
		if sf.Pkg != pkg {
			continue
		}
		info := sf.Info()
		ast.Inspect(sf.Body, func(n ast.Node) bool {
			switch v := n.(type) {
			case *ast.CallExpr:
				if p, ok := c03UnicodePreds[sf.CalleeID(v)]; ok && !predSeen[sf.CalleeID(v)] {
					predSeen[sf.CalleeID(v)] = true
					preds = append(preds, p)
				}
			case ast.Expr:
				if tv, ok := info.Types[v]; ok && tv.Value != nil && tv.Type != nil {
					if bt, ok := tv.Type.Underlying().(*types.Basic); ok && (bt.Kind() == types.Int32 || bt.Kind() == types.UntypedRune) {
						if iv, ok := c03ConstInt(info, v); ok {
							thr[iv] = true
						}
					}
				}
			}
			return true
		})
	}
	var ts []int64
	for t := range thr {
		ts = append(ts, t)
	}
	sort.Slice(ts, func(i, j int) bool { return ts[i] < ts[j] })
	reps := map[uint64]int64{}
	var order []uint64
	for r := int64(-1); r <= unicode.MaxRune; r++ {
		if r >= 0xD800 && r <= 0xDFFF {
			continue
		}
		rv := r
		if r == -1 {
			rv = eof
		}
		k := sort.Search(len(ts), func(i int) bool { return ts[i] >= rv })
		bucket := uint64(2 * k)
		if k < len(ts) && ts[k] == rv {
			bucket++
		}
		sig := bucket << 20
		if rv >= 0 {
			for i, p := range preds {
				if p(rune(rv)) {
					sig |= 1 << uint(i)
				}
			}
		}
		if _, seen := reps[sig]; !seen {
			reps[sig] = rv
			order = append(order, sig)
		}
	}
	// the chains
	nProgress, nStopped, nUnknown := 0, 0, 0
	var unknownWhy []string
	var witness []string
	for _, sig := range order {
		rv := reps[sig]
		cur, env := initState, env0.clone()
		seen := map[string]bool{}
		var chain []string
		for hop := 0; hop < 40; hop++ {
			k := cur.Key + "|" + env.key(rr.flags)
			if seen[k] {
				rn := fmt.Sprintf("U+%04X", rv)
				if rv == eof {
					rn = "end of input"
				}
				witness = append(witness, fmt.Sprintf("first rune %s: %s comes back to %s with nothing consumed", rn, strings.Join(chain, " → "), c03Short(cur.Key)))
				break
			}
			seen[k] = true
			res := rr.walk(cur, rv, eof, env)
			if res.unknown != "" {
				nUnknown++
				if len(unknownWhy) < 4 {
					unknownWhy = append(unknownWhy, fmt.Sprintf("U+%04X in %s: %s", rv, c03Short(cur.Key), res.unknown))
				}
				break
			}
			if res.prog != 0 {
				nProgress++
				break
			}
			if res.stops {
				nStopped++
				break
			}
			chain = append(chain, fmt.Sprintf("%s [holds: %s; sends %v]", c03Short(cur.Key), strings.Join(res.trail, ", "), res.emitted))
			env = res.env
			for fl, trig := range rr.trigger {
				for _, kd := range res.emitted {
					if trig == nil || trig[kd] || kd == "?" {
						env[fl] = 0
					}
				}
			}
			cur = res.next
		}
		if len(witness) > 0 {
			break
		}
	}
	trigDesc := map[string]any{}
	for fl, tr := range rr.trigger {
		if tr == nil {
			trigDesc[fl.Name()] = "any token (writers: " + strings.Join(rr.external[fl], ", ") + ")"
		} else {
			var ks []string
			for k := range tr {
				ks = append(ks, k)
			}
			sort.Strings(ks)
			trigDesc[fl.Name()] = "after " + strings.Join(ks, ", ") + " (writers: " + strings.Join(rr.external[fl], ", ") + ")"
		}
	}
	c.Extra["c03_lexer_flags_written_outside"] = trigDesc
	c.Extra["c03_lexer_reread"] = map[string]any{"rune_classes": len(order), "consumed": nProgress, "stopped_at_end_of_input": nStopped, "not_decided": nUnknown, "not_decided_examples": unknownWhy}
	switch {
	case len(witness) > 0:
		c.Fail("C03-R3", key, pos(c, initState.Decl), "the lexer never advances on a program that starts with this rune: a state pushes the rune back for another state that reads it again, accepts nothing, pushes it back and sends an empty token; the parser accepts the tokens one by one, so Parse (and Compile) never return: "+witness[0])
	case nProgress == 0:
		c.Undecided("C03-R3", key, pos(c, initState.Decl), fmt.Sprintf("no class of first runes could be followed to a consumed rune (%d classes, %d not decided: %s)", len(order), nUnknown, strings.Join(unknownWhy, "; ")))
	default:
		c.Ok("C03-R3", key, pos(c, initState.Decl), fmt.Sprintf("%d classes of first runes from the initial configuration: %d consumed, %d stop at end of input, %d depend on a condition that the rune and the flags do not decide", len(order), nProgress, nStopped, nUnknown))
	}
	_ = cfg.KindBody
}
