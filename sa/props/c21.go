package props

import (
	"fmt"
	"go/ast"
	"go/token"
	"go/types"
	"strings"

	"golang.org/x/tools/go/cfg"

	"verif/sa/core"
)

func init() { register("C21", c21) }

const (
	bucketsObserve = "internal/metrics/datum.(*Buckets).Observe"
	codegenBefore  = "internal/runtime/compiler/codegen.(*codegen).VisitBefore"
)

// c21Named reports whether t (pointers stripped) is the named type pkg.name
// with pkg relative to the module.
func c21Named(t types.Type, pkg, name string) bool {
	if t == nil {
		return false
	}
	if p, ok := t.(*types.Pointer); ok {
		t = p.Elem()
	}
	n, ok := t.(*types.Named)
	return ok && n.Obj().Name() == name && n.Obj().Pkg() != nil && core.Rel(n.Obj().Pkg().Path()) == pkg
}

// c21Inc is an increment of the Count field of a datum.BucketCount.
type c21Inc struct {
	hit    core.Hit
	elem   ast.Expr // the bucket expression X in X.Count
	list   ast.Expr // L in L[i] (nil if the bucket is not an element of a slice)
	idx    ast.Expr // i
	isCopy bool     // the bucket is the value variable of a range loop: a copy is incremented
}

// c21IncTarget returns the expression incremented by exactly one by the statement, or nil.
func c21IncTarget(info *types.Info, n ast.Node) ast.Expr {
	switch s := n.(type) {
	case *ast.IncDecStmt:
		if s.Tok == token.INC {
			return s.X
		}
	case *ast.AssignStmt:
		if len(s.Lhs) != 1 || len(s.Rhs) != 1 {
			return nil
		}
		one := func(e ast.Expr) bool { v, ok := constInt(info, e); return ok && v == 1 }
		switch s.Tok {
		case token.ADD_ASSIGN:
			if one(s.Rhs[0]) {
				return s.Lhs[0]
			}
		case token.ASSIGN: // x = x + 1, x = 1 + x
			if be, ok := core.Unparen(s.Rhs[0]).(*ast.BinaryExpr); ok && be.Op == token.ADD {
				if (hbSameExpr(info, be.X, s.Lhs[0]) && one(be.Y)) || (hbSameExpr(info, be.Y, s.Lhs[0]) && one(be.X)) {
					return s.Lhs[0]
				}
			}
		}
	}
	return nil
}

// c21AddTarget returns (target, addend) for `t += e`, `t = t + e`, `t = e + t`.
func c21AddTarget(info *types.Info, n ast.Node) (ast.Expr, ast.Expr) {
	s, ok := n.(*ast.AssignStmt)
	if !ok || len(s.Lhs) != 1 || len(s.Rhs) != 1 {
		return nil, nil
	}
	switch s.Tok {
	case token.ADD_ASSIGN:
		return s.Lhs[0], s.Rhs[0]
	case token.ASSIGN:
		if be, ok := core.Unparen(s.Rhs[0]).(*ast.BinaryExpr); ok && be.Op == token.ADD {
			if hbSameExpr(info, be.X, s.Lhs[0]) {
				return s.Lhs[0], be.Y
			}
			if hbSameExpr(info, be.Y, s.Lhs[0]) {
				return s.Lhs[0], be.X
			}
		}
	}
	return nil, nil
}

// c21BucketIncs finds the statements of f that increment the Count of a datum.BucketCount.
func c21BucketIncs(f *core.Func) []c21Inc {
	info := f.Info()
	var out []c21Inc
	for _, h := range f.Graph().Find(func(n ast.Node) bool {
		t := c21IncTarget(info, n)
		if t == nil {
			return false
		}
		fv, base := hbFieldOf(info, t)
		return fv != nil && fv.Name() == "Count" && c21Named(info.TypeOf(base), "internal/metrics/datum", "BucketCount")
	}) {
		_, base := hbFieldOf(info, c21IncTarget(info, h.N))
		inc := c21Inc{hit: h, elem: base}
		e := core.Unparen(base)
		if id, ok := e.(*ast.Ident); ok {
			if def := hbSingleDef(f, identObj(info, id)); def != nil {
				d := core.Unparen(def)
				if u, ok := d.(*ast.UnaryExpr); ok && u.Op == token.AND {
					e = core.Unparen(u.X) // p := &L[i]
				} else if _, isPtr := info.TypeOf(id).(*types.Pointer); !isPtr {
					inc.isCopy = true // b := L[i] by value
				}
			} else if _, isPtr := info.TypeOf(id).(*types.Pointer); !isPtr {
				inc.isCopy = true // range value variable (or another by-value local)
			}
		}
		if ix, ok := e.(*ast.IndexExpr); ok {
			inc.list, inc.idx = ix.X, ix.Index
		}
		out = append(out, inc)
	}
	return out
}

func c21(c *core.Check) {
	c.Explain = "Decides structural necessary conditions of C21: (R1) in Buckets.Observe no path increments more than one bucket, every increment is selected by the ordered first-match scan `v <= upper bound` (inclusive) over the datum's own bucket list or by a range test with exclusive lower and inclusive upper edge, and a catch-all sends a value matched by no bound (above all bounds, NaN) to the last bucket; (R2) count and sum are updated exactly once on every path, under the datum's lock; (R3) in the code generator every declared boundary becomes an exported upper bound exactly once, followed by one +Inf bucket; (R4) the sortedness test dominates every boundary it admits; (R5) every histogram datum owns its bucket counters (no slice sharing between label sets); (R6) the Prometheus histogram sample takes count, sum and cumulative buckets from the same datum, and the cumulative map is a prefix sum over sorted bounds. Guards are recognised through the CFG edges they label (split or merged conditions, either operand order, range or index loop, element by index / pointer / value variable, single-assignment locals). Arithmetic on the values themselves is not decided."
	c.Assume = append(c.Assume, "bucket lists are the contiguous sorted ranges built by the code generator (checked in R3/R4)",
		"a local variable with exactly one definition keeps the value of its defining expression; a slice local defined from the datum's bucket list shares its elements")
	f := c.MustFn("C21-R1", bucketsObserve)
	if f == nil {
		return
	}
	c21Observe(c, f)
	c21Codegen(c)
	c21Own(c)
	c21Export(c)
}

func c21Observe(c *core.Check, f *core.Func) {
	g := f.Graph()
	info := f.Info()
	recv := hbRecv(f)
	var vObj types.Object
	if objs, _ := hbParamsWhere(f, func(t types.Type) bool { b, ok := t.(*types.Basic); return ok && b.Kind() == types.Float64 }); len(objs) == 1 {
		vObj = objs[0]
	}
	if recv == nil || vObj == nil {
		c.Undecided("C21-R1", bucketsObserve, pos(c, f.Decl), "receiver or the float64 value parameter of Observe not found")
		return
	}
	// the datum's own bucket list: recv.<field of type []BucketCount>, possibly through a single-definition alias
	isList := func(e ast.Expr) bool {
		fv, base := hbFieldOf(info, hbResolve(f, e))
		if fv == nil || identObj(info, base) != recv {
			return false
		}
		sl, ok := fv.Type().Underlying().(*types.Slice)
		return ok && c21Named(sl.Elem(), "internal/metrics/datum", "BucketCount")
	}
	incs := c21BucketIncs(f)
	if len(incs) == 0 {
		// the bucket update may have been extracted into a helper method of the datum: that is a shape these
		// rules do not follow — undecided, not a violation
		moved := ""
		core.InspectNoLit(f.Body, func(n ast.Node) bool {
			if call, ok := n.(*ast.CallExpr); ok {
				if cf := f.CalleeFunc(call); cf != nil && cf.Pkg == f.Pkg && len(c21BucketIncs(cf)) > 0 {
					moved = cf.Key
				}
			}
			return true
		})
		if moved != "" {
			c.Undecided("C21-R1", bucketsObserve+"|helper", pos(c, f.Decl), "Observe no longer increments a bucket itself; the increment lives in "+moved+", which the selection and counting rules do not follow")
			c.Undecided("C21-R2", bucketsObserve+"|helper", pos(c, f.Decl), "count and sum are updated in "+moved+": not followed")
			return
		}
	}
	var incPts []core.Point
	for _, in := range incs {
		incPts = append(incPts, in.hit.P)
	}

	c.Rule("C21-R1", "ONE-BUCKET: (a) the number of bucket-count increments on any path through Observe is at most one; (b) each increment inside the scan over the datum's bucket list (range or index loop) increments the scanned element itself, is reachable within an iteration only over a branch edge implying `v <= element.Range.Max` (inclusive) or `the index is the last one`, and is followed by leaving the loop; an increment outside the scan is the last bucket after an unmatched scan or is guarded by a range test with `>` on Min and `<=` on Max; (c) a catch-all exists: in the last iteration an increment cannot be avoided, or an increment of the last bucket follows the loop when nothing matched")
	// "at most one" = no increment is reachable from an increment.  A boolean local that is
	// only ever set to true, and is set in the block of the first increment, excludes the
	// edges that imply it is false on the way to the second (`matched = true … if !matched`).
	setTrueFlags := func(b *cfg.Block) []types.Object {
		var out []types.Object
		for _, nd := range b.Nodes {
			as, ok := nd.(*ast.AssignStmt)
			if !ok || as.Tok != token.ASSIGN || len(as.Lhs) != 1 || len(as.Rhs) != 1 {
				continue
			}
			if v, isC := constBool(info, as.Rhs[0]); !isC || !v {
				continue
			}
			o := identObj(info, as.Lhs[0])
			if o == nil {
				continue
			}
			// every other assignment to the flag is its initialisation to false or another `= true`
			clean := true
			core.InspectNoLit(f.Body, func(x ast.Node) bool {
				switch s := x.(type) {
				case *ast.AssignStmt:
					for k, l := range s.Lhs {
						if identObj(info, l) != o {
							continue
						}
						if len(s.Rhs) != len(s.Lhs) {
							clean = false
							continue
						}
						v, isC := constBool(info, s.Rhs[k])
						if !isC || (s.Tok == token.ASSIGN && !v) || (s.Tok == token.DEFINE && v) {
							clean = false
						}
					}
				case *ast.UnaryExpr:
					if s.Op == token.AND && identObj(info, s.X) == o {
						clean = false
					}
				}
				return true
			})
			if clean {
				out = append(out, o)
			}
		}
		return out
	}
	reachesInc := func(from c21Inc, to []core.Point) ([]string, bool) {
		flags := setTrueFlags(from.hit.P.B)
		flagFalse := func(e ast.Expr) (bool, bool) {
			for _, o := range flags {
				if identObj(info, e) == o {
					return false, true
				}
			}
			return false, false
		}
		p := from.hit.P
		return hbUnguardedPath(g, &p, to, flagFalse)
	}
	var twiceTrail []string
	twice := false
	for _, a := range incs {
		if tr, found := reachesInc(a, incPts); found {
			twice, twiceTrail = true, tr
			break
		}
	}
	c.Verdict(!twice && len(incs) > 0, "C21-R1", bucketsObserve+"|a at most one", pos(c, f.Decl), "at most one bucket per observation", fmt.Sprintf("a path through Observe increments bucket counters more than once (or there is no increment at all: %d sites)", len(incs)), twiceTrail...)
	undecidedShape := false
	// scanCheck examines a point inside the scan loop: is it reachable within an iteration only
	// over an edge implying `v <= element.Range.Max` or `last index`, and is the loop left after it?
	scanCheck := func(loop *hbLoop, target core.Point) (cfgOK, unselected, strictSeen, again bool, trail []string) {
		head, body, _ := loopBlocks(g, loop.Stmt)
		if head == nil || body == nil {
			return false, false, false, false, nil
		}
		isMax := func(e ast.Expr) bool { // <element>.Range.Max
			fv, b1 := hbFieldOf(info, e)
			if fv == nil || fv.Name() != "Max" {
				return false
			}
			fr, b2 := hbFieldOf(info, b1)
			return fr != nil && fr.Name() == "Range" && loop.IsElem(f, b2)
		}
		selected := func(e ast.Expr) (bool, bool) {
			if hbIsLastIndexTest(f, e, loop.Key, isList) {
				return true, false
			}
			be, ok := core.Unparen(e).(*ast.BinaryExpr)
			if !ok {
				return false, false
			}
			vx, vy := identObj(info, be.X) == vObj, identObj(info, be.Y) == vObj
			switch {
			case (be.Op == token.LEQ && vx && isMax(be.Y)) || (be.Op == token.GEQ && vy && isMax(be.X)):
				return true, false
			case (be.Op == token.LSS && vx && isMax(be.Y)) || (be.Op == token.GTR && vy && isMax(be.X)):
				strictSeen = true
			}
			return false, false
		}
		edges := hbEdges(g, selected)
		tr, un := g.Search(core.Query{From: &core.Point{B: body, I: -1}, Goal: core.At(target),
			AvoidEdge: func(b *cfg.Block, si int) bool { return b.Succs[si] == head || hbAvoid(edges)(b, si) }})
		from := target
		_, ag := g.Search(core.Query{From: &from, Goal: func(p core.Point) bool { return p.B == head && p.I == 0 }})
		return true, un, strictSeen, ag, g.Trail(tr)
	}
	catchAll := false
	for i, inc := range incs {
		key := fmt.Sprintf("%s|b increment#%d", bucketsObserve, i+1)
		n := inc.hit.N
		loop := hbEnclosingLoop(f, n.Pos())
		if loop != nil && !isList(loop.Coll) {
			loop = nil
		}
		if inc.isCopy {
			c.Fail("C21-R1", key, pos(c, n), "the increment is applied to a by-value copy of the bucket ("+exprStr(inc.elem)+"), not to the datum's bucket: no bucket count ever changes")
			continue
		}
		if loop != nil {
			head, body, done := loopBlocks(g, loop.Stmt)
			cfgOK, unselected, strictSeen, again, tr := scanCheck(loop, inc.hit.P)
			if !cfgOK {
				c.Undecided("C21-R1", key, pos(c, n), "scan loop not found in the CFG")
				continue
			}
			isLast := func(e ast.Expr) bool { return hbIsLastIndexTest(f, e, loop.Key, isList) }
			sameIdx := loop.IsElem(f, inc.elem)
			switch {
			case unselected && strictSeen:
				c.Fail("C21-R1", key, pos(c, n), "the bucket is not selected by `value <= upper bound` (inclusive): the comparison with the upper bound is strict: a value equal to a boundary falls into the next bucket", tr...)
			case unselected:
				c.Fail("C21-R1", key, pos(c, n), "the bucket is not selected by `value <= upper bound` (inclusive): within an iteration the increment can be reached without `v <= element.Range.Max` (or `last index`) having held", tr...)
			case !sameIdx:
				c.Fail("C21-R1", key, pos(c, n), "the bucket incremented is not the one whose bound was tested")
			case again:
				c.Fail("C21-R1", key, pos(c, n), "the scan continues after a bucket was incremented: later buckets are incremented too")
			default:
				c.Ok("C21-R1", key, pos(c, n), "first-match scan, inclusive upper bound, leaves the loop")
			}
			// catch-all inside the loop: in the last iteration (edges implying "not last" are
			// infeasible) every way through the body passes an increment
			notLast := func(e ast.Expr) (bool, bool) {
				if isLast(e) {
					return false, true
				}
				return false, false
			}
			nl := hbEdges(g, notLast)
			goals := core.ExitPoints(normalExits(g))
			_, escapes := g.Search(core.Query{From: &core.Point{B: body, I: -1},
				Goal:      core.Or(core.At(goals...), func(p core.Point) bool { return (p.B == head || (done != nil && p.B == done)) && p.I == 0 }),
				Avoid:     core.At(incPts...),
				AvoidEdge: hbAvoid(nl)})
			if !escapes && len(nl) > 0 {
				catchAll = true
			}
			continue
		}
		// outside the scan loop
		if inc.idx != nil && inc.list != nil && isList(inc.list) && hbIsLenMinus1(f, inc.idx, isList) {
			// fallback on the last bucket: must be unreachable when the scan matched
			catchAll = true
			bad := false
			for j, other := range incs {
				if j == i {
					continue
				}
				if _, found := reachesInc(other, []core.Point{inc.hit.P}); found {
					bad = true
				}
			}
			c.Verdict(!bad, "C21-R1", key, pos(c, n), "catch-all on the last bucket", "the catch-all increment can run after a bucket was already incremented")
			continue
		}
		if ok, why, decided := c21IndexVariable(c, f, g, inc, isList, scanCheck); decided {
			if ok {
				catchAll = true
				c.Ok("C21-R1", key, pos(c, n), "index computed by the first-match scan with the last bucket as default, then one increment")
			} else {
				c.Fail("C21-R1", key, pos(c, n), why)
			}
			continue
		}
		var guard *ast.IfStmt
		for _, ic := range f.EnclosingIfs(n.Pos()) {
			if ic.InThen {
				guard = ic.If // innermost wins
			}
		}
		if guard != nil {
			switch rangeGuard(f, guard.Cond, vObj) {
			case "ok":
				c.Ok("C21-R1", key, pos(c, n), "selected by (Min, Max] membership")
			case "closed-lower":
				c.Fail("C21-R1", key, pos(c, n), "the bucket is selected by a range test that includes the lower edge: a value equal to a boundary is counted in the bucket above it, not in the first bucket whose upper bound is at least the value")
			default:
				undecidedShape = true
				c.Undecided("C21-R1", key, pos(c, n), "bucket increment outside the first-match scan with an unrecognised guard: "+exprStr(guard.Cond))
			}
			continue
		}
		undecidedShape = true
		c.Undecided("C21-R1", key, pos(c, n), "unconditional bucket increment outside the first-match scan")
	}
	if !catchAll && undecidedShape {
		c.Undecided("C21-R1", bucketsObserve+"|c catch-all", pos(c, f.Decl), "a bucket increment has a shape outside the recognised family (see above); whether it catches values matched by no bound is not decided")
	} else {
		c.Verdict(catchAll, "C21-R1", bucketsObserve+"|c catch-all", pos(c, f.Decl), "values matched by no bound go to the last bucket", "an observation that satisfies no `value <= bound` test (NaN: every comparison is false) increments no bucket while count and sum advance: bucket counts no longer sum to the count")
	}
	c.Floor("C21-R1", 3)

	c.Rule("C21-R2", "COUNT-SUM: the datum's Count is incremented by one and its Sum is increased by the observed value exactly once on every path through Observe, with the datum's write lock held")
	hold := g.MustHold()
	onRecv := func(e ast.Expr, field string) bool {
		fv, base := hbFieldOf(info, e)
		return fv != nil && fv.Name() == field && identObj(info, base) == recv
	}
	for _, ev := range []string{"Count", "Sum"} {
		hits := g.Find(func(n ast.Node) bool {
			if ev == "Count" {
				t := c21IncTarget(info, n)
				return t != nil && onRecv(t, "Count")
			}
			t, add := c21AddTarget(info, n)
			return t != nil && onRecv(t, "Sum") && identObj(info, add) == vObj
		})
		cc := g.Count(nil, core.HitPoints(hits), nil)
		okAll := len(hits) > 0
		var got core.Cnt
		for _, e := range normalExits(g) {
			n, _ := cc.At(e.P)
			got = n
			if n.Min != 1 || n.Max != 1 {
				okAll = false
			}
		}
		for _, h := range hits {
			if !core.Holds(hold.At(h.P), recv.Name(), "W") {
				okAll = false
			}
		}
		c.Verdict(okAll, "C21-R2", bucketsObserve+"|"+ev, pos(c, f.Decl), "exactly once, under the lock", fmt.Sprintf("%s is updated %s times on some path through Observe, or not with the observed value / not under the datum's lock", ev, got.String()))
	}
	c.Floor("C21-R2", 2)
}

func c21Codegen(c *core.Check) {
	c.Rule("C21-R3", "BOUNDS: in the histogram clause of the code generator, on every non-error path the first declared boundary is stored as an upper bound, each later boundary is stored exactly once per loop iteration as Range{previous, this} with previous updated, and exactly one Range{last, +Inf} follows the loop")
	c.Rule("C21-R4", "SORTED: in the boundary loop the append of Range{previous, boundary} is reachable within an iteration only over a branch edge implying `boundary > previous` (strict)")
	defer func() {
		c.Floor("C21-R3", 5)
		c.Floor("C21-R4", 1)
	}()
	cg := c.MustFn("C21-R3", codegenBefore)
	if cg == nil {
		return
	}
	cgG := cg.Graph()
	info := cg.Info()
	isHistConst := func(e ast.Expr) bool {
		k, ok := usedObj(info, e).(*types.Const)
		return ok && k.Name() == "Histogram" && k.Pkg() != nil && core.Rel(k.Pkg().Path()) == "internal/metrics"
	}
	isKind := func(e ast.Expr) bool {
		fv, _ := hbFieldOf(info, e)
		return fv != nil && fv.Name() == "Kind"
	}
	histIfs := ifsWhere(cg, func(is *ast.IfStmt) bool {
		be, ok := core.Unparen(is.Cond).(*ast.BinaryExpr)
		return ok && be.Op == token.EQL && ((isKind(be.X) && isHistConst(be.Y)) || (isKind(be.Y) && isHistConst(be.X)))
	})
	// the clause is `if <decl>.Kind == metrics.Histogram { … }` or `case metrics.Histogram:` of a switch on <decl>.Kind
	type region struct {
		node  ast.Node // lexical extent of the clause
		where ast.Node // for positions
		start *core.Point
	}
	var regions []region
	for _, is := range histIfs {
		if st, ok := branchStart(cgG, is, true); ok {
			regions = append(regions, region{is.Body, is, st})
		}
	}
	core.InspectNoLit(cg.Body, func(n ast.Node) bool {
		sw, ok := n.(*ast.SwitchStmt)
		if !ok || sw.Tag == nil || !isKind(sw.Tag) {
			return true
		}
		for _, cl := range sw.Body.List {
			cc := cl.(*ast.CaseClause)
			for _, e := range cc.List {
				if !isHistConst(e) {
					continue
				}
				for _, b := range cgG.C.Blocks {
					if b.Live && b.Kind == cfg.KindSwitchCaseBody && b.Stmt == ast.Stmt(cc) {
						regions = append(regions, region{cc, cc, &core.Point{B: b, I: -1}})
					}
				}
			}
		}
		return true
	})
	if len(regions) != 1 {
		c.Undecided("C21-R3", codegenBefore+"|histogram clause", pos(c, cg.Decl), fmt.Sprintf("expected one `if <decl>.Kind == metrics.Histogram` (or `case metrics.Histogram`), found %d", len(regions)))
		return
	}
	hi := regions[0]
	within := func(n, outer ast.Node) bool { return outer.Pos() <= n.Pos() && n.End() <= outer.End() }
	// the declared boundaries: a field of type []float64 named Buckets
	isDecl := func(e ast.Expr) bool {
		fv, _ := hbFieldOf(info, hbResolve(cg, e))
		if fv == nil || fv.Name() != "Buckets" {
			return false
		}
		sl, ok := fv.Type().Underlying().(*types.Slice)
		if !ok {
			return false
		}
		b, ok := sl.Elem().(*types.Basic)
		return ok && b.Kind() == types.Float64
	}
	isDeclAt := func(e ast.Expr, k int64) bool {
		ix, ok := hbResolve(cg, e).(*ast.IndexExpr)
		if !ok || !isDecl(ix.X) {
			return false
		}
		v, isC := constInt(info, ix.Index)
		return isC && v == k
	}
	isInf := func(e ast.Expr) bool {
		call, ok := hbResolve(cg, e).(*ast.CallExpr)
		if !ok || cg.CalleeID(call) != "math.Inf" || len(call.Args) != 1 {
			return false
		}
		v, isC := constInt(info, call.Args[0])
		return isC && v > 0
	}
	type app struct {
		h      core.Hit
		lo, hi ast.Expr
	}
	var apps []app
	for _, h := range inside(cgG.Find(func(n ast.Node) bool {
		as, ok := n.(*ast.AssignStmt)
		if !ok || len(as.Lhs) != 1 || len(as.Rhs) != 1 {
			return false
		}
		fv, _ := hbFieldOf(info, as.Lhs[0])
		if fv == nil {
			return false
		}
		sl, ok := fv.Type().Underlying().(*types.Slice)
		if !ok || !c21Named(sl.Elem(), "internal/metrics/datum", "Range") {
			return false
		}
		call, ok := core.Unparen(as.Rhs[0]).(*ast.CallExpr)
		return ok && cg.CalleeID(call) == "builtin.append" && len(call.Args) == 2 && hbSameExpr(info, call.Args[0], as.Lhs[0])
	}), hi.node) {
		call := core.Unparen(h.N.(*ast.AssignStmt).Rhs[0]).(*ast.CallExpr)
		lit, ok := hbResolve(cg, call.Args[1]).(*ast.CompositeLit)
		if !ok || len(lit.Elts) != 2 {
			continue
		}
		var lo, hiE ast.Expr
		for k, el := range lit.Elts {
			if kv, ok := el.(*ast.KeyValueExpr); ok {
				switch exprStr(kv.Key) { // field names of datum.Range
				case "Min":
					lo = kv.Value
				case "Max":
					hiE = kv.Value
				}
			} else if k == 0 {
				lo = el
			} else {
				hiE = el
			}
		}
		if lo == nil || hiE == nil {
			continue
		}
		apps = append(apps, app{h, lo, hiE})
	}
	var loop *ast.RangeStmt
	for _, rs := range rangeStmts(cg) {
		if !within(rs, hi.node) {
			continue
		}
		if se, ok := hbResolve(cg, rs.X).(*ast.SliceExpr); ok && isDecl(se.X) {
			loop = rs
		}
	}
	if loop == nil {
		c.Undecided("C21-R3", codegenBefore+"|boundary loop", pos(c, hi.where), "range loop over <decl>.Buckets[1:] not found")
		return
	}
	se := hbResolve(cg, loop.X).(*ast.SliceExpr)
	lowOne := false
	if se.Low != nil {
		v, isC := constInt(info, se.Low)
		lowOne = isC && v == 1
	}
	c.Verdict(lowOne && se.High == nil && se.Max == nil, "C21-R3", codegenBefore+"|loop range", pos(c, loop), "loop covers every boundary after the first", "the boundary loop does not range over <decl>.Buckets[1:]: declared boundaries are skipped or repeated")
	maxObj := identObj(info, loop.Value)
	var first, inLoop, inf []app
	for _, a := range apps {
		switch {
		case within(a.h.N, loop):
			inLoop = append(inLoop, a)
		case isInf(a.hi):
			inf = append(inf, a)
		default:
			first = append(first, a)
		}
	}
	// first boundary exported on every path reaching the loop
	var firstPts []core.Point
	for _, a := range first {
		if isDeclAt(a.hi, 0) {
			firstPts = append(firstPts, a.h.P)
		}
	}
	head, body, done := loopBlocks(cgG, loop)
	if start := hi.start; head != nil {
		tr, found := cgG.Search(core.Query{From: start, Goal: func(p core.Point) bool { return p.B == head }, Avoid: core.At(firstPts...)})
		c.Verdict(!found, "C21-R3", codegenBefore+"|first boundary exported", pos(c, hi.where), "the first declared boundary always becomes an upper bound",
			"the first declared boundary becomes an exported upper bound only on some paths (when it is > 0): with `buckets 0, 1, 2` or a negative first boundary the bound is not exported and values at or below it are counted under the next one", cgG.Trail(tr)...)
	}
	if len(inLoop) != 1 || maxObj == nil {
		c.Fail("C21-R3", codegenBefore+"|loop append", pos(c, loop), fmt.Sprintf("expected one append of a Range in the boundary loop (with a value variable), found %d", len(inLoop)))
	} else {
		a := inLoop[0]
		minObj := identObj(info, a.lo)
		okPair := identObj(info, a.hi) == maxObj && minObj != nil
		upd := cgG.Find(func(n ast.Node) bool {
			as, ok := n.(*ast.AssignStmt)
			return ok && len(as.Lhs) == 1 && len(as.Rhs) == 1 && minObj != nil && identObj(info, as.Lhs[0]) == minObj && as.Tok == token.ASSIGN && identObj(info, as.Rhs[0]) == maxObj && within(as, loop)
		})
		from := a.h.P
		_, skipUpd := cgG.Search(core.Query{From: &from, Goal: func(p core.Point) bool { return p.B == head && p.I == 0 }, Avoid: core.At(core.HitPoints(upd)...)})
		cnt, okc := iterationCount(cgG, loop, []core.Point{a.h.P})
		c.Verdict(okPair && !skipUpd && okc && cnt.Min == 1 && cnt.Max == 1, "C21-R3", codegenBefore+"|loop append", pos(c, a.h.N), "Range{previous, boundary} once per boundary, previous advanced",
			fmt.Sprintf("the loop does not store Range{previous, boundary} exactly once per declared boundary and advance `previous` (pair ok=%v, previous advanced=%v, appends per iteration=%s)", okPair, !skipUpd, cnt.String()))
		// the initial value of previous is the first boundary
		okInit := false
		core.InspectNoLit(hi.node, func(n ast.Node) bool {
			switch s := n.(type) {
			case *ast.AssignStmt:
				if s.Tok == token.DEFINE && len(s.Lhs) == len(s.Rhs) {
					for k, l := range s.Lhs {
						if minObj != nil && identObj(info, l) == minObj {
							okInit = isDeclAt(s.Rhs[k], 0)
						}
					}
				}
			case *ast.ValueSpec:
				for k, name := range s.Names {
					if minObj != nil && info.Defs[name] == minObj && len(s.Values) == len(s.Names) {
						okInit = isDeclAt(s.Values[k], 0)
					}
				}
			}
			return true
		})
		c.Verdict(okInit, "C21-R3", codegenBefore+"|previous starts at first boundary", pos(c, loop), "previous = first declared boundary", "the lower edge of the second bucket does not start at the first declared boundary")
		// R4: append only where boundary > previous
		cmpSeen := false
		sorted := func(e ast.Expr) (bool, bool) {
			be, ok := core.Unparen(e).(*ast.BinaryExpr)
			if !ok || minObj == nil {
				return false, false
			}
			x, y := identObj(info, be.X), identObj(info, be.Y)
			op := be.Op
			switch {
			case x == maxObj && y == minObj:
			case x == minObj && y == maxObj:
				op = map[token.Token]token.Token{token.LSS: token.GTR, token.GTR: token.LSS, token.LEQ: token.GEQ, token.GEQ: token.LEQ}[op]
			default:
				return false, false
			}
			// normalised: boundary op previous
			switch op {
			case token.GTR:
				cmpSeen = true
				return true, false
			case token.LEQ:
				cmpSeen = true
				return false, true
			case token.GEQ, token.LSS:
				cmpSeen = true
			}
			return false, false
		}
		if body == nil || head == nil {
			c.Undecided("C21-R4", codegenBefore+"|sortedness test", pos(c, loop), "boundary loop not found in the CFG")
		} else {
			edges := hbEdges(cgG, sorted)
			tr, unsorted := cgG.Search(core.Query{From: &core.Point{B: body, I: -1}, Goal: core.At(a.h.P),
				AvoidEdge: func(b *cfg.Block, si int) bool { return b.Succs[si] == head || hbAvoid(edges)(b, si) }})
			switch {
			case !cmpSeen:
				c.Fail("C21-R4", codegenBefore+"|sortedness test", pos(c, loop), "no `boundary <= previous` rejection in the boundary loop (weakened to `<` admits duplicate boundaries; removed admits unsorted lists): buckets overlap or are empty and first-match counting is wrong")
			case unsorted:
				c.Fail("C21-R4", codegenBefore+"|sortedness test", pos(c, a.h.N), "an unsorted or duplicate boundary can still be stored: the append is reachable without `boundary > previous` (strict) having held", cgG.Trail(tr)...)
			default:
				c.Ok("C21-R4", codegenBefore+"|sortedness test", pos(c, a.h.N), "rejection dominates the append and does not fall through")
			}
		}
		// +Inf exactly once after the loop, from previous
		okInf := len(inf) == 1 && inf[0].h.N.Pos() > loop.End()
		if okInf {
			ia := inf[0]
			okInf = minObj != nil && identObj(info, ia.lo) == minObj
			if done != nil {
				cc := cgG.Count(&core.Point{B: done, I: -1}, []core.Point{ia.h.P}, nil)
				for _, e := range successExits(cgG, cg) {
					if n, ok := cc.At(e.P); ok && (n.Min != 1 || n.Max != 1) {
						if !afterErrorf(cg, e) {
							okInf = false
						}
					}
				}
			}
		}
		c.Verdict(okInf, "C21-R3", codegenBefore+"|+Inf bucket", pos(c, hi.where), "exactly one Range{last, +Inf} after the loop", "the +Inf bucket is not appended exactly once after the declared boundaries (or its lower edge is not the last declared boundary)")
	}
}

func c21Own(c *core.Check) {
	c.Rule("C21-R5", "OWN-COUNTERS: every assignment to the Buckets field of a datum.Buckets is `x.Buckets = append(x.Buckets, …)` on the same x (or a fresh make/literal): bucket counters are never a slice derived from another datum or a shared layout")
	n5 := 0
	for _, sf := range shipped(c) {
		info := sf.Info()
		core.InspectNoLit(sf.Body, func(n ast.Node) bool {
			as, ok := n.(*ast.AssignStmt)
			if !ok {
				return true
			}
			for i, l := range as.Lhs {
				sel, ok := core.Unparen(l).(*ast.SelectorExpr)
				if !ok || sel.Sel.Name != "Buckets" {
					continue
				}
				s := info.Selections[sel]
				if s == nil || s.Kind() != types.FieldVal || !c21Named(s.Recv(), "internal/metrics/datum", "Buckets") {
					continue
				}
				n5++
				c.Analysed(sf)
				if len(as.Rhs) != len(as.Lhs) {
					c.Undecided("C21-R5", sf.Key+"|assign Buckets", pos(c, as), "multi-value assignment")
					continue
				}
				rhs := core.Unparen(as.Rhs[i])
				okOwn := false
				if call, ok := rhs.(*ast.CallExpr); ok {
					switch sf.CalleeID(call) {
					case "builtin.append":
						okOwn = len(call.Args) > 0 && hbSameExpr(info, call.Args[0], l) && !call.Ellipsis.IsValid()
					case "builtin.make":
						okOwn = true
					}
				}
				if _, ok := rhs.(*ast.CompositeLit); ok {
					okOwn = true
				}
				c.Verdict(okOwn, "C21-R5", sf.Key+"|assign "+core.PathOf(l), pos(c, as), "own storage", "a histogram datum's bucket counters are set from a slice that may share its backing array with another datum or a cached layout ("+exprStr(as.Rhs[i])+"): an observation under one label set changes the counts of the others")
			}
			return true
		})
		// composite literals of datum.Buckets with a Buckets field
		core.InspectNoLit(sf.Body, func(n ast.Node) bool {
			lit, ok := n.(*ast.CompositeLit)
			if !ok {
				return true
			}
			if t := info.TypeOf(lit); t == nil || !c21Named(t, "internal/metrics/datum", "Buckets") {
				return true
			}
			for _, el := range lit.Elts {
				if kv, ok := el.(*ast.KeyValueExpr); ok && exprStr(kv.Key) == "Buckets" {
					n5++
					_, isLit := core.Unparen(kv.Value).(*ast.CompositeLit)
					call, isCall := core.Unparen(kv.Value).(*ast.CallExpr)
					okOwn := isLit || (isCall && sf.CalleeID(call) == "builtin.make")
					c.Verdict(okOwn, "C21-R5", sf.Key+"|literal Buckets", pos(c, lit), "own storage", "a histogram datum is built around an existing slice of bucket counters: label sets share counters")
				}
			}
			return true
		})
	}
	c.Floor("C21-R5", 1)
}

func c21Export(c *core.Check) {
	c.Rule("C21-R6", "EXPORT: NewConstHistogram receives GetBucketsCount, GetBucketsSum and GetBucketsCumByMax (directly or through single-definition locals) of one and the same datum expression; GetBucketsCumByMax sorts the upper bounds before accumulating and stores the running total for every bound")
	for _, sf := range shipped(c) {
		info := sf.Info()
		for _, h := range sf.Graph().Calls(func(id string, _ *ast.CallExpr) bool {
			return strings.HasSuffix(id, "prometheus.NewConstHistogram") || strings.HasSuffix(id, "prometheus.MustNewConstHistogram")
		}) {
			c.Analysed(sf)
			call := h.N.(*ast.CallExpr)
			want := []string{"internal/metrics/datum.GetBucketsCount", "internal/metrics/datum.GetBucketsSum", "internal/metrics/datum.GetBucketsCumByMax"}
			okArgs := len(call.Args) >= 4
			var src ast.Expr
			for i := 0; okArgs && i < 3; i++ {
				ac, isC := hbResolve(sf, call.Args[i+1]).(*ast.CallExpr)
				if !isC || sf.CalleeID(ac) != want[i] || len(ac.Args) != 1 {
					okArgs = false
					break
				}
				a := hbResolve(sf, ac.Args[0])
				if i == 0 {
					src = a
				} else if !hbSameExpr(info, a, src) {
					okArgs = false
				}
			}
			srcTxt := exprStr(src)
			if okArgs {
				fv, _ := hbFieldOf(info, src)
				okArgs = fv != nil && fv.Name() == "Datum" && !hbHasCall(src)
			}
			c.Verdict(okArgs, "C21-R6", sf.Key+"|NewConstHistogram", pos(c, call), "count, sum, buckets of "+srcTxt, "the histogram sample is not built from count, sum and cumulative buckets of one and the same label set's datum")
		}
	}
	if cf := c.MustFn("C21-R6", "internal/metrics/datum.GetBucketsCumByMax"); cf != nil {
		cg := cf.Graph()
		info := cf.Info()
		sorts := cg.Calls(func(id string, _ *ast.CallExpr) bool { return id == "sort.Float64s" || id == "slices.Sort" })
		// running total: `cum += e` / `cum = cum + e` on a local
		accs := cg.Find(func(n ast.Node) bool {
			t, _ := c21AddTarget(info, n)
			return t != nil && identObj(info, t) != nil
		})
		stores := cg.Find(func(n ast.Node) bool {
			as, ok := n.(*ast.AssignStmt)
			if !ok || as.Tok != token.ASSIGN || len(as.Lhs) != 1 || len(as.Rhs) != 1 {
				return false
			}
			_, isIdx := core.Unparen(as.Lhs[0]).(*ast.IndexExpr)
			return isIdx
		})
		okShape := len(sorts) == 1 && len(accs) >= 1 && len(stores) >= 2
		if okShape {
			// the accumulation comes after the sort on every path
			acc := accs[len(accs)-1]
			if _, found := pathAvoiding(cg, nil, []core.Point{acc.P}, core.HitPoints(sorts)); found {
				okShape = false
			}
			// running total stored in the same iteration
			t, _ := c21AddTarget(info, acc.N)
			cum := identObj(info, t)
			stored := false
			for _, s := range stores {
				sa := s.N.(*ast.AssignStmt)
				if identObj(info, sa.Rhs[0]) == cum && cum != nil && sa.Pos() > acc.N.Pos() {
					stored = true
				}
			}
			okShape = okShape && stored
		}
		c.Verdict(okShape, "C21-R6", "internal/metrics/datum.GetBucketsCumByMax|prefix sum", pos(c, cf.Decl), "sort, then running total stored per bound", "GetBucketsCumByMax is not a prefix sum over the sorted upper bounds: exported bucket counts are not cumulative/non-decreasing or +Inf differs from the count")
	}
	c.Floor("C21-R6", 2)
}

// rangeGuard classifies a guard on a bucket outside the scan: "ok" for
// Min < v && v <= Max (or Range.Contains(v)), "closed-lower" for v >= Min…, "" otherwise.
func rangeGuard(f *core.Func, cond ast.Expr, v types.Object) string {
	info := f.Info()
	res := ""
	lowerOK, lowerClosed, upperOK := false, false, false
	isField := func(e ast.Expr, name string) bool {
		fv, _ := hbFieldOf(info, e)
		return fv != nil && fv.Name() == name
	}
	for _, cj := range chain(cond, token.LAND) {
		cj = core.Unparen(cj)
		if call, ok := cj.(*ast.CallExpr); ok && strings.HasSuffix(f.CalleeID(call), "datum.(*Range).Contains") && len(call.Args) == 1 && identObj(info, call.Args[0]) == v {
			lowerOK, upperOK = true, true
			continue
		}
		be, ok := cj.(*ast.BinaryExpr)
		if !ok {
			continue
		}
		vx, vy := identObj(info, be.X) == v, identObj(info, be.Y) == v
		switch {
		case (vx && be.Op == token.GTR && isField(be.Y, "Min")) || (vy && be.Op == token.LSS && isField(be.X, "Min")):
			lowerOK = true
		case (vx && be.Op == token.GEQ && isField(be.Y, "Min")) || (vy && be.Op == token.LEQ && isField(be.X, "Min")):
			lowerClosed = true
		case (vx && be.Op == token.LEQ && isField(be.Y, "Max")) || (vy && be.Op == token.GEQ && isField(be.X, "Max")):
			upperOK = true
		}
	}
	switch {
	case lowerClosed:
		res = "closed-lower"
	case lowerOK && upperOK:
		res = "ok"
	}
	return res
}

// afterErrorf reports whether the return exit directly follows a c.errorf call in its block.
func afterErrorf(f *core.Func, e core.Exit) bool {
	if e.Kind != "return" {
		return false
	}
	for i := e.P.I - 1; i >= 0; i-- {
		found := false
		ast.Inspect(e.P.B.Nodes[i], func(n ast.Node) bool {
			if call, ok := n.(*ast.CallExpr); ok && strings.HasSuffix(f.CalleeID(call), ".errorf") {
				found = true
			}
			return true
		})
		if found {
			return true
		}
	}
	return false
}

// c21IndexVariable recognises the shape in which the scan only computes the
// index: `x := len(L)-1; for i … { if v <= L[i].Range.Max { x = i; break } }; L[x].Count++`
// (the increment possibly under a guard that holds for every x >= 0 / non-empty L).
// decided is false when the increment does not have this shape.
func c21IndexVariable(c *core.Check, f *core.Func, g *core.Graph, inc c21Inc, isList func(ast.Expr) bool,
	scanCheck func(*hbLoop, core.Point) (bool, bool, bool, bool, []string)) (ok bool, why string, decided bool) {
	info := f.Info()
	if inc.idx == nil || inc.list == nil || !isList(inc.list) {
		return false, "", false
	}
	x, isVar := identObj(info, inc.idx).(*types.Var)
	if !isVar || x == nil {
		return false, "", false
	}
	var defaults, inScan []core.Point
	shape := true
	for _, h := range g.Find(func(n ast.Node) bool {
		switch s := n.(type) {
		case *ast.AssignStmt:
			for _, l := range s.Lhs {
				if identObj(info, l) == types.Object(x) {
					return true
				}
			}
		case *ast.IncDecStmt:
			return identObj(info, s.X) == types.Object(x)
		}
		return false
	}) {
		as, isAs := h.N.(*ast.AssignStmt)
		if !isAs || len(as.Lhs) != len(as.Rhs) || (as.Tok != token.ASSIGN && as.Tok != token.DEFINE) {
			shape = false
			continue
		}
		for k, l := range as.Lhs {
			if identObj(info, l) != types.Object(x) {
				continue
			}
			r := as.Rhs[k]
			if hbIsLenMinus1(f, r, isList) {
				defaults = append(defaults, h.P)
				continue
			}
			loop := hbEnclosingLoop(f, as.Pos())
			if loop != nil && isList(loop.Coll) && identObj(info, r) == loop.Key {
				cfgOK, unselected, strict, again, _ := scanCheck(loop, h.P)
				switch {
				case !cfgOK:
					shape = false
				case unselected && strict:
					return false, "the bucket is not selected by `value <= upper bound` (inclusive): the comparison with the upper bound is strict: a value equal to a boundary falls into the next bucket", true
				case unselected:
					return false, "the bucket is not selected by `value <= upper bound` (inclusive): the index can be taken from an element without `v <= element.Range.Max` having held", true
				case again:
					return false, "the scan continues after the index was chosen: the last matching bucket is incremented, not the first", true
				}
				inScan = append(inScan, h.P)
				continue
			}
			if cv, isC := constInt(info, r); isC && len(as.Lhs) == 1 {
				return false, fmt.Sprintf("the index of the bucket to increment defaults to the constant %d, not to the last bucket: a value matched by no bound (above all bounds, NaN) is counted in the wrong bucket", cv), true
			}
			shape = false
		}
	}
	if !shape || len(defaults) == 0 || len(inScan) == 0 {
		return false, "", false
	}
	// the default is assigned on every path to the increment, before any scan assignment
	if _, found := pathAvoiding(g, nil, append([]core.Point{inc.hit.P}, inScan...), defaults); found {
		return false, "", false
	}
	// a branch on which reaching the increment depends must exclude no valid index: the edge
	// that does not lead to the increment may only be taken when x < 0 / when L is empty
	infeasible := func(e ast.Expr) (bool, bool) {
		sample := func(cmp func(int64) bool, vals []int64) (bool, bool) {
			all, none := true, true
			for _, v := range vals {
				if cmp(v) {
					none = false
				} else {
					all = false
				}
			}
			return none, all // (true edge impossible, false edge impossible) for valid values
		}
		if op, cv, ok := hbCmpConst(info, e, x); ok {
			return sample(func(v int64) bool { return hbEvalCmp(v, op, cv) }, []int64{0, 1, 2, 3, 1 << 40})
		}
		if be, ok := core.Unparen(e).(*ast.BinaryExpr); ok { // len(L) op const
			flip := map[token.Token]token.Token{token.LSS: token.GTR, token.GTR: token.LSS, token.LEQ: token.GEQ, token.GEQ: token.LEQ, token.EQL: token.EQL, token.NEQ: token.NEQ}
			if _, cmp := flip[be.Op]; cmp {
				if cv, isC := constInt(info, be.Y); isC && hbIsLenOf(f, be.X, isList) {
					return sample(func(v int64) bool { return hbEvalCmp(v, be.Op, cv) }, []int64{1, 2, 3, 1 << 40})
				}
				if cv, isC := constInt(info, be.X); isC && hbIsLenOf(f, be.Y, isList) {
					return sample(func(v int64) bool { return hbEvalCmp(v, flip[be.Op], cv) }, []int64{1, 2, 3, 1 << 40})
				}
			}
		}
		return false, false
	}
	lastScan := token.NoPos
	for _, p := range inScan {
		if lp := hbEnclosingLoop(f, p.Node().Pos()); lp != nil && lp.Stmt.End() > lastScan {
			lastScan = lp.Stmt.End()
		}
	}
	for _, s := range hbSites(g) {
		if s.Cond.Pos() < lastScan || s.Cond.Pos() > inc.hit.N.Pos() {
			continue
		}
		_, r0 := g.Search(core.Query{From: &core.Point{B: s.B.Succs[0], I: -1}, Goal: core.At(inc.hit.P)})
		_, r1 := g.Search(core.Query{From: &core.Point{B: s.B.Succs[1], I: -1}, Goal: core.At(inc.hit.P)})
		if r0 == r1 {
			continue
		}
		t, fl := hbImplies(f, s.Cond, infeasible)
		if (r0 && !fl) || (r1 && !t) {
			return false, "", false // a guard that can reject a valid index: not this shape
		}
	}
	return true, "", true
}
