package props

import (
	"fmt"
	"go/ast"
	"go/token"
	"go/types"
	"strings"

	"verif/sa/core"
)

func init() { register("C21", c21) }

const (
	bucketsObserve = "internal/metrics/datum.(*Buckets).Observe"
	codegenBefore  = "internal/runtime/compiler/codegen.(*codegen).VisitBefore"
)

// bucketIncs finds statements incrementing X.Buckets[i].Count in g.
func bucketIncs(g *core.Graph) []core.Hit {
	return g.Find(func(n ast.Node) bool {
		var target ast.Expr
		switch s := n.(type) {
		case *ast.IncDecStmt:
			if s.Tok == token.INC {
				target = s.X
			}
		case *ast.AssignStmt:
			if s.Tok == token.ADD_ASSIGN && len(s.Lhs) == 1 {
				target = s.Lhs[0]
			}
		}
		if target == nil {
			return false
		}
		sel, ok := core.Unparen(target).(*ast.SelectorExpr)
		if !ok || sel.Sel.Name != "Count" {
			return false
		}
		_, isIdx := core.Unparen(sel.X).(*ast.IndexExpr)
		return isIdx
	})
}

func c21(c *core.Check) {
	c.Explain = "Decides structural necessary conditions of C21: (R1) in Buckets.Observe no path increments more than one bucket, every increment is selected by the ordered first-match scan `v <= upper bound` (inclusive) over the datum's own bucket list or by a range test with exclusive lower and inclusive upper edge, and a catch-all sends a value matched by no bound (above all bounds, NaN) to the last bucket; (R2) count and sum are updated exactly once on every path, under the datum's lock; (R3) in the code generator every declared boundary becomes an exported upper bound exactly once, followed by one +Inf bucket; (R4) the sortedness test dominates every boundary it admits; (R5) every histogram datum owns its bucket counters (no slice sharing between label sets); (R6) the Prometheus histogram sample takes count, sum and cumulative buckets from the same datum, and the cumulative map is a prefix sum over sorted bounds. Arithmetic on the values themselves is not decided."
	c.Assume = append(c.Assume, "bucket lists are the contiguous sorted ranges built by the code generator (checked in R3/R4)")
	f := c.MustFn("C21-R1", bucketsObserve)
	if f == nil {
		return
	}
	g := f.Graph()
	recv := recvIdent(f)
	vObj := paramObj(f, f.Type.Params.List[0].Names[0].Name)
	incs := bucketIncs(g)

	c.Rule("C21-R1", "ONE-BUCKET: (a) the number of bucket-count increments on any path through Observe is at most one; (b) each increment is either inside `for i := range d.Buckets` guarded by `v <= d.Buckets[i].Range.Max` (or the range value's), followed by leaving the loop, or guarded by a range test with `>` on Min and `<=` on Max; (c) a catch-all exists: the scan's guard has the disjunct `i == len(d.Buckets)-1`, or an increment of the last bucket follows the loop when nothing matched")
	ctr := g.Count(nil, core.HitPoints(incs), nil)
	worst := core.Cnt{}
	for _, e := range normalExits(g) {
		if n, ok := ctr.At(e.P); ok && n.Max > worst.Max {
			worst = n
		}
	}
	c.Verdict(worst.Max <= 1 && len(incs) > 0, "C21-R1", bucketsObserve+"|a at most one", pos(c, f.Decl), "at most one bucket per observation", fmt.Sprintf("a path through Observe increments bucket counters %s times (or there is no increment at all: %d sites)", worst.String(), len(incs)))
	catchAll := false
	for i, inc := range incs {
		key := fmt.Sprintf("%s|b increment#%d", bucketsObserve, i+1)
		// enclosing range loop over recv.Buckets?
		var loop *ast.RangeStmt
		for _, rs := range rangeStmts(f) {
			if rs.Pos() <= inc.N.Pos() && inc.N.End() <= rs.End() && core.PathOf(rs.X) == recv+".Buckets" {
				loop = rs
			}
		}
		var guard *ast.IfStmt
		for _, ic := range f.EnclosingIfs(inc.N.Pos()) {
			if ic.InThen && (loop == nil || ic.If.Pos() > loop.Pos()) {
				guard = ic.If // innermost wins
			}
		}
		idx := incIndex(inc.N)
		if loop != nil {
			if guard == nil {
				c.Fail("C21-R1", key, pos(c, inc.N), "a bucket is incremented for every element scanned, not for the first bound that is at least the value")
				continue
			}
			okSel, why, hasLast := firstMatchGuard(f, guard.Cond, vObj, loop, recv)
			if hasLast {
				catchAll = true
			}
			sameIdx := idx != nil && identObj(f.Info(), idx) != nil && identObj(f.Info(), idx) == identObj(f.Info(), loop.Key)
			// must leave the loop after the increment
			head, _, _ := loopBlocks(g, loop)
			from := inc.P
			_, again := g.Search(core.Query{From: &from, Goal: func(p core.Point) bool { return p.B == head && p.I == 0 }})
			switch {
			case !okSel:
				c.Fail("C21-R1", key, pos(c, inc.N), "the bucket is not selected by `value <= upper bound` (inclusive): "+why)
			case !sameIdx:
				c.Fail("C21-R1", key, pos(c, inc.N), "the bucket incremented is not the one whose bound was tested")
			case again:
				c.Fail("C21-R1", key, pos(c, inc.N), "the scan continues after a bucket was incremented: later buckets are incremented too")
			default:
				c.Ok("C21-R1", key, pos(c, inc.N), "first-match scan, inclusive upper bound, leaves the loop")
			}
			// scan must start at the first element: `for i, b := range d.Buckets` always does
			continue
		}
		// outside the scan loop
		if idx != nil && strings.ReplaceAll(exprStr(idx), " ", "") == "len("+recv+".Buckets)-1" {
			// fallback on the last bucket: must be unreachable when the scan matched
			catchAll = true
			bad := false
			for j, other := range incs {
				if j == i {
					continue
				}
				from := other.P
				if _, found := pathAvoiding(g, &from, []core.Point{inc.P}, nil); found {
					bad = true
				}
			}
			c.Verdict(!bad, "C21-R1", key, pos(c, inc.N), "catch-all on the last bucket", "the catch-all increment can run after a bucket was already incremented")
			continue
		}
		if guard != nil {
			switch rangeGuard(f, guard.Cond, vObj) {
			case "ok":
				c.Ok("C21-R1", key, pos(c, inc.N), "selected by (Min, Max] membership")
			case "closed-lower":
				c.Fail("C21-R1", key, pos(c, inc.N), "the bucket is selected by a range test that includes the lower edge: a value equal to a boundary is counted in the bucket above it, not in the first bucket whose upper bound is at least the value")
			default:
				c.Undecided("C21-R1", key, pos(c, inc.N), "bucket increment outside the first-match scan with an unrecognised guard: "+exprStr(guard.Cond))
			}
			continue
		}
		c.Undecided("C21-R1", key, pos(c, inc.N), "unconditional bucket increment outside the first-match scan")
	}
	c.Verdict(catchAll, "C21-R1", bucketsObserve+"|c catch-all", pos(c, f.Decl), "values matched by no bound go to the last bucket", "an observation that satisfies no `value <= bound` test (NaN: every comparison is false) increments no bucket while count and sum advance: bucket counts no longer sum to the count")
	c.Floor("C21-R1", 3)

	c.Rule("C21-R2", "COUNT-SUM: d.Count++ and d.Sum += v occur exactly once on every path through Observe, with the datum's write lock held")
	hold := g.MustHold()
	for _, ev := range []struct{ name, field string }{{"Count", recv + ".Count"}, {"Sum", recv + ".Sum"}} {
		hits := g.Find(func(n ast.Node) bool {
			switch s := n.(type) {
			case *ast.IncDecStmt:
				return core.PathOf(s.X) == ev.field && s.Tok == token.INC
			case *ast.AssignStmt:
				if len(s.Lhs) != 1 || core.PathOf(s.Lhs[0]) != ev.field {
					return false
				}
				if ev.name == "Sum" {
					return s.Tok == token.ADD_ASSIGN && identObj(f.Info(), s.Rhs[0]) == vObj
				}
				if v, ok := constInt(f.Info(), s.Rhs[0]); ok && v == 1 && s.Tok == token.ADD_ASSIGN {
					return true
				}
			}
			return false
		})
		cc := g.Count(nil, core.HitPoints(hits), nil)
		okAll := len(hits) > 0
		var got core.Cnt
		for _, e := range normalExits(g) {
			n, _ := cc.At(e.P)
			got = n
			if n.Min != 1 || n.Max != 1 {
				okAll = false
			}
		}
		for _, h := range hits {
			if !core.Holds(hold.At(h.P), recv, "W") {
				okAll = false
			}
		}
		c.Verdict(okAll, "C21-R2", bucketsObserve+"|"+ev.name, pos(c, f.Decl), "exactly once, under the lock", fmt.Sprintf("%s is updated %s times on some path through Observe, or not with the observed value / not under the datum's lock", ev.name, got.String()))
	}
	c.Floor("C21-R2", 2)

	// R3/R4 codegen
	c.Rule("C21-R3", "BOUNDS: in the histogram clause of the code generator, on every non-error path the first declared boundary is stored as an upper bound, each later boundary is stored exactly once per loop iteration as Range{previous, this} with previous updated, and exactly one Range{last, +Inf} follows the loop")
	c.Rule("C21-R4", "SORTED: in the boundary loop the `max <= min` rejection dominates the append and its branch returns")
	if cg := c.MustFn("C21-R3", codegenBefore); cg != nil {
		cgG := cg.Graph()
		histIfs := ifsWhere(cg, func(is *ast.IfStmt) bool {
			return strings.ReplaceAll(exprStr(is.Cond), " ", "") == "n.Kind==metrics.Histogram"
		})
		if len(histIfs) != 1 {
			c.Undecided("C21-R3", codegenBefore+"|histogram clause", pos(c, cg.Decl), fmt.Sprintf("expected one `if n.Kind == metrics.Histogram`, found %d", len(histIfs)))
		} else {
			hi := histIfs[0]
			type app struct {
				h      core.Hit
				lo, hi ast.Expr
			}
			var apps []app
			for _, h := range inside(cgG.Find(func(n ast.Node) bool {
				as, ok := n.(*ast.AssignStmt)
				if !ok || len(as.Lhs) != 1 || core.PathOf(as.Lhs[0]) != "m.Buckets" {
					return false
				}
				call, ok := core.Unparen(as.Rhs[0]).(*ast.CallExpr)
				return ok && cg.CalleeID(call) == "builtin.append"
			}), hi) {
				call := core.Unparen(h.N.(*ast.AssignStmt).Rhs[0]).(*ast.CallExpr)
				if len(call.Args) != 2 {
					continue
				}
				lit, ok := core.Unparen(call.Args[1]).(*ast.CompositeLit)
				if !ok || len(lit.Elts) != 2 {
					continue
				}
				lo, hiE := lit.Elts[0], lit.Elts[1]
				if kv, ok := lo.(*ast.KeyValueExpr); ok {
					lo = kv.Value
				}
				if kv, ok := hiE.(*ast.KeyValueExpr); ok {
					hiE = kv.Value
				}
				apps = append(apps, app{h, lo, hiE})
			}
			var loop *ast.RangeStmt
			for _, rs := range rangeStmts(cg) {
				if rs.Pos() > hi.Pos() && rs.End() < hi.End() && strings.HasPrefix(strings.ReplaceAll(exprStr(rs.X), " ", ""), "n.Buckets[") {
					loop = rs
				}
			}
			if loop == nil {
				c.Undecided("C21-R3", codegenBefore+"|boundary loop", pos(c, hi), "loop over n.Buckets[1:] not found")
			} else {
				okStart := strings.ReplaceAll(exprStr(loop.X), " ", "") == "n.Buckets[1:]"
				c.Verdict(okStart, "C21-R3", codegenBefore+"|loop range", pos(c, loop), "loop covers every boundary after the first", "the boundary loop does not range over n.Buckets[1:]: declared boundaries are skipped or repeated")
				var first, inLoop, inf []app
				for _, a := range apps {
					switch {
					case a.h.N.Pos() > loop.Pos() && a.h.N.End() < loop.End():
						inLoop = append(inLoop, a)
					case strings.Contains(exprStr(a.hi), "math.Inf"):
						inf = append(inf, a)
					default:
						first = append(first, a)
					}
				}
				// first boundary exported on every path reaching the loop
				var firstPts []core.Point
				for _, a := range first {
					if strings.ReplaceAll(exprStr(a.hi), " ", "") == "n.Buckets[0]" {
						firstPts = append(firstPts, a.h.P)
					}
				}
				head, body, _ := loopBlocks(cgG, loop)
				if start, ok := branchStart(cgG, hi, true); ok && head != nil {
					tr, found := cgG.Search(core.Query{From: start, Goal: func(p core.Point) bool { return p.B == head }, Avoid: core.At(firstPts...)})
					c.Verdict(!found, "C21-R3", codegenBefore+"|first boundary exported", pos(c, hi), "n.Buckets[0] always becomes an upper bound",
						"the first declared boundary becomes an exported upper bound only on some paths (when it is > 0): with `buckets 0, 1, 2` or a negative first boundary the bound is not exported and values at or below it are counted under the next one", cgG.Trail(tr)...)
				}
				// in loop: exactly one append per iteration on the non-error paths, Range{min,max}, min = max
				if len(inLoop) != 1 {
					c.Fail("C21-R3", codegenBefore+"|loop append", pos(c, loop), fmt.Sprintf("expected one append in the boundary loop, found %d", len(inLoop)))
				} else {
					a := inLoop[0]
					minObj := identObj(cg.Info(), a.lo)
					okPair := identObj(cg.Info(), a.hi) != nil && identObj(cg.Info(), a.hi) == identObj(cg.Info(), loop.Value) && minObj != nil
					// min = max after the append in the same iteration
					upd := cgG.Find(func(n ast.Node) bool {
						as, ok := n.(*ast.AssignStmt)
						return ok && len(as.Lhs) == 1 && identObj(cg.Info(), as.Lhs[0]) == minObj && minObj != nil && as.Tok == token.ASSIGN && identObj(cg.Info(), as.Rhs[0]) == identObj(cg.Info(), loop.Value) && as.Pos() > loop.Pos() && as.End() < loop.End()
					})
					from := a.h.P
					_, skipUpd := cgG.Search(core.Query{From: &from, Goal: func(p core.Point) bool { return p.B == head && p.I == 0 }, Avoid: core.At(core.HitPoints(upd)...)})
					cnt, okc := iterationCount(cgG, loop, []core.Point{a.h.P})
					c.Verdict(okPair && !skipUpd && okc && cnt.Min == 1 && cnt.Max == 1, "C21-R3", codegenBefore+"|loop append", pos(c, a.h.N), "Range{previous, boundary} once per boundary, previous advanced",
						fmt.Sprintf("the loop does not store Range{previous, boundary} exactly once per declared boundary and advance `previous` (pair ok=%v, previous advanced=%v, appends per iteration=%s)", okPair, !skipUpd, cnt.String()))
					// the initial value of min is n.Buckets[0]
					okInit := false
					core.InspectNoLit(hi.Body, func(n ast.Node) bool {
						if as, ok := n.(*ast.AssignStmt); ok && as.Tok == token.DEFINE && len(as.Lhs) == 1 && identObj(cg.Info(), as.Lhs[0]) == minObj {
							okInit = strings.ReplaceAll(exprStr(as.Rhs[0]), " ", "") == "n.Buckets[0]"
						}
						return true
					})
					c.Verdict(okInit, "C21-R3", codegenBefore+"|previous starts at first boundary", pos(c, loop), "previous = n.Buckets[0]", "the lower edge of the second bucket does not start at the first declared boundary")
					// R4
					var srt []*ast.IfStmt
					for _, is := range ifsWhere(cg, func(is *ast.IfStmt) bool { return is.Pos() > loop.Pos() && is.End() < loop.End() }) {
						cond := strings.ReplaceAll(exprStr(is.Cond), " ", "")
						mx, mn := exprStr(loop.Value), minObj.Name()
						if cond == mx+"<="+mn || cond == mn+">="+mx {
							srt = append(srt, is)
						}
					}
					if len(srt) == 0 {
						c.Fail("C21-R4", codegenBefore+"|sortedness test", pos(c, loop), "no `boundary <= previous` rejection in the boundary loop (weakened to `<` admits duplicate boundaries; removed admits unsorted lists): buckets overlap or are empty and first-match counting is wrong")
					} else {
						var conds []core.Point
						bad := false
						for _, is := range srt {
							if p, ok := cgG.PointOf(is.Cond); ok {
								conds = append(conds, p)
							}
							if start, ok := branchStart(cgG, is, true); ok {
								if _, found := pathAvoiding(cgG, start, []core.Point{a.h.P}, nil); found {
									bad = true
								}
								_ = start
							}
						}
						if body != nil {
							if _, found := pathAvoiding(cgG, &core.Point{B: body, I: -1}, []core.Point{a.h.P}, conds); found {
								bad = true
							}
						}
						c.Verdict(!bad, "C21-R4", codegenBefore+"|sortedness test", pos(c, srt[0]), "rejection dominates the append and does not fall through", "an unsorted or duplicate boundary can still be stored")
					}
				}
				// +Inf exactly once after the loop
				okInf := len(inf) == 1 && inf[0].h.N.Pos() > loop.End()
				if okInf {
					a := inf[0]
					okInf = strings.ReplaceAll(exprStr(a.hi), " ", "") == "math.Inf(+1)" || strings.ReplaceAll(exprStr(a.hi), " ", "") == "math.Inf(1)"
					_, _, done := loopBlocks(cgG, loop)
					if done != nil {
						// every path from loop done to the end of the clause passes it… approximate: to any exit without error
						cc := cgG.Count(&core.Point{B: done, I: -1}, []core.Point{a.h.P}, nil)
						for _, e := range successExits(cgG, cg) {
							if n, ok := cc.At(e.P); ok && (n.Min != 1 || n.Max != 1) {
								// exits that are error returns (return nil, n after errorf) are excluded by successExits only if they return nil error; codegen returns (nil, n): treat returns inside `if err != nil`/errorf blocks as errors
								if !afterErrorf(cg, e) {
									okInf = false
								}
							}
						}
					}
				}
				c.Verdict(okInf, "C21-R3", codegenBefore+"|+Inf bucket", pos(c, hi), "exactly one Range{last, +Inf} after the loop", "the +Inf bucket is not appended exactly once after the declared boundaries")
			}
		}
	}
	c.Floor("C21-R3", 5)
	c.Floor("C21-R4", 1)

	// R5
	c.Rule("C21-R5", "OWN-COUNTERS: every assignment to the Buckets field of a datum.Buckets is `x.Buckets = append(x.Buckets, …)` on the same x (or a fresh make/literal): bucket counters are never a slice derived from another datum or a shared layout")
	n5 := 0
	for _, sf := range shipped(c) {
		core.InspectNoLit(sf.Body, func(n ast.Node) bool {
			as, ok := n.(*ast.AssignStmt)
			if !ok {
				return true
			}
			for i, l := range as.Lhs {
				sel, ok := core.Unparen(l).(*ast.SelectorExpr)
				if !ok || sel.Sel.Name != "Buckets" {
					continue
				}
				s := sf.Info().Selections[sel]
				if s == nil || s.Kind() != types.FieldVal || !strings.HasSuffix(s.Recv().String(), "datum.Buckets") {
					continue
				}
				n5++
				c.Analysed(sf)
				if len(as.Rhs) != len(as.Lhs) {
					c.Undecided("C21-R5", sf.Key+"|assign Buckets", pos(c, as), "multi-value assignment")
					continue
				}
				rhs := core.Unparen(as.Rhs[i])
				okOwn := false
				if call, ok := rhs.(*ast.CallExpr); ok {
					switch sf.CalleeID(call) {
					case "builtin.append":
						okOwn = core.PathOf(call.Args[0]) == core.PathOf(l) && !call.Ellipsis.IsValid()
					case "builtin.make":
						okOwn = true
					}
				}
				if _, ok := rhs.(*ast.CompositeLit); ok {
					okOwn = true
				}
				c.Verdict(okOwn, "C21-R5", sf.Key+"|assign "+core.PathOf(l), pos(c, as), "own storage", "a histogram datum's bucket counters are set from a slice that may share its backing array with another datum or a cached layout ("+exprStr(as.Rhs[i])+"): an observation under one label set changes the counts of the others")
			}
			return true
		})
		// composite literals of datum.Buckets with a Buckets field
		core.InspectNoLit(sf.Body, func(n ast.Node) bool {
			lit, ok := n.(*ast.CompositeLit)
			if !ok {
				return true
			}
			if t := sf.Info().TypeOf(lit); t == nil || !strings.HasSuffix(t.String(), "datum.Buckets") {
				return true
			}
			for _, el := range lit.Elts {
				if kv, ok := el.(*ast.KeyValueExpr); ok && exprStr(kv.Key) == "Buckets" {
					n5++
					_, isLit := core.Unparen(kv.Value).(*ast.CompositeLit)
					call, isCall := core.Unparen(kv.Value).(*ast.CallExpr)
					okOwn := isLit || (isCall && sf.CalleeID(call) == "builtin.make")
					c.Verdict(okOwn, "C21-R5", sf.Key+"|literal Buckets", pos(c, lit), "own storage", "a histogram datum is built around an existing slice of bucket counters: label sets share counters")
				}
			}
			return true
		})
	}
	c.Floor("C21-R5", 1)

	// R6
	c.Rule("C21-R6", "EXPORT: NewConstHistogram receives GetBucketsCount, GetBucketsSum and GetBucketsCumByMax of one and the same datum expression; GetBucketsCumByMax sorts the upper bounds before accumulating and stores the running total for every bound")
	for _, sf := range shipped(c) {
		for _, h := range sf.Graph().Calls(func(id string, _ *ast.CallExpr) bool {
			return strings.HasSuffix(id, "prometheus.NewConstHistogram") || strings.HasSuffix(id, "prometheus.MustNewConstHistogram")
		}) {
			c.Analysed(sf)
			call := h.N.(*ast.CallExpr)
			want := []string{"internal/metrics/datum.GetBucketsCount", "internal/metrics/datum.GetBucketsSum", "internal/metrics/datum.GetBucketsCumByMax"}
			okArgs := len(call.Args) >= 4
			var src string
			for i := 0; okArgs && i < 3; i++ {
				ac, isC := core.Unparen(call.Args[i+1]).(*ast.CallExpr)
				if !isC || sf.CalleeID(ac) != want[i] || len(ac.Args) != 1 {
					okArgs = false
					break
				}
				if i == 0 {
					src = exprStr(ac.Args[0])
				} else if exprStr(ac.Args[0]) != src {
					okArgs = false
				}
			}
			okArgs = okArgs && strings.HasSuffix(src, ".Datum")
			c.Verdict(okArgs, "C21-R6", sf.Key+"|NewConstHistogram", pos(c, call), "count, sum, buckets of "+src, "the histogram sample is not built from count, sum and cumulative buckets of one and the same label set's datum")
		}
	}
	if cf := c.MustFn("C21-R6", "internal/metrics/datum.GetBucketsCumByMax"); cf != nil {
		cg := cf.Graph()
		sorts := cg.Calls(func(id string, _ *ast.CallExpr) bool { return id == "sort.Float64s" || id == "slices.Sort" })
		accs := cg.Find(func(n ast.Node) bool {
			as, ok := n.(*ast.AssignStmt)
			return ok && as.Tok == token.ADD_ASSIGN && len(as.Lhs) == 1
		})
		stores := cg.Find(func(n ast.Node) bool {
			as, ok := n.(*ast.AssignStmt)
			if !ok || as.Tok != token.ASSIGN || len(as.Lhs) != 1 {
				return false
			}
			_, isIdx := core.Unparen(as.Lhs[0]).(*ast.IndexExpr)
			return isIdx
		})
		okShape := len(sorts) == 1 && len(accs) >= 1 && len(stores) >= 2
		if okShape {
			// the accumulation loop comes after the sort on every path
			acc := accs[len(accs)-1]
			if _, found := pathAvoiding(cg, nil, []core.Point{acc.P}, core.HitPoints(sorts)); found {
				okShape = false
			}
			// running total stored in the same iteration
			as := acc.N.(*ast.AssignStmt)
			cum := identObj(cf.Info(), as.Lhs[0])
			stored := false
			for _, s := range stores {
				sa := s.N.(*ast.AssignStmt)
				if identObj(cf.Info(), sa.Rhs[0]) == cum && cum != nil && sa.Pos() > as.Pos() {
					stored = true
				}
			}
			okShape = okShape && stored
		}
		c.Verdict(okShape, "C21-R6", "internal/metrics/datum.GetBucketsCumByMax|prefix sum", pos(c, cf.Decl), "sort, then running total stored per bound", "GetBucketsCumByMax is not a prefix sum over the sorted upper bounds: exported bucket counts are not cumulative/non-decreasing or +Inf differs from the count")
	}
	c.Floor("C21-R6", 2)
}

// incIndex returns the index expression of `X[i].Count++`.
func incIndex(n ast.Node) ast.Expr {
	var target ast.Expr
	switch s := n.(type) {
	case *ast.IncDecStmt:
		target = s.X
	case *ast.AssignStmt:
		target = s.Lhs[0]
	}
	if sel, ok := core.Unparen(target).(*ast.SelectorExpr); ok {
		if ix, ok := core.Unparen(sel.X).(*ast.IndexExpr); ok {
			return ix.Index
		}
	}
	return nil
}

// firstMatchGuard examines the guard of an increment inside the scan loop.
// ok: some disjunct is `v <= elem.Range.Max` with elem the loop's current element;
// hasLast: some disjunct is `i == len(recv.Buckets)-1`.
func firstMatchGuard(f *core.Func, cond ast.Expr, v types.Object, loop *ast.RangeStmt, recv string) (ok bool, why string, hasLast bool) {
	info := f.Info()
	isElemMax := func(e ast.Expr) bool {
		s := strings.ReplaceAll(exprStr(e), " ", "")
		if loop.Value != nil && s == exprStr(loop.Value)+".Range.Max" {
			return true
		}
		if loop.Key != nil && s == recv+".Buckets["+exprStr(loop.Key)+"].Range.Max" {
			return true
		}
		return false
	}
	why = "guard is " + exprStr(cond)
	for _, d := range chain(cond, token.LOR) {
		be, isB := core.Unparen(d).(*ast.BinaryExpr)
		if !isB {
			return false, why, hasLast
		}
		switch {
		case be.Op == token.LEQ && identObj(info, be.X) == v && isElemMax(be.Y),
			be.Op == token.GEQ && identObj(info, be.Y) == v && isElemMax(be.X):
			ok = true
		case be.Op == token.EQL && loop.Key != nil && identObj(info, be.X) == identObj(info, loop.Key) && strings.ReplaceAll(exprStr(be.Y), " ", "") == "len("+recv+".Buckets)-1":
			hasLast = true
		case (be.Op == token.LSS && identObj(info, be.X) == v && isElemMax(be.Y)) || (be.Op == token.GTR && identObj(info, be.Y) == v && isElemMax(be.X)):
			return false, "the comparison with the upper bound is strict: a value equal to a boundary falls into the next bucket", hasLast
		default:
			return false, why, hasLast
		}
	}
	return ok, why, hasLast
}

// rangeGuard classifies a guard on a bucket outside the scan: "ok" for
// Min < v && v <= Max (or Range.Contains(v)), "closed-lower" for v >= Min…, "" otherwise.
func rangeGuard(f *core.Func, cond ast.Expr, v types.Object) string {
	info := f.Info()
	res := ""
	lowerOK, lowerClosed, upperOK := false, false, false
	for _, cj := range chain(cond, token.LAND) {
		cj = core.Unparen(cj)
		if call, ok := cj.(*ast.CallExpr); ok && strings.HasSuffix(f.CalleeID(call), "datum.(*Range).Contains") && len(call.Args) == 1 && identObj(info, call.Args[0]) == v {
			lowerOK, upperOK = true, true
			continue
		}
		be, ok := cj.(*ast.BinaryExpr)
		if !ok {
			continue
		}
		x, y := exprStr(be.X), exprStr(be.Y)
		vx, vy := identObj(info, be.X) == v, identObj(info, be.Y) == v
		switch {
		case (vx && be.Op == token.GTR && strings.HasSuffix(y, ".Min")) || (vy && be.Op == token.LSS && strings.HasSuffix(x, ".Min")):
			lowerOK = true
		case (vx && be.Op == token.GEQ && strings.HasSuffix(y, ".Min")) || (vy && be.Op == token.LEQ && strings.HasSuffix(x, ".Min")):
			lowerClosed = true
		case (vx && be.Op == token.LEQ && strings.HasSuffix(y, ".Max")) || (vy && be.Op == token.GEQ && strings.HasSuffix(x, ".Max")):
			upperOK = true
		}
	}
	switch {
	case lowerClosed:
		res = "closed-lower"
	case lowerOK && upperOK:
		res = "ok"
	}
	return res
}

// afterErrorf reports whether the return exit directly follows a c.errorf call in its block.
func afterErrorf(f *core.Func, e core.Exit) bool {
	if e.Kind != "return" {
		return false
	}
	for i := e.P.I - 1; i >= 0; i-- {
		found := false
		ast.Inspect(e.P.B.Nodes[i], func(n ast.Node) bool {
			if call, ok := n.(*ast.CallExpr); ok && strings.HasSuffix(f.CalleeID(call), ".errorf") {
				found = true
			}
			return true
		})
		if found {
			return true
		}
	}
	return false
}
