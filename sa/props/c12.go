package props

import (
	"fmt"
	"go/ast"
	"go/token"
	"strings"

	"verif/sa/core"
)

func init() { register("C12", c12) }

const emitLabelSets = "internal/metrics.(*Metric).EmitLabelSets"

// emitterSpawns finds `go X.EmitLabelSets(ch)` statements in shipped code.
type emitSpawn struct {
	f    *core.Func
	hit  core.Hit
	call *ast.CallExpr
}

func emitterSpawns(c *core.Check) []emitSpawn {
	var out []emitSpawn
	for _, f := range shipped(c) {
		g := f.Graph()
		for _, h := range g.Find(func(n ast.Node) bool {
			gs, ok := n.(*ast.GoStmt)
			return ok && f.CalleeID(gs.Call) == emitLabelSets
		}) {
			out = append(out, emitSpawn{f, h, h.N.(*ast.GoStmt).Call})
		}
	}
	return out
}

func c12(c *core.Check) {
	c.Explain = "Decides structural necessary conditions of C12 on /repo's source: (R1) every Lock/RLock acquired in shipped code is released on every control-flow path to a normal exit of the acquiring function (go/cfg path search, defer-aware); (R2) every loop that drains a label-set emitter goroutine can only be left through channel close, so the emitter is never left blocked on its unbuffered send; (R3) the HTTP handlers test for client cancellation before taking a metric lock; (R4) the emitter closes its channel on every exit and takes no lock itself (the caller's read lock is delegated to it; a nested RLock could deadlock against a waiting writer). It does not decide liveness of the network peer or the scheduler."
	c.Assume = append(c.Assume, "sync.Mutex/RWMutex semantics; a deferred Unlock runs on every exit; panics are not considered exits",
		"lock identity is the syntactic access path of the mutex owner inside one function")

	c.Rule("C12-R1", "PAIR: for each acquire a of lock L in function f, no CFG path from a to a return/end of f avoids every release of L (same access path and mode; `defer` counts as release)")
	for _, k := range []string{"2", "3", "4"} {
		c.Exempt("C12-R1", "internal/metrics.(*Store).Add|RLock base=s.searchMu#1|exit=return#"+k,
			"infeasible path: the three error returns in the label-copy loop only fire on a label/key arity mismatch, and the loop is entered only after reflect.DeepEqual(v.Keys, m.Keys); every stored LabelValue has len(Labels)==len(Keys) by AppendLabelValue's guard (C08-R3/C09-R3)")
	}
	total := 0
	for _, f := range shipped(c) {
		n := lockPairing(c, "C12-R1", f)
		if n > 0 {
			c.Analysed(f)
		}
		total += n
	}
	c.Floor("C12-R1", 50)
	c.Extra["acquire_sites"] = total

	c.Rule("C12-R2", "DRAIN: for each `go m.EmitLabelSets(ch)` the consumer `for … range ch` in the same function has no way out of its body other than the loop head (no return/break/goto), so the emitter always reaches close(ch)")
	spawns := emitterSpawns(c)
	for _, s := range spawns {
		f := s.f
		c.Analysed(f)
		g := f.Graph()
		key := f.Key + "|go EmitLabelSets"
		if len(s.call.Args) != 1 {
			c.Undecided("C12-R2", key, pos(c, s.call), "unexpected arity")
			continue
		}
		ch := identObj(f.Info(), s.call.Args[0])
		if ch == nil {
			c.Undecided("C12-R2", key, pos(c, s.call), "channel argument is not a local identifier")
			continue
		}
		loops := rangeOver(f, ch)
		if len(loops) != 1 {
			c.Fail("C12-R2", key, pos(c, s.call), fmt.Sprintf("expected exactly one `range %s` consumer in the spawning function, found %d: the emitter is not drained here", ch.Name(), len(loops)))
			continue
		}
		// the loop must be reached from the spawn on every path (otherwise nobody drains)
		head, _, _ := loopBlocks(g, loops[0])
		from := s.hit.P
		if trail, found := g.Search(core.Query{From: &from, Goal: core.At(core.ExitPoints(g.Exits())...), Avoid: func(p core.Point) bool { return p.B == head }}); found {
			c.Fail("C12-R2", key+"|spawn-without-consumer", pos(c, s.call), "a path from the spawn reaches a function exit without entering the draining loop", g.Trail(trail)...)
		}
		early := earlyLoopExits(c, g, loops[0])
		if len(early) == 0 {
			c.Ok("C12-R2", key, pos(c, loops[0]), "the draining loop can only end by channel close")
		}
		for i, e := range early {
			c.Fail("C12-R2", fmt.Sprintf("%s|early-exit#%d", key, i+1), pos(c, loops[0]), "the loop draining the emitter can be left early, leaving the emitter goroutine blocked on send: "+e)
		}
	}
	c.Floor("C12-R2", 4)

	c.Rule("C12-R3", "DOM: in the store-iteration callbacks of the HTTP text handlers (varz, graphite) a non-blocking test of the request context dominates the metric RLock, and its Done branch returns")
	for _, key := range []string{"internal/exporter.(*Exporter).HandleVarz$1", "internal/exporter.(*Exporter).HandleGraphite$1"} {
		f := c.MustFn("C12-R3", key)
		if f == nil {
			continue
		}
		g := f.Graph()
		done := g.Find(func(n ast.Node) bool {
			u, ok := n.(*ast.UnaryExpr)
			if !ok || u.Op != token.ARROW {
				return false
			}
			call, ok := core.Unparen(u.X).(*ast.CallExpr)
			return ok && strings.HasSuffix(f.CalleeID(call), ".Done")
		})
		var acq []core.LockEv
		for _, ev := range g.LockEvents() {
			if ev.Acquire {
				acq = append(acq, ev)
			}
		}
		if len(acq) == 0 {
			c.Undecided("C12-R3", key, pos(c, f.Body), "no lock acquire found in the callback")
			continue
		}
		for _, a := range acq {
			trail, found := g.Search(core.Query{Goal: core.At(a.P), Avoid: core.At(core.HitPoints(done)...)})
			ok := !found && len(done) > 0
			c.Verdict(ok, "C12-R3", fmt.Sprintf("%s|%s#%d", key, a.Path, a.Ordinal), pos(c, a.Call),
				"cancellation test dominates the acquire", "the metric lock can be taken without first testing the request context for cancellation", g.Trail(trail)...)
		}
		// the Done clause must return
		okRet := false
		core.InspectNoLit(f.Body, func(n ast.Node) bool {
			cc, ok := n.(*ast.CommClause)
			if !ok || cc.Comm == nil {
				return true
			}
			isDone := false
			ast.Inspect(cc.Comm, func(x ast.Node) bool {
				if call, ok := x.(*ast.CallExpr); ok && strings.HasSuffix(f.CalleeID(call), ".Done") {
					isDone = true
				}
				return true
			})
			if isDone {
				for _, st := range cc.Body {
					if _, ok := st.(*ast.ReturnStmt); ok {
						okRet = true
					}
				}
			}
			return true
		})
		c.Verdict(okRet, "C12-R3", key+"|done-returns", pos(c, f.Body), "the Done clause returns before any lock", "the clause selected on cancellation does not return")
	}

	c.Rule("C12-R4", "EMITTER: EmitLabelSets closes its channel on every exit, sends only on that channel, and acquires no lock (it runs under the spawner's delegated read lock)")
	if f := c.MustFn("C12-R4", emitLabelSets); f != nil {
		g := f.Graph()
		closes := g.CallsTo("builtin.close")
		bad := false
		for _, e := range g.Exits() {
			if e.Kind == "panic" {
				continue
			}
			if trail, found := g.Search(core.Query{Goal: core.At(e.P), Avoid: core.At(core.HitPoints(closes)...)}); found {
				bad = true
				c.Fail("C12-R4", emitLabelSets+"|close|exit="+e.String(), ppos(c, e.P, f), "an exit of the emitter does not close the channel: the consumer's range never ends and the metric stays read-locked", g.Trail(trail)...)
			}
		}
		if !bad {
			c.Ok("C12-R4", emitLabelSets+"|close", pos(c, f.Decl), "channel closed on every exit")
		}
		nlock := 0
		for _, ev := range g.LockEvents() {
			if ev.Acquire {
				nlock++
				c.Fail("C12-R4", fmt.Sprintf("%s|acquires %s:%s", emitLabelSets, ev.Path, ev.Mode), pos(c, ev.Call), "the emitter takes a lock while its spawner already holds the metric's read lock: with a writer waiting, a nested RLock blocks forever")
			}
		}
		if nlock == 0 {
			c.Ok("C12-R4", emitLabelSets+"|lock-free", pos(c, f.Decl), "no lock acquired in the emitter")
		}
	}
}
