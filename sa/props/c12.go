package props

import (
	"fmt"
	"go/ast"
	"go/token"
	"go/types"
	"sort"
	"strings"

	"golang.org/x/tools/go/cfg"

	"verif/sa/core"
)

func init() { register("C12", c12) }

const emitLabelSets = "internal/metrics.(*Metric).EmitLabelSets"

// ---------------------------------------------------------------------------
// R1: lock events, following lock/unlock helpers of the module.

// c12LockSum says that a call of a function releases (or acquires and keeps)
// the lock at <root><rest> on every path, where root is the receiver (-1) or
// the i-th argument of the call.
type c12LockSum struct {
	root    int
	rest    string
	mode    string
	acquire bool
}

type c12Locks struct {
	c       *core.Check
	sums    map[*core.Func][]c12LockSum
	done    map[*core.Func]bool
	busy    map[*core.Func]bool
	evs     map[*core.Func][]core.LockEv
	callers map[*core.Func]int
}

func newC12Locks(c *core.Check) *c12Locks {
	l := &c12Locks{c: c, sums: map[*core.Func][]c12LockSum{}, done: map[*core.Func]bool{}, busy: map[*core.Func]bool{},
		evs: map[*core.Func][]core.LockEv{}, callers: map[*core.Func]int{}}
	for _, f := range shipped(c) {
		ast.Inspect(f.Body, func(n ast.Node) bool {
			if _, isLit := n.(*ast.FuncLit); isLit && n != ast.Node(f.Lit) {
				return false // counted with the literal's own Func
			}
			if call, ok := n.(*ast.CallExpr); ok {
				if cf := f.CalleeFunc(call); cf != nil {
					l.callers[cf]++
				}
			}
			return true
		})
	}
	return l
}

func pathRoot(p string) (root, rest string) {
	for i, ch := range p {
		if ch == '.' || ch == '[' {
			return p[:i], p[i:]
		}
	}
	return p, ""
}

// events lists the lock events of f: the direct ones (core.LockEvents) plus
// one event per call of a module function that is a pure unlock helper
// (releases a lock of its receiver/parameter on every path and never acquires
// it) or a pure lock helper (acquires on every path and never releases).
func (l *c12Locks) events(f *core.Func) []core.LockEv {
	if ev, ok := l.evs[f]; ok {
		return ev
	}
	g := f.Graph()
	out := append([]core.LockEv{}, g.LockEvents()...)
	add := func(p core.Point, call *ast.CallExpr, deferred bool) {
		h := f.CalleeFunc(call)
		if h == nil || h.Lit != nil || h == f {
			return
		}
		for _, s := range l.summary(h) {
			var base ast.Expr
			if s.root < 0 {
				base = core.RecvExpr(call)
			} else if s.root < len(call.Args) {
				base = call.Args[s.root]
			}
			if base == nil {
				continue
			}
			out = append(out, core.LockEv{Path: core.PathOf(base) + s.rest, Mode: s.mode, Acquire: s.acquire, Deferred: deferred, P: p, Call: call})
		}
	}
	for _, b := range g.C.Blocks {
		if !b.Live {
			continue
		}
		for i, n := range b.Nodes {
			p := core.Point{B: b, I: i}
			ds, isDefer := n.(*ast.DeferStmt)
			core.InspectNoLit(n, func(x ast.Node) bool {
				if c, ok := x.(*ast.CallExpr); ok {
					add(p, c, isDefer)
				}
				return true
			})
			if isDefer {
				if lit, ok := core.Unparen(ds.Call.Fun).(*ast.FuncLit); ok {
					ast.Inspect(lit.Body, func(x ast.Node) bool {
						if c, ok := x.(*ast.CallExpr); ok {
							add(p, c, true)
						}
						return true
					})
				}
			}
		}
	}
	sort.SliceStable(out, func(i, j int) bool { return out[i].Call.Pos() < out[j].Call.Pos() })
	cnt := map[string]int{}
	for i := range out {
		k := out[i].Path + "|" + out[i].Mode
		if out[i].Acquire {
			k += "|a"
		}
		cnt[k]++
		out[i].Ordinal = cnt[k]
	}
	l.evs[f] = out
	return out
}

// summary computes the lock effect a call of h has for its caller.
func (l *c12Locks) summary(h *core.Func) []c12LockSum {
	if l.done[h] {
		return l.sums[h]
	}
	if l.busy[h] {
		return nil
	}
	l.busy[h] = true
	defer delete(l.busy, h)
	evs := l.events(h)
	var sums []c12LockSum
	if len(evs) > 0 {
		g := h.Graph()
		exits := core.ExitPoints(normalExits(g))
		type k struct{ path, mode string }
		acq, rel := map[k][]core.Point{}, map[k][]core.Point{}
		var order []k
		for _, ev := range evs {
			kk := k{ev.Path, ev.Mode}
			if _, a := acq[kk]; !a {
				if _, r := rel[kk]; !r {
					order = append(order, kk)
				}
			}
			if ev.Acquire {
				acq[kk] = append(acq[kk], ev.P)
			} else {
				rel[kk] = append(rel[kk], ev.P)
			}
		}
		for _, kk := range order {
			root, rest := pathRoot(kk.path)
			idx := -2
			if recvIdent(h) == root && root != "_" {
				idx = -1
			} else if i := paramIndex(h, root); i >= 0 {
				idx = i
			}
			if idx == -2 || len(exits) == 0 {
				continue
			}
			switch {
			case len(acq[kk]) == 0 && len(rel[kk]) > 0:
				if _, open := pathAvoiding(g, nil, exits, rel[kk]); !open {
					sums = append(sums, c12LockSum{idx, rest, kk.mode, false})
				}
			case len(rel[kk]) == 0 && len(acq[kk]) > 0:
				if _, open := pathAvoiding(g, nil, exits, acq[kk]); !open {
					sums = append(sums, c12LockSum{idx, rest, kk.mode, true})
				}
			}
		}
	}
	l.sums[h] = sums
	l.done[h] = true
	return sums
}

// pairing is lockPairing (common.go) over events(): every non-deferred acquire
// in f is released on every path to a normal exit.
func (l *c12Locks) pairing(rule string, f *core.Func) int {
	c := l.c
	g := f.Graph()
	evs := l.events(f)
	exits := g.Exits()
	n := 0
	for _, a := range evs {
		if !a.Acquire || a.Deferred {
			continue
		}
		n++
		var rel []core.Point
		for _, r := range evs {
			if !r.Acquire && r.Path == a.Path && r.Mode == a.Mode {
				rel = append(rel, r.P)
			}
		}
		name := map[string]string{"W": "Lock", "R": "RLock"}[a.Mode]
		base := fmt.Sprintf("%s|%s base=%s#%d", f.Key, name, a.Path, a.Ordinal)
		if len(rel) == 0 && f.Lit == nil && l.callers[f] > 0 {
			handed := false
			for _, s := range l.summary(f) {
				root, rest := pathRoot(a.Path)
				if s.acquire && s.mode == a.Mode && s.rest == rest && ((s.root == -1 && recvIdent(f) == root) || (s.root >= 0 && paramIndex(f, root) == s.root)) {
					handed = true
				}
			}
			if handed {
				c.Ok(rule, base, pos(c, a.Call), fmt.Sprintf("lock helper: acquires on every path and never releases; each of its %d call sites is checked as an acquire of the caller", l.callers[f]))
				continue
			}
		}
		bad := 0
		for _, e := range exits {
			if e.Kind == "panic" {
				continue
			}
			from := a.P
			trail, found := g.Search(core.Query{From: &from, Goal: core.At(e.P), Avoid: core.At(rel...)})
			if found {
				bad++
				c.Fail(rule, base+"|exit="+e.String(), ppos(c, e.P, f),
					fmt.Sprintf("%s on %s acquired at %s is still held when the function leaves by %s", name, a.Path, pos(c, a.Call), e.String()),
					g.Trail(trail)...)
			}
		}
		if bad == 0 {
			c.Ok(rule, base, pos(c, a.Call), fmt.Sprintf("released on all %d exits", len(exits)))
		}
	}
	return n
}

// ---------------------------------------------------------------------------
// R2: emitter spawns and their consumers.

type emitSpawn struct {
	f    *core.Func
	hit  core.Hit      // the go statement in f
	call *ast.CallExpr // the EmitLabelSets call (in the go statement or in its literal)
}

// emitterSpawns finds the `go X.EmitLabelSets(ch)` statements in shipped code
// (also used by C22).
func emitterSpawns(c *core.Check) []emitSpawn {
	var out []emitSpawn
	for _, f := range shipped(c) {
		g := f.Graph()
		for _, h := range g.Find(func(n ast.Node) bool {
			gs, ok := n.(*ast.GoStmt)
			return ok && f.CalleeID(gs.Call) == emitLabelSets
		}) {
			out = append(out, emitSpawn{f, h, h.N.(*ast.GoStmt).Call})
		}
	}
	return out
}

// emitterSpawnsAll finds `go X.EmitLabelSets(ch)` and `go func() { … X.EmitLabelSets(ch) … }()`
// in shipped code; sync lists calls of EmitLabelSets that are not started as a goroutine.
func emitterSpawnsAll(c *core.Check) (out []emitSpawn, sync []emitSpawn) {
	inGoLit := map[*ast.CallExpr]bool{}
	for _, f := range shipped(c) {
		g := f.Graph()
		for _, h := range g.Find(func(n ast.Node) bool { _, ok := n.(*ast.GoStmt); return ok }) {
			gs := h.N.(*ast.GoStmt)
			if f.CalleeID(gs.Call) == emitLabelSets {
				out = append(out, emitSpawn{f, h, gs.Call})
				inGoLit[gs.Call] = true
				continue
			}
			if lit, ok := core.Unparen(gs.Call.Fun).(*ast.FuncLit); ok {
				ast.Inspect(lit.Body, func(n ast.Node) bool {
					if call, ok := n.(*ast.CallExpr); ok && f.CalleeID(call) == emitLabelSets {
						out = append(out, emitSpawn{f, h, call})
						inGoLit[call] = true
					}
					return true
				})
			}
		}
	}
	for _, f := range shipped(c) {
		for _, h := range f.Graph().CallsTo(emitLabelSets) {
			if call := h.N.(*ast.CallExpr); !inGoLit[call] {
				sync = append(sync, emitSpawn{f, h, call})
			}
		}
	}
	return
}

// c12Drain decides "this function observes the close of channel ch on every
// path from a point to its exits".
type c12Drain struct {
	c    *core.Check
	memo map[string]bool
	busy map[string]bool
}

// closedEdges returns the CFG edges of f taken only when ch is closed: the
// head->done edge of `for … range ch` and the not-ok edge of a test of the ok
// result of `v, ok := <-ch`.  consumers are the points of calls handing ch to
// a module function that drains its parameter on every path.
func (d *c12Drain) closedEdges(f *core.Func, ch types.Object, depth int) (edge func(b *cfg.Block, si int) bool, consumers []core.Point, nloops int) {
	info := f.Info()
	isCh := func(e ast.Expr) bool {
		e = resolveAlias(f, e)
		return identObj(info, e) == ch && ch != nil
	}
	// ok results of receives from ch
	okOf := func(obj types.Object) bool {
		if obj == nil {
			return false
		}
		n, good := 0, true
		ast.Inspect(f.Decl.Body, func(x ast.Node) bool {
			as, isA := x.(*ast.AssignStmt)
			if !isA {
				return true
			}
			for i, lh := range as.Lhs {
				if identObj(info, lh) != obj {
					continue
				}
				n++
				u, isU := core.Unparen(as.Rhs[0]).(*ast.UnaryExpr)
				if !(i == 1 && len(as.Lhs) == 2 && len(as.Rhs) == 1 && isU && u.Op == token.ARROW && isCh(u.X)) {
					good = false
				}
			}
			return true
		})
		return n > 0 && good
	}
	gd := newGuard(guardSpec{atom: func(af *core.Func, e ast.Expr, _ func(ast.Expr) string) (bool, bool) {
		if id, ok := core.Unparen(e).(*ast.Ident); ok && okOf(identObj(af.Info(), id)) {
			return false, true // ok false => closed
		}
		return false, false
	}})
	ge := gd.edges(f, nil, 0)
	loops := map[ast.Stmt]bool{}
	for _, rs := range rangeStmts(f) {
		if isCh(rs.X) {
			loops[rs] = true
			nloops++
		}
	}
	g := f.Graph()
	for _, h := range g.Find(func(n ast.Node) bool { _, ok := n.(*ast.CallExpr); return ok }) {
		call := h.N.(*ast.CallExpr)
		cf := f.CalleeFunc(call)
		if cf == nil || cf.Lit != nil || h.InGo || h.InDefer || depth >= 3 {
			continue
		}
		for i, a := range call.Args {
			if isCh(a) {
				if po := paramAt(cf, i); po != nil && d.drains(cf, po, depth+1) {
					consumers = append(consumers, h.P)
				}
			}
		}
	}
	return func(b *cfg.Block, si int) bool {
		if b.Kind == cfg.KindRangeLoop && loops[b.Stmt] && si == 1 {
			return true
		}
		return ge(b, si)
	}, consumers, nloops
}

// drains: every path from the entry of h to a normal exit sees ch (a parameter of h) closed.
func (d *c12Drain) drains(h *core.Func, ch types.Object, depth int) bool {
	key := fmt.Sprintf("%s|%p", h.Key, ch)
	if v, ok := d.memo[key]; ok {
		return v
	}
	if d.busy[key] || assignedIn(h, ch) {
		return false
	}
	d.busy[key] = true
	defer delete(d.busy, key)
	g := h.Graph()
	edge, cons, _ := d.closedEdges(h, ch, depth)
	_, open := g.Search(core.Query{Goal: core.At(core.ExitPoints(normalExits(g))...), Avoid: core.At(cons...), AvoidEdge: edge})
	d.memo[key] = !open
	return !open
}

// ---------------------------------------------------------------------------
// R3: cancellation tests.

func isContextType(t types.Type) bool {
	if t == nil {
		return false
	}
	n, ok := t.(*types.Named)
	return ok && n.Obj().Name() == "Context" && n.Obj().Pkg() != nil && n.Obj().Pkg().Path() == "context"
}

// ctxErrCall reports whether e (after following single-definition locals) is X.Err() on a context.
func ctxErrCall(f *core.Func, e ast.Expr) bool {
	call, ok := resolveLocal(f, e).(*ast.CallExpr)
	if !ok || f.CalleeID(call) != "context.Context.Err" {
		return false
	}
	return isContextType(f.Info().TypeOf(core.RecvExpr(call)))
}

// c12CancelGuard builds the guard for P = "the context was found not cancelled"
// (notCancelled = true) or P = "found cancelled".
func c12CancelGuard(notCancelled bool) *guard {
	return newGuard(guardSpec{extra: func(f *core.Func) func(b *cfg.Block, si int) bool {
		e, _, _ := c12SelectEdges(f, notCancelled)
		return e
	}, atom: func(f *core.Func, e ast.Expr, _ func(ast.Expr) string) (bool, bool) {
		x, trueWhenNonNil, ok := nilCompare(f.Info(), e)
		if !ok || !ctxErrCall(f, x) {
			return false, false
		}
		// Err() != nil  <=>  cancelled
		if notCancelled {
			return !trueWhenNonNil, trueWhenNonNil
		}
		return trueWhenNonNil, !trueWhenNonNil
	}})
}

// c12SelectEdges classifies the edges of non-blocking selects on ctx.Done():
// `select { case <-ctx.Done(): …; default: }`.  It returns the predicate for
// the requested polarity, the number of such selects, and the selects on Done
// that block (no default clause).
func c12SelectEdges(f *core.Func, notCancelled bool) (edge func(b *cfg.Block, si int) bool, n int, blocking []*ast.SelectStmt) {
	doneClause := map[ast.Stmt]bool{}
	isDone := func(cc *ast.CommClause) bool {
		es, ok := cc.Comm.(*ast.ExprStmt)
		if !ok {
			return false
		}
		u, ok := core.Unparen(es.X).(*ast.UnaryExpr)
		if !ok || u.Op != token.ARROW {
			return false
		}
		call, ok := resolveLocal(f, u.X).(*ast.CallExpr)
		return ok && f.CalleeID(call) == "context.Context.Done" && isContextType(f.Info().TypeOf(core.RecvExpr(call)))
	}
	core.InspectNoLit(f.Body, func(x ast.Node) bool {
		sel, ok := x.(*ast.SelectStmt)
		if !ok {
			return true
		}
		hasDefault, others := false, 0
		var dones []*ast.CommClause
		for _, cl := range sel.Body.List {
			cc := cl.(*ast.CommClause)
			switch {
			case cc.Comm == nil:
				hasDefault = true
			case isDone(cc):
				dones = append(dones, cc)
			default:
				others++
			}
		}
		if len(dones) == 0 {
			return true
		}
		if !hasDefault {
			if others == 0 {
				blocking = append(blocking, sel)
			}
			return true
		}
		if others == 0 && len(dones) == 1 {
			n++
			doneClause[dones[0]] = true
		}
		return true
	})
	return func(b *cfg.Block, si int) bool {
		if si >= len(b.Succs) {
			return false
		}
		s := b.Succs[si]
		if !doneClause[s.Stmt] {
			return false
		}
		if notCancelled {
			return s.Kind == cfg.KindSelectAfterCase
		}
		return s.Kind == cfg.KindSelectCaseBody
	}, n, blocking
}

// c12MentionsCtx reports whether f or a module function it calls directly uses Done or Err of a context.
func c12MentionsCtx(f *core.Func) bool {
	found := false
	look := func(fn *core.Func) {
		ast.Inspect(fn.Body, func(n ast.Node) bool {
			if call, ok := n.(*ast.CallExpr); ok {
				if id := fn.CalleeID(call); id == "context.Context.Done" || id == "context.Context.Err" {
					found = true
				}
			}
			return !found
		})
	}
	look(f)
	for _, cf := range f.Callees() {
		look(cf)
	}
	return found
}

// rangeCallbacks finds the function passed to (*metrics.Store).Range inside the declaration key.
func rangeCallbacks(c *core.Check, f *core.Func) []*core.Func {
	var out []*core.Func
	ast.Inspect(f.Body, func(n ast.Node) bool {
		call, ok := n.(*ast.CallExpr)
		if !ok || f.CalleeID(call) != "internal/metrics.(*Store).Range" || len(call.Args) != 1 {
			return true
		}
		switch a := resolveLocal(f, call.Args[0]).(type) {
		case *ast.FuncLit:
			if lf := c.Prog.FuncOf[a]; lf != nil {
				out = append(out, lf)
			}
		default:
			if fo, ok := usedObj(f.Info(), a).(*types.Func); ok {
				if cf := c.Prog.ByObj[fo.Origin()]; cf != nil {
					out = append(out, cf)
				}
			}
		}
		return true
	})
	return out
}

func c12(c *core.Check) {
	c.Explain = "Decides structural necessary conditions of C12 on /repo's source: (R1) every Lock/RLock acquired in shipped code is released on every control-flow path to a normal exit of the acquiring function (go/cfg path search, defer-aware; pure lock/unlock helper functions of the module are followed and count as acquire/release at their call sites); (R2) after every spawn of a label-set emitter goroutine, every path to an exit of the spawning function observes the channel closed (end of `range ch`, the not-ok branch of `v, ok := <-ch`, or a callee that drains the channel the same way), so the emitter is never left blocked on its unbuffered send; (R3) the HTTP handlers test for client cancellation (non-blocking select on Done, or ctx.Err() != nil, in any branch shape or helper) before taking a metric lock; (R4) the emitter closes its channel on every exit, sends only on it, and neither it nor its callees take a lock (the caller's read lock is delegated to it; a nested RLock could deadlock against a waiting writer). It does not decide liveness of the network peer or the scheduler."
	c.Assume = append(c.Assume, "sync.Mutex/RWMutex semantics; a deferred Unlock runs on every exit; panics are not considered exits",
		"lock identity is the syntactic access path of the mutex owner inside one function; at a call of a lock/unlock helper the helper's receiver/parameter is replaced by the call's receiver/argument path",
		"a range over a channel ends only when the channel is closed; the ok result of a receive is false only when it is closed")

	c.Rule("C12-R1", "PAIR: for each acquire a of lock L in function f, no CFG path from a to a return/end of f avoids every release of L (same access path and mode; `defer` counts as release; a call of a module function that only releases / only acquires its receiver's or parameter's lock on every path counts as that release / acquire)")
	for _, k := range []string{"2", "3", "4"} {
		c.Exempt("C12-R1", "internal/metrics.(*Store).Add|RLock base=s.searchMu#1|exit=return#"+k,
			"infeasible path: the three error returns in the label-copy loop only fire on a label/key arity mismatch, and the loop is entered only after reflect.DeepEqual(v.Keys, m.Keys); every stored LabelValue has len(Labels)==len(Keys) by AppendLabelValue's guard (C08-R3/C09-R3)")
	}
	locks := newC12Locks(c)
	total := 0
	for _, f := range shipped(c) {
		n := locks.pairing("C12-R1", f)
		if n > 0 {
			c.Analysed(f)
		}
		total += n
	}
	c.Floor("C12-R1", 50)
	c.Extra["acquire_sites"] = total

	c.Rule("C12-R2", "DRAIN: for each goroutine started on m.EmitLabelSets(ch), every path of the spawning function from the spawn to a return/end observes ch closed (leaves `for … range ch` through its head, takes the not-ok branch of a receive, or passes a call that drains ch so): no return/break/goto out of the consumer, so the emitter always reaches close(ch); EmitLabelSets is never called synchronously on an unbuffered channel")
	spawns, syncCalls := emitterSpawnsAll(c)
	drain := &c12Drain{c: c, memo: map[string]bool{}, busy: map[string]bool{}}
	for _, s := range spawns {
		f := s.f
		c.Analysed(f)
		g := f.Graph()
		key := f.Key + "|go EmitLabelSets"
		if len(s.call.Args) != 1 {
			c.Undecided("C12-R2", key, pos(c, s.call), "unexpected arity")
			continue
		}
		ch := identObj(f.Info(), resolveAlias(f, s.call.Args[0]))
		if ch == nil {
			c.Undecided("C12-R2", key, pos(c, s.call), "channel argument is not a local identifier")
			continue
		}
		edge, consumers, nloops := drain.closedEdges(f, ch, 0)
		from := s.hit.P
		bad := 0
		for _, e := range normalExits(g) {
			trail, found := g.Search(core.Query{From: &from, Goal: core.At(e.P), Avoid: core.At(consumers...), AvoidEdge: edge})
			if !found {
				continue
			}
			bad++
			what := "the loop draining the emitter can be left early"
			if nloops == 0 && len(consumers) == 0 {
				what = fmt.Sprintf("no consumer of %s that runs until the channel is closed follows the spawn", ch.Name())
			}
			c.Fail("C12-R2", fmt.Sprintf("%s|early-exit#%d", key, bad), ppos(c, e.P, f),
				fmt.Sprintf("%s: %s is reached from the spawn without the channel having been seen closed, leaving the emitter goroutine blocked on send (and the metric read-locked)", what, e.String()), g.Trail(trail)...)
		}
		if bad == 0 {
			c.Ok("C12-R2", key, pos(c, s.call), fmt.Sprintf("every path from the spawn ends by channel close (%d range loops, %d draining callees)", nloops, len(consumers)))
		}
	}
	for _, s := range syncCalls {
		f := s.f
		key := f.Key + "|EmitLabelSets without go"
		unbuffered := false
		if len(s.call.Args) == 1 {
			if mk, ok := resolveLocal(f, s.call.Args[0]).(*ast.CallExpr); ok && f.CalleeID(mk) == "builtin.make" && len(mk.Args) == 1 {
				unbuffered = true
			}
		}
		if unbuffered {
			c.Fail("C12-R2", key, pos(c, s.call), "EmitLabelSets is called synchronously on an unbuffered channel: it blocks on its first send because no consumer runs concurrently")
		} else {
			c.Undecided("C12-R2", key, pos(c, s.call), "EmitLabelSets is called outside a go statement on a channel whose capacity is not known here")
		}
	}
	c.Floor("C12-R2", 4)

	c.Rule("C12-R3", "DOM: in the store-iteration callbacks of the HTTP text handlers (varz, graphite) every path to an acquire of the metric lock (direct, or through a callee that locks a metric) first finds the request context not cancelled by a non-blocking test (default branch of `select { case <-ctx.Done(): … default: }`, or ctx.Err() == nil), and no path from the cancelled outcome of such a test reaches the acquire")
	metricLockers := c.Prog.Reaching(func(f *core.Func) bool {
		for _, ev := range f.Graph().LockEvents() {
			if !ev.Acquire {
				continue
			}
			if t := f.Info().TypeOf(core.RecvExpr(ev.Call)); t != nil && strings.HasSuffix(strings.TrimPrefix(t.String(), "*"), "internal/metrics.Metric") {
				return true
			}
		}
		return false
	})
	for _, hk := range []string{"internal/exporter.(*Exporter).HandleVarz", "internal/exporter.(*Exporter).HandleGraphite"} {
		hf := c.MustFn("C12-R3", hk)
		if hf == nil {
			continue
		}
		cbs := rangeCallbacks(c, hf)
		if len(cbs) != 1 {
			c.Undecided("C12-R3", hk, pos(c, hf.Decl), fmt.Sprintf("expected one callback passed to Store.Range, found %d", len(cbs)))
			continue
		}
		f := cbs[0]
		c.Analysed(f)
		key := f.Key
		g := f.Graph()
		type acqPt struct {
			p    core.Point
			name string
			n    ast.Node
		}
		var acq []acqPt
		for _, ev := range locks.events(f) {
			if ev.Acquire {
				acq = append(acq, acqPt{ev.P, fmt.Sprintf("%s#%d", ev.Path, ev.Ordinal), ev.Call})
			}
		}
		ncall := 0
		for _, h := range g.Find(func(n ast.Node) bool { _, ok := n.(*ast.CallExpr); return ok }) {
			call := h.N.(*ast.CallExpr)
			if cf := f.CalleeFunc(call); cf != nil && metricLockers[cf] && len(locks.summary(cf)) == 0 {
				ncall++
				acq = append(acq, acqPt{h.P, fmt.Sprintf("call %s#%d", cf.Key, ncall), call})
			}
		}
		_, _, blocking := c12SelectEdges(f, true)
		for _, sel := range blocking {
			c.Fail("C12-R3", key+"|blocking test", pos(c, sel), "the cancellation test is a select on Done without a default clause: the export of every metric blocks until the client goes away")
		}
		if len(acq) == 0 {
			if len(blocking) == 0 {
				c.Undecided("C12-R3", key, pos(c, f.Body), "no lock acquire found in the callback or its callees")
			}
			continue
		}
		okEdge := c12CancelGuard(true).edges(f, nil, 0)
		badEdge := c12CancelGuard(false).edges(f, nil, 0)
		tested := guardedAnywhere(g, okEdge)
		if !tested && len(blocking) == 0 && c12MentionsCtx(f) {
			c.Undecided("C12-R3", key+"|test shape", pos(c, f.Body), "the callback (or a function it calls) uses ctx.Done()/ctx.Err() but not as a recognised non-blocking cancellation test")
			continue
		}
		for _, a := range acq {
			trail, found := g.Search(core.Query{Goal: core.At(a.p), AvoidEdge: okEdge})
			c.Verdict(!found && tested, "C12-R3", fmt.Sprintf("%s|%s", key, a.name), pos(c, a.n),
				"cancellation test dominates the acquire", "the metric lock can be taken without first testing the request context for cancellation", g.Trail(trail)...)
		}
		// the cancelled outcome must not reach an acquire
		okRet := tested
		var tr0 []string
		for _, b := range g.C.Blocks {
			if !b.Live {
				continue
			}
			for si := range b.Succs {
				if !badEdge(b, si) {
					continue
				}
				var goals []core.Point
				for _, a := range acq {
					goals = append(goals, a.p)
				}
				start := core.Point{B: b.Succs[si], I: -1}
				if tr, found := g.Search(core.Query{From: &start, Goal: core.At(goals...)}); found {
					okRet = false
					tr0 = g.Trail(tr)
				}
			}
		}
		c.Verdict(okRet, "C12-R3", key+"|done-returns", pos(c, f.Body), "the cancelled outcome leaves before any lock", "the clause selected on cancellation does not return: the lock is taken for a client that has gone away", tr0...)
	}

	c.Rule("C12-R4", "EMITTER: EmitLabelSets closes its channel parameter on every exit, sends only on that channel, and acquires no lock, directly or through a module callee (it runs under the spawner's delegated read lock)")
	if f := c.MustFn("C12-R4", emitLabelSets); f != nil {
		g := f.Graph()
		chp := paramAt(f, 0)
		closes := g.Calls(func(id string, call *ast.CallExpr) bool {
			return id == "builtin.close" && len(call.Args) == 1 && chp != nil && identObj(f.Info(), resolveAlias(f, call.Args[0])) == chp
		})
		// a deferred literal that closes the channel counts at its defer statement
		for _, h := range g.Find(func(n ast.Node) bool { _, ok := n.(*ast.DeferStmt); return ok }) {
			if lit, ok := core.Unparen(h.N.(*ast.DeferStmt).Call.Fun).(*ast.FuncLit); ok {
				ast.Inspect(lit.Body, func(x ast.Node) bool {
					if call, ok := x.(*ast.CallExpr); ok && f.CalleeID(call) == "builtin.close" && len(call.Args) == 1 && identObj(f.Info(), call.Args[0]) == chp && chp != nil {
						closes = append(closes, h)
					}
					return true
				})
			}
		}
		bad := false
		for _, e := range g.Exits() {
			if e.Kind == "panic" {
				continue
			}
			if trail, found := g.Search(core.Query{Goal: core.At(e.P), Avoid: core.At(core.HitPoints(closes)...)}); found {
				bad = true
				c.Fail("C12-R4", emitLabelSets+"|close|exit="+e.String(), ppos(c, e.P, f), "an exit of the emitter does not close the channel: the consumer's range never ends and the metric stays read-locked", g.Trail(trail)...)
			}
		}
		if !bad {
			c.Ok("C12-R4", emitLabelSets+"|close", pos(c, f.Decl), "channel closed on every exit")
		}
		for i, h := range g.Find(func(n ast.Node) bool { _, ok := n.(*ast.SendStmt); return ok }) {
			ss := h.N.(*ast.SendStmt)
			if identObj(f.Info(), resolveAlias(f, ss.Chan)) != chp || chp == nil {
				c.Fail("C12-R4", fmt.Sprintf("%s|send#%d", emitLabelSets, i+1), pos(c, ss), "the emitter sends on a channel other than the one its consumer drains: nobody is bound to receive, the emitter can block forever under the delegated read lock")
			}
		}
		nlock := 0
		for _, ev := range g.LockEvents() {
			if ev.Acquire {
				nlock++
				c.Fail("C12-R4", fmt.Sprintf("%s|acquires %s:%s", emitLabelSets, ev.Path, ev.Mode), pos(c, ev.Call), "the emitter takes a lock while its spawner already holds the metric's read lock: with a writer waiting, a nested RLock blocks forever")
			}
		}
		anyLocker := c.Prog.Reaching(func(lf *core.Func) bool {
			for _, ev := range lf.Graph().LockEvents() {
				if ev.Acquire {
					return true
				}
			}
			for _, l := range lf.Lits {
				for _, ev := range l.Graph().LockEvents() {
					if ev.Acquire {
						return true
					}
				}
			}
			return false
		})
		ast.Inspect(f.Body, func(n ast.Node) bool {
			if call, ok := n.(*ast.CallExpr); ok {
				if cf := f.CalleeFunc(call); cf != nil && cf != f && anyLocker[cf] {
					nlock++
					c.Fail("C12-R4", fmt.Sprintf("%s|acquires through %s", emitLabelSets, cf.Key), pos(c, call), "the emitter calls a function that takes a lock while its spawner already holds the metric's read lock: with a writer waiting, a nested RLock blocks forever")
				}
			}
			return true
		})
		if nlock == 0 {
			c.Ok("C12-R4", emitLabelSets+"|lock-free", pos(c, f.Decl), "no lock acquired in the emitter or its callees")
		}
	}
}
