package props

import (
	"fmt"
	"go/ast"
	"go/types"
	"strings"

	"verif/sa/core"
)

// Extra C09 rules (own file; they run after the main rules).
func init() { register("C09", c09Extra) }

func c09Extra(c *core.Check) {
	pkg := c.Prog.Pkgs["internal/metrics"]
	get := c.Prog.Fn(mGetDatum)
	remAPI := c.Prog.Fn(mRemove)
	if pkg == nil || get == nil || remAPI == nil {
		c.Undecided("C09-R6", "anchors", "-", "internal/metrics, GetDatum or RemoveDatum not found")
		return
	}
	// ---------------------------------------------------------------- R6
	c.Rule("C09-R6", "REMOVAL-PRIMITIVE-COMPLETE: every Metric field that can hold a label value and is written when one is looked up or inserted is also written by the removal PRIMITIVE (the function that splices the slice) or by every function that calls it — clearing it in one public wrapper leaves the other ways of removing (GC expiry, limit eviction) with a stale reference")
	prim := findInClosure(remAPI, splicesLabelValues)
	if prim == nil {
		c.Undecided("C09-R6", mRemove, pos(c, remAPI.Decl), "removal primitive not found")
	} else {
		c.Analysed(prim, get)
		st, _ := pkg.Types.Scope().Lookup("Metric").Type().Underlying().(*types.Struct)
		insW := mergedFieldWrites(get)
		if app := c.Prog.Fn(mAppend); app != nil {
			for k, v := range mergedFieldWrites(app) {
				insW[k] = append(insW[k], v...)
			}
		}
		primW := metricFieldWrites(prim)
		// callers of the primitive
		var callers []*core.Func
		for _, f := range shipped(c) {
			if f.Lit != nil || f == prim {
				continue
			}
			for _, cf := range f.Callees() {
				if cf == prim {
					callers = append(callers, f)
				}
			}
		}
		n := 0
		for i := 0; st != nil && i < st.NumFields(); i++ {
			fl := st.Field(i)
			if !strings.Contains(fl.Type().String(), "metrics.LabelValue") {
				continue
			}
			k := "Metric." + fl.Name()
			if _, wi := insW[k]; !wi {
				continue
			}
			n++
			if _, ok := primW[k]; ok {
				c.Ok("C09-R6", "field "+fl.Name(), pos(c, prim.Decl), "written by the removal primitive "+prim.Key)
				continue
			}
			var missing []string
			for _, cf := range callers {
				if _, ok := metricFieldWrites(cf)[k]; !ok {
					missing = append(missing, cf.Key)
				}
			}
			c.Verdict(len(missing) == 0 && len(callers) > 0, "C09-R6", "field "+fl.Name(), pos(c, prim.Decl), "written by every caller of the removal primitive", fmt.Sprintf("Metric.%s is updated on lookup/insertion but neither by the removal primitive %s nor by its callers %s: after a removal through those (GC expiry, limit eviction) it still refers to the removed label value — the next lookup of that tuple returns the detached datum, its updates are lost and the tuple is not enumerated", fl.Name(), prim.Key, strings.Join(missing, ", ")))
		}
		if n == 0 {
			c.Undecided("C09-R6", "fields", "-", "no label-value field written on insertion found")
		}
	}
	c.Floor("C09-R6", 2)

	// ---------------------------------------------------------------- R7
	c.Rule("C09-R7", "LOOKUP-INSERT-ATOMIC: in GetDatum the lookup that found the tuple absent and the insertion happen under one uninterrupted hold of the metric's WRITE lock: a lookup under the read lock (or a lock released in between) lets two callers both miss and both insert, and the tuple is listed twice")
	{
		g := get.Graph()
		recv := recvIdent(get)
		inserts := g.Calls(func(id string, call *ast.CallExpr) bool {
			cf := get.CalleeFunc(call)
			if cf == nil {
				return false
			}
			return cf.Key == mAppend
		})
		lookups := g.Calls(func(id string, call *ast.CallExpr) bool { return id == mFind })
		// direct map lookups count as lookups too
		lookups = append(lookups, g.Find(func(n ast.Node) bool {
			ix, ok := n.(*ast.IndexExpr)
			if !ok {
				return false
			}
			sel, ok := core.Unparen(ix.X).(*ast.SelectorExpr)
			return ok && sel.Sel.Name == "labelValuesMap"
		})...)
		if len(inserts) == 0 || len(lookups) == 0 {
			c.Undecided("C09-R7", mGetDatum, pos(c, get.Decl), fmt.Sprintf("%d insertions and %d lookups recognised in GetDatum", len(inserts), len(lookups)))
		} else {
			hold := g.MustHold()
			for i, ins := range inserts {
				key := fmt.Sprintf("%s|insert#%d", mGetDatum, i+1)
				if !core.Holds(hold.At(ins.P), recv, "W") {
					c.Fail("C09-R7", key, pos(c, ins.N), "the insertion is not made under the metric's write lock")
					continue
				}
				// some lookup L: W held at L, and no release of recv's lock on any path L -> insert
				var releases []core.Point
				for _, ev := range g.LockEvents() {
					if !ev.Acquire && !ev.Deferred && ev.Path == recv {
						releases = append(releases, ev.P)
					}
				}
				okAny := false
				why := "no lookup precedes the insertion"
				for _, lk := range lookups {
					from := lk.P
					if _, reach := pathAvoiding(g, &from, []core.Point{ins.P}, nil); !reach {
						continue
					}
					if !core.Holds(hold.At(lk.P), recv, "W") {
						why = "the lookup at " + pos(c, lk.N) + " runs without the write lock (held there: " + core.SetString(hold.At(lk.P)) + ")"
						continue
					}
					// every path from lookup to insert avoids releases?
					bad := false
					for _, r := range releases {
						fr := lk.P
						if _, viaR := pathAvoiding(g, &fr, []core.Point{r}, []core.Point{ins.P}); viaR {
							rr := r
							if _, toIns := pathAvoiding(g, &rr, []core.Point{ins.P}, nil); toIns {
								bad = true
								why = "the metric's lock is released at " + ppos(c, r, get) + " between the lookup and the insertion"
							}
						}
					}
					if !bad {
						okAny = true
					}
				}
				c.Verdict(okAny, "C09-R7", key, pos(c, ins.N), "lookup and insertion under one hold of the write lock", "a label value is inserted although the lookup that found it absent was not made under the same hold of the metric's write lock ("+why+"): two goroutines asking for the same missing tuple both miss and both insert — the tuple is stored twice, one caller's updates go to an entry that can no longer be found, expired or deleted")
			}
		}
	}
	c.Floor("C09-R7", 1)
}
