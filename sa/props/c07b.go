package props

import (
	"fmt"
	"go/ast"
	"go/types"
	"strings"

	"verif/sa/core"
)

// Extra C07 rule (own file).
func init() { register("C07", c07OptionWiring) }

// c07OptionWiring: the time zone and the current-year option reach the VM
// exactly as configured.  The Runtime fields handed to vm.New as `loc` and
// `syslogUseCurrentYear` are each assigned in one option function only,
// unconditionally, and from that option's own parameter (or the constant
// true); vm.New stores them in the VM unchanged.
func c07OptionWiring(c *core.Check) {
	c.Rule("C07-R5", "OPTION-WIRING: each Runtime field passed to vm.New as the location / current-year argument is assigned in exactly one place in shipped code, unconditionally, the location from the option's own parameter and the flag from the constant true; vm.New stores its parameters in the fields ParseTime reads — a configured zone that is silently dropped or replaced makes strptime follow the host's zone")
	car := c.Prog.Fn("internal/runtime.(*Runtime).CompileAndRun")
	vnew := c.Prog.Fn("internal/runtime/vm.New")
	if car == nil || vnew == nil {
		c.Undecided("C07-R5", "anchors", "-", "CompileAndRun or vm.New not found")
		return
	}
	c.Analysed(car, vnew)
	info := car.Info()
	// parameters of vm.New by type
	var locIdx, yearIdx = -1, -1
	idx := 0
	for _, fl := range vnew.Type.Params.List {
		for _, nm := range fl.Names {
			t := vnew.Info().TypeOf(fl.Type)
			if t != nil && strings.HasSuffix(t.String(), "time.Location") {
				locIdx = idx
			}
			if strings.Contains(strings.ToLower(nm.Name), "year") {
				yearIdx = idx
			}
			idx++
		}
	}
	if locIdx < 0 || yearIdx < 0 {
		c.Undecided("C07-R5", "vm.New parameters", pos(c, vnew.Decl), "location / current-year parameters not recognised")
		return
	}
	var call *ast.CallExpr
	ast.Inspect(car.Body, func(n ast.Node) bool {
		if cl, ok := n.(*ast.CallExpr); ok && car.CalleeFunc(cl) == vnew {
			call = cl
		}
		return true
	})
	if call == nil {
		c.Undecided("C07-R5", "vm.New call", pos(c, car.Decl), "CompileAndRun does not call vm.New")
		return
	}
	fieldOfArg := func(i int) *types.Var {
		sel, ok := core.Unparen(call.Args[i]).(*ast.SelectorExpr)
		if !ok {
			return nil
		}
		if s := info.Selections[sel]; s != nil && s.Kind() == types.FieldVal {
			return s.Obj().(*types.Var)
		}
		return nil
	}
	for _, spec := range []struct {
		idx      int
		what     string
		constant bool
	}{{locIdx, "location", false}, {yearIdx, "current-year flag", true}} {
		fv := fieldOfArg(spec.idx)
		key := "vm.New argument " + spec.what
		if fv == nil {
			c.Undecided("C07-R5", key, pos(c, call), "the argument is not a field of the Runtime")
			continue
		}
		// every assignment to the field in shipped code
		type site struct {
			f  *core.Func
			as *ast.AssignStmt
		}
		var sites []site
		for _, f := range shipped(c) {
			finfo := f.Info()
			core.InspectNoLit(f.Body, func(n ast.Node) bool {
				if lit, ok := n.(*ast.FuncLit); ok && lit != f.Lit {
					return false
				}
				as, ok := n.(*ast.AssignStmt)
				if !ok {
					return true
				}
				for _, l := range as.Lhs {
					if sel, ok := core.Unparen(l).(*ast.SelectorExpr); ok {
						if s := finfo.Selections[sel]; s != nil && s.Obj() == fv {
							sites = append(sites, site{f, as})
						}
					}
				}
				return true
			})
		}
		if len(sites) != 1 {
			c.Verdict(false, "C07-R5", key, pos(c, call), "", fmt.Sprintf("Runtime.%s, which becomes the VM's %s, is assigned in %d places: the configured value can be replaced on the way to the VM", fv.Name(), spec.what, len(sites)))
			continue
		}
		st := sites[0]
		// unconditional inside its function
		uncond := len(st.f.EnclosingIfs(st.as.Pos())) == 0
		in := false
		core.InspectNoLit(st.f.Body, func(n ast.Node) bool {
			switch x := n.(type) {
			case *ast.SwitchStmt, *ast.TypeSwitchStmt, *ast.ForStmt, *ast.RangeStmt, *ast.SelectStmt:
				if x.Pos() <= st.as.Pos() && st.as.End() <= x.End() {
					in = true
				}
			}
			return true
		})
		uncond = uncond && !in
		// also: no return before it on some path
		g := st.f.Graph()
		if p, ok := g.PointOf(st.as); ok {
			for _, e := range normalExits(g) {
				if _, skip := pathAvoiding(g, nil, []core.Point{e.P}, []core.Point{p}); skip {
					uncond = false
				}
			}
		}
		okVal := false
		rhs := st.as.Rhs[0]
		if spec.constant {
			v, isC := constBool(st.f.Info(), rhs)
			okVal = isC && v
		} else {
			// the option function's own parameter
			o := identObj(st.f.Info(), rhs)
			for fn := st.f; fn != nil && o != nil; fn = fn.Parent {
				if _, isP := c11ParamIndex(fn, o); isP {
					okVal = true
					// the parameter itself must not be overwritten on the way
					ast.Inspect(fn.Body, func(n ast.Node) bool {
						if as, ok := n.(*ast.AssignStmt); ok {
							for _, l := range as.Lhs {
								if identObj(fn.Info(), l) == o {
									okVal = false
								}
							}
						}
						return true
					})
				}
			}
		}
		c.Verdict(uncond && okVal, "C07-R5", key, pos(c, st.as), "assigned once, unconditionally, from the configured value", fmt.Sprintf("Runtime.%s, which becomes the VM's %s, is not set unconditionally from the configured value (unconditional=%v, value ok=%v): e.g. a configured zone of UTC that is dropped makes ParseTime use time.Parse, which resolves zone abbreviations against the host's local zone", fv.Name(), spec.what, uncond, okVal))
	}
	// vm.New stores the parameters unchanged
	{
		vinfo := vnew.Info()
		ps := c23Params(vnew)
		stored := map[int]bool{}
		ast.Inspect(vnew.Body, func(n ast.Node) bool {
			kv, ok := n.(*ast.KeyValueExpr)
			if !ok {
				return true
			}
			o := identObj(vinfo, kv.Value)
			for i, p := range ps {
				if o != nil && o == p {
					stored[i] = true
				}
			}
			return true
		})
		c.Verdict(stored[locIdx] && stored[yearIdx], "C07-R5", "vm.New stores loc and year flag", pos(c, vnew.Decl), "both parameters are stored in the VM literal", "vm.New does not store its location / current-year parameters in the VM it builds")
	}
	c.Floor("C07-R5", 3)
}
