package props

import (
	"go/ast"
	"go/types"
	"strings"

	"verif/sa/core"
)

// Extra memo rule shared by C05 and C07 (kept in its own file; it runs after
// the main rules of each property on the same Check).
func init() {
	register("C05", func(c *core.Check) { memoSymmetry(c, "C05-R3") })
	register("C07", func(c *core.Check) { memoSymmetry(c, "C07-R4") })
}

// memoSymmetry: what a hit hands out must be what a miss hands out.  For
// every `if cached, ok := cache.Get(k); !ok { v := f(…); cache.Add(k, v); X = E1 } else { X = E2 }`
// (either branch order) the value assigned to the same destination X must be
// the memoised value itself on both branches, or the same function applied to
// it on both: E1 = g(v) and E2 = g(cached) with the same g.
func memoSymmetry(c *core.Check, rule string) {
	c.Rule(rule, "MEMO-SYMMETRY: on a cache miss and on a cache hit the destination receives the same function of the memoised value: a post-processing step applied only after the parse (or only to the cached value) makes the result depend on whether the same input was seen before")
	exe := c.Prog.Fn(vmExecute)
	if exe == nil {
		c.Undecided(rule, vmExecute, "-", "execute not found")
		return
	}
	info := exe.Info()
	n := 0
	ast.Inspect(exe.Body, func(nd ast.Node) bool {
		is, ok := nd.(*ast.IfStmt)
		if !ok || is.Init == nil || is.Else == nil {
			return true
		}
		as, ok := is.Init.(*ast.AssignStmt)
		if !ok || len(as.Lhs) != 2 || len(as.Rhs) != 1 {
			return true
		}
		gc, ok := core.Unparen(as.Rhs[0]).(*ast.CallExpr)
		if !ok || !strings.HasSuffix(exe.CalleeID(gc), "lru.(*Cache).Get") {
			return true
		}
		cachedObj := identObj(info, as.Lhs[0])
		okObj := identObj(info, as.Lhs[1])
		// which branch is the miss?
		missBody, hitBody := is.Body, is.Else
		switch cnd := core.Unparen(is.Cond).(type) {
		case *ast.UnaryExpr:
			if identObj(info, cnd.X) != okObj {
				return true
			}
		case *ast.Ident:
			if identObj(info, cnd) != okObj {
				return true
			}
			hb, isBlock := is.Else.(*ast.BlockStmt)
			if !isBlock {
				return true
			}
			missBody, hitBody = hb, is.Body
		default:
			return true
		}
		n++
		key := core.PathOf(core.RecvExpr(gc)) + " lookup#" + string(rune('0'+n))
		// the memoised value on the miss branch: second argument of Add
		var memo types.Object
		ast.Inspect(missBody, func(m ast.Node) bool {
			if call, ok := m.(*ast.CallExpr); ok && strings.HasSuffix(exe.CalleeID(call), "lru.(*Cache).Add") && len(call.Args) == 2 {
				memo = identObj(info, call.Args[1])
			}
			return true
		})
		if memo == nil {
			c.Undecided(rule, key, pos(c, is), "the value stored by Add on the miss branch is not a local variable")
			return true
		}
		// assignments to non-local destinations (fields) on each branch, normalised with the memo variable replaced by "$"
		norm := func(body ast.Node, val types.Object) map[string]string {
			out := map[string]string{}
			ast.Inspect(body, func(m ast.Node) bool {
				a, ok := m.(*ast.AssignStmt)
				if !ok || len(a.Lhs) != 1 || len(a.Rhs) != 1 {
					return true
				}
				if _, isSel := core.Unparen(a.Lhs[0]).(*ast.SelectorExpr); !isSel {
					return true
				}
				uses := false
				ast.Inspect(a.Rhs[0], func(x ast.Node) bool {
					if id, ok := x.(*ast.Ident); ok && info.Uses[id] == val {
						uses = true
					}
					return true
				})
				if !uses {
					return true
				}
				s := exprStr(a.Rhs[0])
				// strip a type assertion on the cached interface value
				s = strings.ReplaceAll(s, val.Name()+".(time.Time)", val.Name())
				out[core.PathOf(a.Lhs[0])] = strings.ReplaceAll(nospace(s), val.Name(), "$")
				return true
			})
			return out
		}
		miss := norm(missBody, memo)
		hit := norm(hitBody, cachedObj)
		if len(miss) == 0 || len(hit) == 0 {
			c.Undecided(rule, key, pos(c, is), "no destination receives the memoised value on one of the branches")
			return true
		}
		okAll := true
		detail := ""
		for dst, e1 := range miss {
			e2, has := hit[dst]
			if !has || e1 != e2 {
				okAll = false
				detail = dst + " receives " + e1 + " on a miss but " + e2 + " on a hit ($ = the memoised value)"
			}
		}
		c.Verdict(okAll, rule, key, pos(c, is), "hit and miss hand out the same function of the memoised value", "the result of the memoised operation differs between the first and a repeated evaluation of the same input: "+detail+" — e.g. the current-year replacement of a yearless timestamp is applied when the text is parsed but not when it is served from the memo, so the second line with the same timestamp is stamped in year 0")
		return true
	})
	if n == 0 {
		c.Note(rule, "no memo lookup", "-", "no `if v, ok := cache.Get(k)` found in execute")
	}
}

func init() { register("C05", c05DiagnosticBranch) }

// c05DiagnosticBranch: the text of the last runtime error survives from line
// to line (it is shown on the status page).  It may be written and logged
// while a line is processed, but no branch taken during line processing may
// depend on it, or what a line does depends on which error an earlier line
// raised.
func c05DiagnosticBranch(c *core.Check) {
	c.Rule("C05-R4", "DIAGNOSTIC-IS-WRITE-ONLY: in every function of package vm reachable from ProcessLogLine, the VM's stored runtime-error text is never part of a condition (if, switch, for, or a comparison): it is diagnostic output, not state")
	pll := c.Prog.Fn("internal/runtime/vm.(*VM).ProcessLogLine")
	if pll == nil {
		c.Undecided("C05-R4", "ProcessLogLine", "-", "ProcessLogLine not found")
		return
	}
	n := 0
	for _, f := range closureFrom(pll) {
		if core.Rel(f.Pkg.PkgPath) != "internal/runtime/vm" {
			continue
		}
		info := f.Info()
		mentions := func(e ast.Node) ast.Node {
			var hit ast.Node
			if e == nil {
				return nil
			}
			ast.Inspect(e, func(x ast.Node) bool {
				if sel, ok := x.(*ast.SelectorExpr); ok && sel.Sel.Name == "runtimeError" {
					if s := info.Selections[sel]; s != nil && strings.HasSuffix(s.Recv().String(), "vm.VM") {
						hit = sel
					}
				}
				return hit == nil
			})
			return hit
		}
		ast.Inspect(f.Body, func(x ast.Node) bool {
			var cond ast.Node
			switch s := x.(type) {
			case *ast.IfStmt:
				cond = s.Cond
			case *ast.SwitchStmt:
				if s.Tag != nil {
					cond = s.Tag
				}
			case *ast.ForStmt:
				if s.Cond != nil {
					cond = s.Cond
				}
			case *ast.CaseClause:
				for _, e := range s.List {
					if h := mentions(e); h != nil {
						cond = e
					}
				}
			}
			if cond == nil {
				return true
			}
			n++
			if h := mentions(cond); h != nil {
				c.Analysed(f)
				c.Fail("C05-R4", f.Key+"|branch on the stored error text", pos(c, h), "a branch taken while a line is processed depends on the text of the previous runtime error: whether this line's error is recorded, logged or stops the line depends on what an earlier line did (e.g. a repeated identical error no longer sets the stop flag, so the rest of the line runs)")
			}
			return true
		})
	}
	c.Ok("C05-R4", "conditions examined", "-", "no condition under ProcessLogLine mentions the stored runtime-error text")
	c.Extra["conditions_examined_under_ProcessLogLine"] = n
}
