package props

// Guard analysis shared by C12, C25 and C26: which control-flow edges are only
// taken when a fact P holds ("the base name is not a dot-file", "the request
// is not cancelled", "the lookup succeeded").  A fact is given by an atom
// classifier over atomic boolean expressions; this file supplies the
// structure around it, so that a rule does not depend on how a test is
// spelled:
//
//   - if / else-if / tagless switch / tagged switch (`switch x { case c: }`
//     is read as x == c), either branch order;
//   - !, &&, || and parentheses (short-circuit reading);
//   - a test kept in a local boolean (`hidden := strings.HasPrefix(..)`);
//   - a test moved into a boolean helper function or method of the module
//     (`if !eligible(name) { return nil }`), whose body is analysed the same
//     way with the caller's arguments substituted for its parameters.
//
// Everything is resolved through go/types objects; no identifier names of
// locals, receivers or parameters are compared.

import (
	"go/ast"
	"go/token"
	"go/types"

	"golang.org/x/tools/go/cfg"

	"verif/sa/core"
)

// roleFn names the role an expression plays for a guard ("" = none), e.g.
// "path" for the pathname parameter and "base" for filepath.Base of it.
type roleFn func(f *core.Func, e ast.Expr) string

// guardSpec describes one fact P.
type guardSpec struct {
	// root gives the role of an identifier that is not a single-definition local
	// (parameters, loop variables).  May be nil.
	root roleFn
	// derive gives the role of a compound expression from the roles of its
	// parts (e.g. filepath.Base(path) -> base).  May be nil.
	derive func(f *core.Func, e ast.Expr, role func(ast.Expr) string) string
	// atom classifies an atomic boolean expression: whenTrue = (e is true
	// implies P), whenFalse = (e is false implies P).
	atom func(f *core.Func, e ast.Expr, role func(ast.Expr) string) (whenTrue, whenFalse bool)
	// extra, if set, names further edges of f taken only when P holds that are
	// not decided by a boolean condition (e.g. the clauses of a select).
	extra func(f *core.Func) func(b *cfg.Block, si int) bool
}

type guard struct {
	spec guardSpec
	tags map[*core.Func]map[ast.Expr]ast.Expr // case expression -> switch tag
	memo map[string][2]bool
	busy map[string]bool
}

func newGuard(spec guardSpec) *guard {
	return &guard{spec: spec, tags: map[*core.Func]map[ast.Expr]ast.Expr{}, memo: map[string][2]bool{}, busy: map[string]bool{}}
}

// singleDef returns the defining expression of a local variable that is
// defined exactly once in the enclosing declaration (by `x := e`, `x = e` with
// a single assignment, or `var x = e`) and never assigned again, incremented,
// or written through its address; nil otherwise (parameters, loop variables,
// multi-value definitions, reassigned variables).
func singleDef(f *core.Func, obj types.Object) ast.Expr {
	if obj == nil || f == nil || f.Decl == nil || f.Decl.Body == nil {
		return nil
	}
	if _, isVar := obj.(*types.Var); !isVar {
		return nil
	}
	info := f.Info()
	var def ast.Expr
	n := 0
	ast.Inspect(f.Decl.Body, func(x ast.Node) bool {
		switch s := x.(type) {
		case *ast.AssignStmt:
			for i, l := range s.Lhs {
				if identObj(info, l) == obj {
					n++
					if len(s.Rhs) == len(s.Lhs) && (s.Tok == token.DEFINE || s.Tok == token.ASSIGN) {
						def = s.Rhs[i]
					} else {
						n++ // multi-value or op-assign: not a plain definition
					}
				}
			}
		case *ast.ValueSpec:
			for i, nm := range s.Names {
				if info.Defs[nm] == obj {
					n++
					if len(s.Values) == len(s.Names) {
						def = s.Values[i]
					} else if len(s.Values) != 0 {
						n++
					} else {
						n-- // `var x T` without value: the (single) later assignment defines it
					}
				}
			}
		case *ast.IncDecStmt:
			if identObj(info, s.X) == obj {
				n += 2
			}
		case *ast.RangeStmt:
			if identObj(info, s.Key) == obj || (s.Value != nil && identObj(info, s.Value) == obj) {
				n += 2
			}
		case *ast.UnaryExpr:
			if s.Op == token.AND && identObj(info, s.X) == obj {
				n += 2
			}
		}
		return true
	})
	if n != 1 {
		return nil
	}
	return def
}

// resolveLocal follows single-definition locals: the expression that defines
// e's value (e itself when it is not such a local).
func resolveLocal(f *core.Func, e ast.Expr) ast.Expr {
	for i := 0; i < 8; i++ {
		e = core.Unparen(e)
		id, ok := e.(*ast.Ident)
		if !ok {
			return e
		}
		d := singleDef(f, identObj(f.Info(), id))
		if d == nil {
			return e
		}
		e = d
	}
	return e
}

// resolveAlias follows single-definition locals only as long as the definition
// is itself an identifier (`ch2 := ch`): the variable e ultimately names.
func resolveAlias(f *core.Func, e ast.Expr) ast.Expr {
	for i := 0; i < 8; i++ {
		e = core.Unparen(e)
		id, ok := e.(*ast.Ident)
		if !ok {
			return e
		}
		d := singleDef(f, identObj(f.Info(), id))
		if d == nil {
			return e
		}
		if _, isID := core.Unparen(d).(*ast.Ident); !isID {
			return e
		}
		e = d
	}
	return e
}

// role computes the role of e in f under root.
func (gd *guard) role(f *core.Func, e ast.Expr, root roleFn) string {
	e = core.Unparen(e)
	if id, ok := e.(*ast.Ident); ok {
		if root != nil {
			if r := root(f, id); r != "" {
				return r
			}
		}
		if d := singleDef(f, identObj(f.Info(), id)); d != nil {
			return gd.role(f, d, root)
		}
		return ""
	}
	if root != nil {
		if r := root(f, e); r != "" {
			return r
		}
	}
	if gd.spec.derive != nil {
		return gd.spec.derive(f, e, func(x ast.Expr) string { return gd.role(f, x, root) })
	}
	return ""
}

// expr evaluates a boolean expression of f.
func (gd *guard) expr(f *core.Func, e ast.Expr, root roleFn, depth int) (wT, wF bool) {
	e = core.Unparen(e)
	switch x := e.(type) {
	case *ast.UnaryExpr:
		if x.Op == token.NOT {
			t, fl := gd.expr(f, x.X, root, depth)
			return fl, t
		}
	case *ast.BinaryExpr:
		switch x.Op {
		case token.LAND:
			at, af := gd.expr(f, x.X, root, depth)
			bt, bf := gd.expr(f, x.Y, root, depth)
			return at || bt, af && bf
		case token.LOR:
			at, af := gd.expr(f, x.X, root, depth)
			bt, bf := gd.expr(f, x.Y, root, depth)
			return at && bt, af || bf
		}
	case *ast.Ident:
		if d := singleDef(f, identObj(f.Info(), x)); d != nil {
			if t := f.Info().TypeOf(d); t != nil && isBool(t) {
				return gd.expr(f, d, root, depth)
			}
		}
	case *ast.CallExpr:
		if h := f.CalleeFunc(x); h != nil && h.Lit == nil && depth < 3 {
			if t, fl, ok := gd.helper(f, x, h, root, depth); ok {
				return t, fl
			}
		}
	}
	return gd.spec.atom(f, e, func(y ast.Expr) string { return gd.role(f, y, root) })
}

func isBool(t types.Type) bool {
	b, ok := t.Underlying().(*types.Basic)
	return ok && b.Info()&types.IsBoolean != 0
}

// paramRoot maps the roles of the arguments of call (made in f under root)
// onto the parameters and receiver of h.
func (gd *guard) paramRoot(f *core.Func, call *ast.CallExpr, h *core.Func, root roleFn) (roleFn, string) {
	roles := map[types.Object]string{}
	sig := ""
	hinfo := h.Info()
	if h.Decl.Recv != nil && len(h.Decl.Recv.List) == 1 && len(h.Decl.Recv.List[0].Names) == 1 {
		if rx := core.RecvExpr(call); rx != nil {
			if r := gd.role(f, rx, root); r != "" {
				roles[hinfo.Defs[h.Decl.Recv.List[0].Names[0]]] = r
				sig += "recv=" + r + ";"
			}
		}
	}
	i := 0
	for _, fl := range h.Type.Params.List {
		if _, variadic := fl.Type.(*ast.Ellipsis); variadic {
			break
		}
		if len(fl.Names) == 0 {
			i++
			continue
		}
		for _, nm := range fl.Names {
			if i < len(call.Args) {
				if r := gd.role(f, call.Args[i], root); r != "" {
					roles[hinfo.Defs[nm]] = r
					sig += nm.Name + "=" + r + ";"
				}
			}
			i++
		}
	}
	return func(hf *core.Func, e ast.Expr) string {
		if hf.Decl != h.Decl {
			return ""
		}
		o := identObj(hinfo, e)
		if o == nil {
			return ""
		}
		r, ok := roles[o]
		if !ok || assignedIn(h, o) {
			return ""
		}
		return r
	}, sig
}

// assignedIn reports whether obj is assigned anywhere in the declaration of f.
func assignedIn(f *core.Func, obj types.Object) bool {
	found := false
	ast.Inspect(f.Decl.Body, func(x ast.Node) bool {
		switch s := x.(type) {
		case *ast.AssignStmt:
			for _, l := range s.Lhs {
				if identObj(f.Info(), l) == obj {
					found = true
				}
			}
		case *ast.IncDecStmt:
			if identObj(f.Info(), s.X) == obj {
				found = true
			}
		case *ast.UnaryExpr:
			if s.Op == token.AND && identObj(f.Info(), s.X) == obj {
				found = true
			}
		}
		return !found
	})
	return found
}

// helper analyses a call of a boolean helper h of the module: result true
// implies P (wT), result false implies P (wF).
func (gd *guard) helper(f *core.Func, call *ast.CallExpr, h *core.Func, root roleFn, depth int) (wT, wF, ok bool) {
	if h.Type.Results == nil || len(h.Type.Results.List) != 1 || len(h.Type.Results.List[0].Names) > 1 {
		return false, false, false
	}
	if t := h.Info().TypeOf(h.Type.Results.List[0].Type); t == nil || !isBool(t) {
		return false, false, false
	}
	hroot, sig := gd.paramRoot(f, call, h, root)
	key := h.Key + "|" + sig
	if v, done := gd.memo[key]; done {
		return v[0], v[1], true
	}
	if gd.busy[key] {
		return false, false, true
	}
	gd.busy[key] = true
	defer delete(gd.busy, key)
	g := h.Graph()
	edge := gd.edges(h, hroot, depth+1)
	wT, wF = true, true
	for _, e := range normalExits(g) {
		if e.Kind != "return" || e.Ret == nil || len(e.Ret.Results) != 1 {
			wT, wF = false, false // named result / falls off the end: not read
			break
		}
		x := e.Ret.Results[0]
		xt, xf := gd.expr(h, x, hroot, depth+1)
		cv, isConst := constBool(h.Info(), x)
		_, open := g.Search(core.Query{Goal: core.At(e.P), AvoidEdge: edge})
		if !(isConst && !cv) && open && !xt {
			wT = false
		}
		if !(isConst && cv) && open && !xf {
			wF = false
		}
	}
	gd.memo[key] = [2]bool{wT, wF}
	return wT, wF, true
}

// caseTags maps the case expressions of the tagged switches of f to their tag.
func (gd *guard) caseTags(f *core.Func) map[ast.Expr]ast.Expr {
	if m, ok := gd.tags[f]; ok {
		return m
	}
	m := map[ast.Expr]ast.Expr{}
	core.InspectNoLit(f.Body, func(n ast.Node) bool {
		if sw, ok := n.(*ast.SwitchStmt); ok && sw.Tag != nil {
			for _, cl := range sw.Body.List {
				for _, e := range cl.(*ast.CaseClause).List {
					m[e] = sw.Tag
				}
			}
		}
		return true
	})
	gd.tags[f] = m
	return m
}

// condOf returns the boolean condition evaluated at the end of block b (the
// if/for/switch-case condition deciding between Succs[0] = true and Succs[1] =
// false), or nil.
func (gd *guard) condOf(f *core.Func, b *cfg.Block) ast.Expr {
	if len(b.Succs) != 2 || len(b.Nodes) == 0 || b.Kind == cfg.KindRangeLoop {
		return nil
	}
	e, ok := b.Nodes[len(b.Nodes)-1].(ast.Expr)
	if !ok {
		return nil
	}
	if tag, isCase := gd.caseTags(f)[e]; isCase {
		return &ast.BinaryExpr{X: tag, OpPos: e.Pos(), Op: token.EQL, Y: e}
	}
	if t := f.Info().TypeOf(e); t == nil || !isBool(t) {
		return nil
	}
	return e
}

// edges returns the predicate "this CFG edge of f is only taken when P holds".
func (gd *guard) edges(f *core.Func, root roleFn, depth int) func(b *cfg.Block, si int) bool {
	cache := map[*cfg.Block][2]bool{}
	var extra func(b *cfg.Block, si int) bool
	if gd.spec.extra != nil {
		extra = gd.spec.extra(f)
	}
	return func(b *cfg.Block, si int) bool {
		if extra != nil && extra(b, si) {
			return true
		}
		v, ok := cache[b]
		if !ok {
			if e := gd.condOf(f, b); e != nil {
				t, fl := gd.expr(f, e, root, depth)
				v = [2]bool{t, fl}
			}
			cache[b] = v
		}
		return (si == 0 && v[0]) || (si == 1 && v[1])
	}
}

// mentions reports whether any condition or boolean helper of f is classified
// by the guard at all (used to tell "test removed" from "test present in a
// shape outside the recognised family").
func guardedAnywhere(g *core.Graph, edge func(b *cfg.Block, si int) bool) bool {
	for _, b := range g.C.Blocks {
		if b.Live && len(b.Succs) == 2 && (edge(b, 0) || edge(b, 1)) {
			return true
		}
	}
	return false
}

// nilCompare recognises `x != nil`, `nil != x`, `x == nil`, `nil == x`: it
// returns x and whether the comparison is true when x is NOT nil.
func nilCompare(info *types.Info, e ast.Expr) (x ast.Expr, trueWhenNonNil, ok bool) {
	be, isB := core.Unparen(e).(*ast.BinaryExpr)
	if !isB || (be.Op != token.NEQ && be.Op != token.EQL) {
		return nil, false, false
	}
	switch {
	case isNilIdent(info, be.Y):
		x = be.X
	case isNilIdent(info, be.X):
		x = be.Y
	default:
		return nil, false, false
	}
	return x, be.Op == token.NEQ, true
}

// goBodies returns the functions f starts as goroutines: literals of
// `go func(){…}()` and the module functions of `go x.method(…)` / `go fn(…)`,
// with the go statement.
type goBody struct {
	Stmt *ast.GoStmt
	Fn   *core.Func
}

func goBodies(c *core.Check, f *core.Func) []goBody {
	var out []goBody
	core.InspectNoLit(f.Body, func(n ast.Node) bool {
		gs, ok := n.(*ast.GoStmt)
		if !ok {
			return true
		}
		if lit, ok := core.Unparen(gs.Call.Fun).(*ast.FuncLit); ok {
			if lf := c.Prog.FuncOf[lit]; lf != nil {
				out = append(out, goBody{gs, lf})
			}
		} else if cf := f.CalleeFunc(gs.Call); cf != nil {
			out = append(out, goBody{gs, cf})
		}
		return true
	})
	return out
}

// paramAt returns the object of the i-th parameter of f (counting unnamed ones), or nil.
func paramAt(f *core.Func, idx int) types.Object {
	i := 0
	for _, fl := range f.Type.Params.List {
		if len(fl.Names) == 0 {
			i++
			continue
		}
		for _, nm := range fl.Names {
			if i == idx {
				return f.Info().Defs[nm]
			}
			i++
		}
	}
	return nil
}

// paramIndexOf returns the index of the parameter of f that obj is, or -1.
func paramIndexOf(f *core.Func, obj types.Object) int {
	if obj == nil {
		return -1
	}
	i := 0
	for _, fl := range f.Type.Params.List {
		if len(fl.Names) == 0 {
			i++
			continue
		}
		for _, nm := range fl.Names {
			if f.Info().Defs[nm] == obj {
				return i
			}
			i++
		}
	}
	return -1
}

// recvObj returns the receiver variable of a method declaration, or nil.
func recvObj(f *core.Func) types.Object {
	if f.Decl == nil || f.Decl.Recv == nil || len(f.Decl.Recv.List) == 0 || len(f.Decl.Recv.List[0].Names) == 0 {
		return nil
	}
	return f.Info().Defs[f.Decl.Recv.List[0].Names[0]]
}

// fieldOf resolves a selector expression x.f to the struct field it denotes
// (nil for methods, package-qualified identifiers and non-selectors).
func fieldOf(info *types.Info, e ast.Expr) *types.Var {
	sel, ok := core.Unparen(e).(*ast.SelectorExpr)
	if !ok {
		return nil
	}
	if s := info.Selections[sel]; s != nil && s.Kind() == types.FieldVal {
		if v, ok := s.Obj().(*types.Var); ok {
			return v
		}
	}
	return nil
}

// structField finds the field called name of the struct type called typ in
// the package with the given module-relative path.
func structField(c *core.Check, pkgRel, typ, name string) *types.Var {
	pkg := c.Prog.Pkgs[pkgRel]
	if pkg == nil || pkg.Types == nil {
		return nil
	}
	o := pkg.Types.Scope().Lookup(typ)
	if o == nil {
		return nil
	}
	st, ok := o.Type().Underlying().(*types.Struct)
	if !ok {
		return nil
	}
	for i := 0; i < st.NumFields(); i++ {
		if st.Field(i).Name() == name {
			return st.Field(i)
		}
	}
	return nil
}

// pkgVar finds the package-level variable called name.
func pkgVar(c *core.Check, pkgRel, name string) types.Object {
	pkg := c.Prog.Pkgs[pkgRel]
	if pkg == nil || pkg.Types == nil {
		return nil
	}
	if v, ok := pkg.Types.Scope().Lookup(name).(*types.Var); ok {
		return v
	}
	return nil
}
