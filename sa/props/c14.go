package props

import (
	"fmt"
	"go/ast"
	"go/token"
	"go/types"
	"strings"

	"verif/sa/core"
)

func init() { register("C14", c14) }

const storeAdd = "internal/metrics.(*Store).Add"

func c14(c *core.Check) {
	c.Explain = "Decides structural necessary conditions of C14 in the loader and the metric store: (R1) the unchanged-contents test dominates compilation and its true branch changes nothing; (R2) no operation that ends or replaces the running version precedes a failing exit of the load; (R3) a struct copied field-by-field from an older value of the same type copies every field (pending expiry survives a reload); (R4) once one metric of the new version has been registered no failing exit is reachable; (R5) in Store.Add the only reasons to skip an existing same-name metric as 'not the previous version' are a different program — otherwise the old series stays next to the new one; (R6) the index used to remove the previous version is an index into the very slice it is removed from, and the removal is conditional on exactly that index having been set. All CFG paths of the current source are covered; what the compiler produces and label-copy semantics are not."
	c.Assume = append(c.Assume, "metric identity within one program is (name, program); Type/Source changes are edits of the same declaration")
	car := c.MustFn("C14-R1", compileAndRun)
	add := c.MustFn("C14-R3", storeAdd)
	if car == nil || add == nil {
		return
	}
	g := car.Graph()

	c.Rule("C14-R1", "UNCHANGED-FIRST: every path to the Compile call passes the `bytes.Equal(stored hash, new hash)` test; from its true branch no compile, store registration, handle change or counter is reachable")
	compiles := g.Calls(func(id string, _ *ast.CallExpr) bool { return strings.HasSuffix(id, "compiler.(*Compiler).Compile") })
	eqIfs := ifsWhere(car, func(is *ast.IfStmt) bool { return exprCalls(car, is.Cond, "bytes.Equal") })
	if len(compiles) == 0 || len(eqIfs) == 0 {
		c.Fail("C14-R1", compileAndRun, pos(c, car.Decl), fmt.Sprintf("compile calls: %d, unchanged-contents tests: %d — reloading identical source recompiles and restarts the program", len(compiles), len(eqIfs)))
	} else {
		var conds []core.Point
		for _, is := range eqIfs {
			if p, ok := g.PointOf(is.Cond); ok {
				conds = append(conds, p)
			}
		}
		tr, found := pathAvoiding(g, nil, core.HitPoints(compiles), conds)
		c.Verdict(!found, "C14-R1", compileAndRun+"|dominates", pos(c, compiles[0].N), "hash test before compile", "the program can be compiled (and then swapped in) without first testing whether its contents are unchanged: identical source restarts the VM", tr...)
		effects := append(append(core.HitPoints(compiles), core.HitPoints(g.CallsTo(storeAdd))...), core.HitPoints(mapStores(g, ".handles"))...)
		effects = append(effects, core.HitPoints(closesOf(g, ".lines"))...)
		for _, is := range eqIfs {
			if start, ok := branchStart(g, is, true); ok {
				tr, found := pathAvoiding(g, start, effects, nil)
				c.Verdict(!found, "C14-R1", compileAndRun+"|unchanged does nothing", pos(c, is), "no effect on the unchanged path", "the unchanged-contents branch still compiles, registers metrics or swaps the handle", tr...)
			}
			// the condition must require the handle to exist
			cond := strings.ReplaceAll(exprStr(is.Cond), " ", "")
			c.Verdict(strings.HasPrefix(cond, "ok&&") || strings.Contains(cond, "&&ok"), "C14-R1", compileAndRun+"|needs loaded", pos(c, is), "only for a loaded program", "the unchanged test does not require the program to be loaded")
		}
	}
	c.Floor("C14-R1", 3)

	c.Rule("C14-R2", "FAILURE-KEEPS-RUNNING: shared with C26-R3 — no handle-ending operation (close of lines, delete/store in r.handles, directly or via a callee) reaches a failing exit of CompileAndRun")
	{
		enders := handleEnders(c)
		ops := g.Find(func(n ast.Node) bool {
			switch x := n.(type) {
			case *ast.CallExpr:
				id := car.CalleeID(x)
				if id == "builtin.close" && len(x.Args) == 1 && strings.HasSuffix(core.PathOf(x.Args[0]), ".lines") {
					return true
				}
				if id == "builtin.delete" && strings.HasSuffix(core.PathOf(x.Args[0]), ".handles") {
					return true
				}
				if cf := car.CalleeFunc(x); cf != nil && enders[cf] && cf != car {
					return true
				}
			case *ast.AssignStmt:
				for _, l := range x.Lhs {
					if ix, ok := core.Unparen(l).(*ast.IndexExpr); ok && strings.HasSuffix(core.PathOf(ix.X), ".handles") {
						return true
					}
				}
			}
			return false
		})
		var errRets []core.Point
		for _, e := range normalExits(g) {
			if e.Kind == "return" && !returnsNil(car.Info(), e.Ret) {
				errRets = append(errRets, e.P)
			}
		}
		bad := false
		for i, o := range ops {
			from := o.P
			if tr, found := pathAvoiding(g, &from, errRets, nil); found {
				bad = true
				c.Fail("C14-R2", fmt.Sprintf("%s|op#%d", compileAndRun, i+1), pos(c, o.N), "the previous version is stopped or replaced before the load is known to succeed: a load refused afterwards leaves no version running while its metrics stay exported but frozen", tr...)
			}
		}
		if !bad {
			c.Ok("C14-R2", compileAndRun, pos(c, car.Decl), fmt.Sprintf("%d handle-ending operations, %d failing exits, none ordered badly", len(ops), len(errRets)))
		}
		if len(ops) == 0 {
			c.Undecided("C14-R2", compileAndRun+"|ops", pos(c, car.Decl), "no handle swap found")
		}
	}
	c.Floor("C14-R2", 1)

	c.Rule("C14-R3", "COPY-COMPLETE: a composite literal of a module struct type T in which some field f is initialised from X.f of another T value is a field-wise copy and must initialise every field of T (LabelValue: Labels, Value, Expiry)")
	ncopy := 0
	for _, sf := range shipped(c) {
		core.InspectNoLit(sf.Body, func(n ast.Node) bool {
			lit, ok := n.(*ast.CompositeLit)
			if !ok {
				return true
			}
			t := sf.Info().TypeOf(lit)
			if t == nil {
				return true
			}
			named, _ := t.(*types.Named)
			if named == nil || named.Obj().Pkg() == nil || !strings.HasPrefix(named.Obj().Pkg().Path(), core.ModPath) {
				return true
			}
			st, ok := named.Underlying().(*types.Struct)
			if !ok {
				return true
			}
			set := map[string]bool{}
			var srcs []string
			for _, el := range lit.Elts {
				kv, ok := el.(*ast.KeyValueExpr)
				if !ok {
					return true
				}
				fname := exprStr(kv.Key)
				set[fname] = true
				if sel, ok := core.Unparen(kv.Value).(*ast.SelectorExpr); ok && sel.Sel.Name == fname {
					xt := sf.Info().TypeOf(sel.X)
					if p, ok := xt.(*types.Pointer); ok {
						xt = p.Elem()
					}
					if types.Identical(xt, named) {
						srcs = append(srcs, core.PathOf(sel.X))
					}
				}
			}
			if len(srcs) == 0 {
				return true
			}
			ncopy++
			c.Analysed(sf)
			var missing []string
			for i := 0; i < st.NumFields(); i++ {
				if !set[st.Field(i).Name()] {
					missing = append(missing, st.Field(i).Name())
				}
			}
			key := fmt.Sprintf("%s|copy of %s from %s", sf.Key, named.Obj().Name(), srcs[0])
			c.Verdict(len(missing) == 0, "C14-R3", key, pos(c, lit), "all fields copied", "a "+named.Obj().Name()+" is rebuilt from an older one but field(s) "+strings.Join(missing, ", ")+" are dropped: state carried by them (a pending `del … after` expiry) is lost on reload")
			return true
		})
	}
	c.Floor("C14-R3", 1)

	c.Rule("C14-R4", "ATOMIC-REGISTRATION: in CompileAndRun, from the success branch of an r.ms.Add call no failing exit is reachable (otherwise the k-th refusal leaves k-1 metrics of the new version swapped into the store while the old version keeps running on orphaned metrics)")
	for i, h := range g.CallsTo(storeAdd) {
		call := h.N.(*ast.CallExpr)
		key := fmt.Sprintf("%s|ms.Add#%d", compileAndRun, i+1)
		is := enclosingErrIf(car, call)
		if is == nil {
			c.Fail("C14-R4", key, pos(c, call), "the result of Store.Add is not tested: a refused metric is ignored and the program runs with unexported metrics")
			continue
		}
		start, ok := branchStart(g, is, false)
		if !ok {
			c.Undecided("C14-R4", key, pos(c, is), "cannot locate the success branch")
			continue
		}
		var errRets []core.Point
		for _, e := range normalExits(g) {
			if e.Kind == "return" && !returnsNil(car.Info(), e.Ret) {
				errRets = append(errRets, e.P)
			}
		}
		tr, found := pathAvoiding(g, start, errRets, nil)
		c.Verdict(!found, "C14-R4", key, pos(c, call), "no failing exit after a successful registration", "after one metric of the new version has replaced its predecessor in the store the load can still fail (next Add refused): the export is no longer as it was and the still-running old version updates metrics that are no longer exported", tr...)
	}
	c.Floor("C14-R4", 1)

	// Store.Add
	ag := add.Graph()
	c.Rule("C14-R5", "ONE-PER-(NAME,PROGRAM): in Store.Add's scan for the previous version, every `continue` that skips a candidate before the duplicate index is set is guarded by a comparison of the Program fields only")
	c.Rule("C14-R6", "INDEX-COHERENT: the duplicate index is assigned only from the key of `range X`, the removal is `X = append(X[0:d], X[d+1:]...)` on the same X, it is guarded by `d >= 0`, and d starts at -1")
	var scan *ast.RangeStmt
	var dupe types.Object
	for _, rs := range rangeStmts(add) {
		core.InspectNoLit(rs.Body, func(n ast.Node) bool {
			if as, ok := n.(*ast.AssignStmt); ok && len(as.Lhs) == 1 && len(as.Rhs) == 1 {
				if identObj(add.Info(), as.Rhs[0]) != nil && identObj(add.Info(), as.Rhs[0]) == identObj(add.Info(), rs.Key) {
					if _, isIdent := as.Lhs[0].(*ast.Ident); isIdent && scan == nil {
						scan = rs
						dupe = identObj(add.Info(), as.Lhs[0])
					}
				}
			}
			return true
		})
	}
	if scan == nil || dupe == nil {
		c.Undecided("C14-R6", storeAdd+"|scan", pos(c, add.Decl), "no loop assigning its index to a duplicate-index variable found in Store.Add")
	} else {
		coll := exprStr(scan.X)
		mObj := paramObj(add, "m")
		// R5: continues before the dupe assignment
		var dupeAssign ast.Node
		core.InspectNoLit(scan.Body, func(n ast.Node) bool {
			if as, ok := n.(*ast.AssignStmt); ok && len(as.Lhs) == 1 && identObj(add.Info(), as.Lhs[0]) == dupe && dupeAssign == nil {
				dupeAssign = as
			}
			return true
		})
		nskip := 0
		for _, st := range scan.Body.List {
			if dupeAssign != nil && st.Pos() >= dupeAssign.Pos() {
				break
			}
			is, ok := st.(*ast.IfStmt)
			if !ok {
				continue
			}
			skips := false
			ast.Inspect(is.Body, func(n ast.Node) bool {
				if b, ok := n.(*ast.BranchStmt); ok && b.Tok == token.CONTINUE {
					skips = true
				}
				return true
			})
			if !skips {
				continue
			}
			nskip++
			fields := comparedFields(add, is.Cond, identObj(add.Info(), scan.Value), mObj)
			key := fmt.Sprintf("%s|skip on %s", storeAdd, strings.Join(fields, ","))
			onlyProgram := len(fields) == 1 && fields[0] == "Program"
			c.Verdict(onlyProgram, "C14-R5", key, pos(c, is), "skips other programs' metrics only",
				"an existing metric of the same name and program is not treated as the previous version because its "+strings.Join(fields, "/")+" differs: after such an edit (declaration moved to another line, value type changed) the old series stays in the store next to the new one — two series with the same name and labels from one program")
		}
		if nskip == 0 {
			c.Fail("C14-R5", storeAdd+"|program filter", pos(c, scan), "the scan for the previous version does not skip metrics of other programs: a reload replaces another program's metric")
		}
		// R6
		c.Verdict(coll != "" && !strings.Contains(coll, "("), "C14-R6", storeAdd+"|scan collection", pos(c, scan), "scan ranges directly over "+coll, "the scan ranges over a derived collection ("+coll+"): its index is not an index into the stored slice")
		nsplice := 0
		core.InspectNoLit(add.Body, func(n ast.Node) bool {
			as, ok := n.(*ast.AssignStmt)
			if !ok || len(as.Rhs) != 1 {
				return true
			}
			call, ok := core.Unparen(as.Rhs[0]).(*ast.CallExpr)
			if !ok || add.CalleeID(call) != "builtin.append" || len(call.Args) != 2 || !call.Ellipsis.IsValid() {
				return true
			}
			s0, ok0 := core.Unparen(call.Args[0]).(*ast.SliceExpr)
			s1, ok1 := core.Unparen(call.Args[1]).(*ast.SliceExpr)
			if !ok0 || !ok1 {
				return true
			}
			nsplice++
			lhs := exprStr(as.Lhs[0])
			hi := s0.High
			lo1 := strings.ReplaceAll(exprStr(s1.Low), " ", "")
			okShape := exprStr(s0.X) == lhs && exprStr(s1.X) == lhs && lhs == coll && hi != nil && identObj(add.Info(), hi) == dupe && lo1 == dupe.Name()+"+1" && (s0.Low == nil || exprStr(s0.Low) == "0") && s1.High == nil
			c.Verdict(okShape, "C14-R6", storeAdd+"|removal", pos(c, as), "removes element "+dupe.Name()+" of "+coll, "the removal does not delete exactly element "+dupe.Name()+" of the slice that was scanned ("+coll+"): got "+exprStr(as.Rhs[0])+" assigned to "+lhs)
			guarded := false
			for _, ic := range add.EnclosingIfs(as.Pos()) {
				cond := strings.ReplaceAll(exprStr(ic.If.Cond), " ", "")
				if ic.InThen && (cond == dupe.Name()+">=0" || cond == dupe.Name()+">-1" || cond == dupe.Name()+"!=-1") {
					guarded = true
				}
			}
			c.Verdict(guarded, "C14-R6", storeAdd+"|removal guard", pos(c, as), "only when a previous version was found", "the removal is not guarded by "+dupe.Name()+" >= 0")
			return true
		})
		if nsplice == 0 {
			c.Fail("C14-R6", storeAdd+"|removal", pos(c, add.Decl), "the previous version is never removed from the store: every reload adds a duplicate series")
		}
		// initial value -1 and only assigned from the range key
		okInit, okAssign := false, true
		core.InspectNoLit(add.Body, func(n ast.Node) bool {
			as, ok := n.(*ast.AssignStmt)
			if !ok {
				return true
			}
			for i, l := range as.Lhs {
				if identObj(add.Info(), l) != dupe || len(as.Rhs) != len(as.Lhs) {
					continue
				}
				if as.Tok == token.DEFINE {
					v, isC := constInt(add.Info(), as.Rhs[i])
					okInit = isC && v == -1
				} else if identObj(add.Info(), as.Rhs[i]) != identObj(add.Info(), scan.Key) {
					okAssign = false
				}
			}
			return true
		})
		c.Verdict(okInit && okAssign, "C14-R6", storeAdd+"|index provenance", pos(c, scan), "starts at -1, set only from the scan's index", "the duplicate index does not start at -1 or is assigned from something other than the scan's own index")
		// the append of the new metric
		appended := false
		core.InspectNoLit(add.Body, func(n ast.Node) bool {
			as, ok := n.(*ast.AssignStmt)
			if !ok || len(as.Rhs) != 1 {
				return true
			}
			if call, ok := core.Unparen(as.Rhs[0]).(*ast.CallExpr); ok && add.CalleeID(call) == "builtin.append" && len(call.Args) == 2 && !call.Ellipsis.IsValid() {
				if exprStr(as.Lhs[0]) == coll && exprStr(call.Args[0]) == coll && identObj(add.Info(), call.Args[1]) == mObj {
					appended = true
					// must be before the splice on every path: index stays valid because append adds at the end
					if p, ok := ag.PointOf(as); ok {
						if tr, found := pathAvoiding(ag, nil, core.ExitPoints(successExits(ag, add)), []core.Point{p}); found {
							c.Fail("C14-R6", storeAdd+"|append on success", pos(c, as), "Store.Add can return success without having stored the metric", tr...)
						}
					}
				}
			}
			return true
		})
		c.Verdict(appended, "C14-R6", storeAdd+"|append", pos(c, add.Decl), "new metric appended to "+coll, "the new metric is not appended to the per-name slice that is scanned and spliced")
	}
	c.Floor("C14-R5", 1)
	c.Floor("C14-R6", 5)
}

// successExits lists the normal exits that return a nil error (or nothing).
func successExits(g *core.Graph, f *core.Func) []core.Exit {
	var out []core.Exit
	for _, e := range normalExits(g) {
		if e.Kind != "return" || returnsNil(f.Info(), e.Ret) {
			out = append(out, e)
		}
	}
	return out
}

// comparedFields lists the field names F such that cond compares a.F with b.F
// (any comparison operator) for the two given objects.
func comparedFields(f *core.Func, cond ast.Expr, a, b types.Object) []string {
	var out []string
	ast.Inspect(cond, func(n ast.Node) bool {
		be, ok := n.(*ast.BinaryExpr)
		if !ok {
			return true
		}
		switch be.Op {
		case token.EQL, token.NEQ, token.LSS, token.GTR, token.LEQ, token.GEQ:
		default:
			return true
		}
		lx, ok1 := core.Unparen(be.X).(*ast.SelectorExpr)
		ly, ok2 := core.Unparen(be.Y).(*ast.SelectorExpr)
		if !ok1 || !ok2 || lx.Sel.Name != ly.Sel.Name {
			return true
		}
		ox, oy := identObj(f.Info(), lx.X), identObj(f.Info(), ly.X)
		if (ox == a && oy == b) || (ox == b && oy == a) {
			out = append(out, lx.Sel.Name)
		}
		return true
	})
	if len(out) == 0 {
		out = []string{exprStr(cond)}
	}
	return out
}
