package props

import (
	"fmt"
	"go/ast"
	"go/token"
	"go/types"
	"sort"
	"strings"

	"golang.org/x/tools/go/cfg"

	"verif/sa/core"
)

func init() { register("C14", c14) }

const storeAdd = "internal/metrics.(*Store).Add"

// c14IsHandleMap reports whether e is a map whose elements are pointers to a
// struct type declared in internal/runtime (Runtime.handles).
func c14IsHandleMap(info *types.Info, e ast.Expr) bool {
	t := info.TypeOf(e)
	if t == nil {
		return false
	}
	m, ok := t.Underlying().(*types.Map)
	if !ok {
		return false
	}
	return c14IsHandlePtr(m.Elem())
}

func c14IsHandlePtr(t types.Type) bool {
	p, ok := t.(*types.Pointer)
	if !ok {
		return false
	}
	n, ok := p.Elem().(*types.Named)
	if !ok || n.Obj().Pkg() == nil || core.Rel(n.Obj().Pkg().Path()) != "internal/runtime" {
		return false
	}
	_, isStruct := n.Underlying().(*types.Struct)
	return isStruct
}

// c14HandleOp classifies a node as an operation that ends or replaces a
// running version: close of a channel of log lines, delete from or store into
// the handle map.  Types decide, not names.
func c14HandleOp(f *core.Func, n ast.Node) bool {
	info := f.Info()
	switch x := n.(type) {
	case *ast.CallExpr:
		switch f.CalleeID(x) {
		case "builtin.close":
			return len(x.Args) == 1 && isChanOfLogLine(info, x.Args[0])
		case "builtin.delete":
			return len(x.Args) == 2 && c14IsHandleMap(info, x.Args[0])
		}
	case *ast.AssignStmt:
		for _, l := range x.Lhs {
			if ix, ok := core.Unparen(l).(*ast.IndexExpr); ok && c14IsHandleMap(info, ix.X) {
				return true
			}
		}
	}
	return false
}

func c14(c *core.Check) {
	c.Explain = "Decides structural necessary conditions of C14 in the loader and the metric store: (R1) compilation and every other effect of a load are reachable only when the running version is absent or its stored hash differs from the new one, the test dereferences the handle only when it exists, and it compares the stored hash with the value a successful load stores; (R2) no operation that ends or replaces the running version precedes a failing exit of the load; (R3) a struct copied field-by-field from an older value of the same type copies every field (pending expiry survives a reload); (R4) once one metric of the new version has been registered no failing exit is reachable; (R5) in Store.Add the only condition on which recognising an existing same-name metric as the previous version depends is equality of the Program fields — otherwise the old series stays next to the new one; (R6) the index used to remove the previous version is an index into the very slice it is removed from, and the removal is conditional on exactly that index having been set. Conditions are recognised in any boolean shape (if/else, early exit, tagless switch, negation, &&/||, single-assignment locals) through the CFG edges they label. All CFG paths of the current source are covered; what the compiler produces and label-copy semantics are not."
	c.Assume = append(c.Assume, "metric identity within one program is (name, program); Type/Source changes are edits of the same declaration",
		"a local variable with exactly one definition keeps the value of its defining expression (used to see through aliases of conditions and of the scanned slice)")
	car := c.MustFn("C14-R1", compileAndRun)
	add := c.MustFn("C14-R3", storeAdd)
	if car == nil || add == nil {
		return
	}
	g := car.Graph()
	info := car.Info()

	// functions of the loader package that (transitively) end/replace a handle or register a metric
	enderFuncs := c.Prog.Reaching(func(f *core.Func) bool {
		if core.Rel(f.Pkg.PkgPath) != "internal/runtime" {
			return false
		}
		found := false
		ast.Inspect(f.Body, func(n ast.Node) bool {
			if n != nil && c14HandleOp(f, n) {
				found = true
			}
			return !found
		})
		return found
	})
	for f := range handleEnders(c) {
		enderFuncs[f] = true
	}
	regFuncs := c.Prog.Reaching(func(f *core.Func) bool {
		if core.Rel(f.Pkg.PkgPath) != "internal/runtime" {
			return false
		}
		found := false
		ast.Inspect(f.Body, func(n ast.Node) bool {
			if call, ok := n.(*ast.CallExpr); ok && f.CalleeID(call) == storeAdd {
				found = true
			}
			return !found
		})
		return found
	})
	handleOps := g.Find(func(n ast.Node) bool {
		if c14HandleOp(car, n) {
			return true
		}
		if call, ok := n.(*ast.CallExpr); ok {
			if cf := car.CalleeFunc(call); cf != nil && cf != car && enderFuncs[cf] {
				return true
			}
		}
		return false
	})
	regOps := g.Calls(func(id string, call *ast.CallExpr) bool {
		if id == storeAdd {
			return true
		}
		cf := car.CalleeFunc(call)
		return cf != nil && cf != car && regFuncs[cf]
	})

	c.Rule("C14-R1", "UNCHANGED-FIRST: (dominates) the Compile call, and (unchanged does nothing) every store registration, handle end/replacement — direct or through a callee — is reachable only over a branch edge that implies `no handle is loaded, or bytes.Equal(stored hash, new hash) is false`; (needs loaded) the comparison dereferences the looked-up handle only where it is known to exist; (stored vs new) it compares the handle's hash field with the very value a successful load stores in that field")
	compiles := g.Calls(func(id string, _ *ast.CallExpr) bool { return strings.HasSuffix(id, "compiler.(*Compiler).Compile") })
	type eqTest struct {
		hit           core.Hit
		call          *ast.CallExpr
		hv, okObj     types.Object
		stored, fresh ast.Expr
		field         *types.Var
	}
	var eqs []eqTest
	for _, h := range g.CallsTo("bytes.Equal") {
		call := h.N.(*ast.CallExpr)
		if len(call.Args) != 2 {
			continue
		}
		for k := 0; k < 2; k++ {
			arg := hbResolve(car, call.Args[k])
			fld, x := hbFieldOf(info, arg)
			if fld == nil {
				continue
			}
			hv := identObj(info, x)
			if hv == nil || !c14IsHandlePtr(hv.Type()) {
				continue
			}
			t := eqTest{hit: h, call: call, hv: hv, stored: arg, fresh: call.Args[1-k], field: fld}
			// the comma-ok companion of the handle variable, if any
			core.InspectNoLit(car.Body, func(n ast.Node) bool {
				if as, ok := n.(*ast.AssignStmt); ok && len(as.Lhs) == 2 && len(as.Rhs) == 1 && identObj(info, as.Lhs[0]) == hv {
					if o := identObj(info, as.Lhs[1]); o != nil {
						if bt, isB := o.Type().Underlying().(*types.Basic); isB && bt.Info()&types.IsBoolean != 0 {
							t.okObj = o
						}
					}
				}
				return true
			})
			eqs = append(eqs, t)
			break
		}
	}
	switch {
	case len(compiles) == 0:
		c.Undecided("C14-R1", compileAndRun+"|dominates", pos(c, car.Decl), "no call of Compiler.Compile found in CompileAndRun (moved into a helper?)")
	case len(eqs) == 0:
		// is a comparison hidden in a helper?
		viaHelper := false
		eqFuncs := c.Prog.Reaching(func(f *core.Func) bool {
			return core.Rel(f.Pkg.PkgPath) == "internal/runtime" && exprCalls(f, f.Body, "bytes.Equal")
		})
		for _, cf := range car.Callees() {
			if eqFuncs[cf] && cf != car {
				viaHelper = true
			}
		}
		if viaHelper {
			c.Undecided("C14-R1", compileAndRun+"|dominates", pos(c, car.Decl), "no bytes.Equal on a handle's hash field in CompileAndRun itself; a callee compares bytes — shape not recognised")
		} else {
			c.Fail("C14-R1", compileAndRun, pos(c, car.Decl), fmt.Sprintf("compile calls: %d, unchanged-contents tests (bytes.Equal on a field of the looked-up handle): 0 — reloading identical source recompiles and restarts the program", len(compiles)))
		}
	default:
		// fact Q: "the program is not loaded, or its stored hash differs"
		changed := func(e ast.Expr) (bool, bool) {
			for _, t := range eqs {
				if e == ast.Expr(t.call) {
					return false, true
				}
				if t.okObj != nil && identObj(info, e) == t.okObj {
					return false, true
				}
				if x, isEq, ok := hbNilCmp(info, e); ok && identObj(info, x) == t.hv {
					return isEq, !isEq
				}
			}
			return false, false
		}
		tr, found := hbUnguardedPath(g, nil, core.HitPoints(compiles), changed)
		c.Verdict(!found, "C14-R1", compileAndRun+"|dominates", pos(c, compiles[0].N), "Compile only where the contents are known to differ or nothing is loaded", "the program can be compiled (and then swapped in) on a path on which the contents were not found to differ from the loaded version: identical source restarts the VM", tr...)
		effects := append(append(core.HitPoints(compiles), core.HitPoints(regOps)...), core.HitPoints(handleOps)...)
		tr, found = hbUnguardedPath(g, nil, effects, changed)
		c.Verdict(!found, "C14-R1", compileAndRun+"|unchanged does nothing", pos(c, eqs[0].call), fmt.Sprintf("none of the %d effects is reachable on the unchanged path", len(effects)), "with unchanged contents the load still compiles, registers metrics or ends/replaces the handle", tr...)
		for i, t := range eqs {
			sfx := ""
			if i > 0 {
				sfx = fmt.Sprintf("#%d", i+1)
			}
			// fact: the handle variable is non-nil
			loaded := func(e ast.Expr) (bool, bool) {
				if t.okObj != nil && identObj(info, e) == t.okObj {
					return true, false
				}
				if x, isEq, ok := hbNilCmp(info, e); ok && identObj(info, x) == t.hv {
					return !isEq, isEq
				}
				return false, false
			}
			guarded := false
			var wtr []string
			if p, ok := g.PointOf(t.call); ok {
				var root ast.Expr
				switch n := p.Node().(type) {
				case ast.Expr:
					root = n
				case *ast.AssignStmt:
					for _, r := range n.Rhs {
						if r.Pos() <= t.call.Pos() && t.call.End() <= r.End() {
							root = r
						}
					}
				}
				if root != nil && hbShortCircuit(car, root, t.call, loaded) {
					guarded = true
				} else {
					tr, unguarded := hbUnguardedPath(g, nil, []core.Point{p}, loaded)
					guarded, wtr = !unguarded, tr
				}
			}
			c.Verdict(guarded, "C14-R1", compileAndRun+"|needs loaded"+sfx, pos(c, t.call), "the handle's hash is read only for a loaded program", "the unchanged test reads the hash of the looked-up handle where the handle is not known to exist: the first load of a program dereferences a nil handle", wtr...)
			// stored vs new
			okStore, seen := c14StoresFresh(car, t.field, t.fresh, t.hv.Type())
			key := compileAndRun + "|stored vs new" + sfx
			switch {
			case okStore:
				c.Ok("C14-R1", key, pos(c, t.call), "compares handle."+t.field.Name()+" with the value installed as "+t.field.Name()+" of the new handle")
			case !seen:
				c.Undecided("C14-R1", key, pos(c, t.call), "no handle literal setting "+t.field.Name()+" found in CompileAndRun or a direct callee")
			default:
				c.Fail("C14-R1", key, pos(c, t.call), "the unchanged test compares the running version's "+t.field.Name()+" with "+exprStr(t.fresh)+", which is not what a successful load stores in that field: identical source is reloaded every time, or changed source never is")
			}
		}
	}
	c.Floor("C14-R1", 4)

	c.Rule("C14-R2", "FAILURE-KEEPS-RUNNING: shared with C26-R3 — no handle-ending operation (close of a line channel, delete from / store into the handle map, directly or via a callee) reaches a failing exit of CompileAndRun")
	{
		errRets := hbFailingExits(g)
		bad := false
		for i, o := range handleOps {
			from := o.P
			if tr, found := pathAvoiding(g, &from, errRets, nil); found {
				bad = true
				c.Fail("C14-R2", fmt.Sprintf("%s|op#%d", compileAndRun, i+1), pos(c, o.N), "the previous version is stopped or replaced before the load is known to succeed: a load refused afterwards leaves no version running while its metrics stay exported but frozen", tr...)
			}
		}
		if !bad {
			c.Ok("C14-R2", compileAndRun, pos(c, car.Decl), fmt.Sprintf("%d handle-ending operations, %d failing exits, none ordered badly", len(handleOps), len(errRets)))
		}
		if len(handleOps) == 0 {
			c.Undecided("C14-R2", compileAndRun+"|ops", pos(c, car.Decl), "no handle swap found")
		}
	}
	c.Floor("C14-R2", 1)

	c.Rule("C14-R3", "COPY-COMPLETE: a value of a module struct type T built by a keyed composite literal (plus field assignments to the variable it initialises) in which some field f is taken from X.f of another T value is a field-wise copy and must set every field of T (LabelValue: Labels, Value, Expiry)")
	c14Copies(c)
	c.Floor("C14-R3", 1)

	c.Rule("C14-R4", "ATOMIC-REGISTRATION: in CompileAndRun (and in a helper of the loader that registers), from the success edge of the test of a Store.Add result no failing exit is reachable (otherwise the k-th refusal leaves k-1 metrics of the new version swapped into the store while the old version keeps running on orphaned metrics)")
	{
		type regSite struct {
			f      *core.Func
			call   *ast.CallExpr
			direct bool // a call of Store.Add itself (not of a helper that registers)
		}
		var sites []regSite
		for _, h := range regOps {
			call := h.N.(*ast.CallExpr)
			sites = append(sites, regSite{car, call, car.CalleeID(call) == storeAdd})
		}
		// helpers of the loader that call Store.Add directly
		var helpers []*core.Func
		for f := range regFuncs {
			if f != car && f.Lit == nil && reachableFrom(car, f) {
				helpers = append(helpers, f)
			}
		}
		sort.Slice(helpers, func(i, j int) bool { return helpers[i].Key < helpers[j].Key })
		for _, hf := range helpers {
			c.Analysed(hf)
			for _, h := range hf.Graph().CallsTo(storeAdd) {
				sites = append(sites, regSite{hf, h.N.(*ast.CallExpr), true})
			}
		}
		// the construct is "the k-th Store.Add call of the load started by CompileAndRun",
		// wherever the call lives (CompileAndRun first, then its helpers by key)
		nAdd, nVia := 0, 0
		for _, s := range sites {
			var key string
			if s.direct {
				nAdd++
				key = fmt.Sprintf("%s|ms.Add#%d", compileAndRun, nAdd)
			} else {
				nVia++
				key = fmt.Sprintf("%s|registers via callee#%d", compileAndRun, nVia)
			}
			sg := s.f.Graph()
			site, errOnTrue, found, propagated := hbErrTest(s.f, sg, s.call)
			if propagated {
				c.Ok("C14-R4", key, pos(c, s.call), "the registration result is returned as it is: nothing follows a success in "+s.f.Key)
				continue
			}
			if !found {
				c.Fail("C14-R4", key+"|result ignored", pos(c, s.call), "the result of the registration is not tested: a refused metric is ignored and the program runs with unexported metrics")
				continue
			}
			tr, bad := pathAvoiding(sg, hbBranch(site, !errOnTrue), hbFailingExits(sg), nil)
			c.Verdict(!bad, "C14-R4", key, pos(c, s.call), "no failing exit after a successful registration", "after one metric of the new version has replaced its predecessor in the store the load can still fail (next Add refused): the export is no longer as it was and the still-running old version updates metrics that are no longer exported", tr...)
		}
	}
	c.Floor("C14-R4", 1)

	c14Store(c, add)
}

// reachableFrom reports whether to is reached from from through statically resolved calls.
func reachableFrom(from, to *core.Func) bool {
	seen := map[*core.Func]bool{}
	var walk func(f *core.Func) bool
	walk = func(f *core.Func) bool {
		if f == to {
			return true
		}
		if seen[f] {
			return false
		}
		seen[f] = true
		for _, cf := range f.Callees() {
			if walk(cf) {
				return true
			}
		}
		return false
	}
	return walk(from)
}

// c14StoresFresh looks for a composite literal of the handle struct that sets
// field to the same value as fresh: in f itself (same object / same
// expression), or in a direct callee of f that receives fresh as an argument
// and stores the corresponding parameter.  seen reports whether any literal
// setting the field was found at all.
func c14StoresFresh(f *core.Func, field *types.Var, fresh ast.Expr, handleT types.Type) (ok, seen bool) {
	info := f.Info()
	litSets := func(in *core.Func, match func(v ast.Expr) bool) {
		ast.Inspect(in.Body, func(n ast.Node) bool {
			lit, isLit := n.(*ast.CompositeLit)
			if !isLit {
				return true
			}
			for _, el := range lit.Elts {
				kv, isKV := el.(*ast.KeyValueExpr)
				if !isKV {
					continue
				}
				if id, isId := kv.Key.(*ast.Ident); isId && in.Info().Uses[id] == types.Object(field) {
					seen = true
					if match(kv.Value) {
						ok = true
					}
				}
			}
			return true
		})
		// field assignment form h.field = v
		ast.Inspect(in.Body, func(n ast.Node) bool {
			as, isAs := n.(*ast.AssignStmt)
			if !isAs || len(as.Lhs) != len(as.Rhs) {
				return true
			}
			for i, l := range as.Lhs {
				if fv, _ := hbFieldOf(in.Info(), l); fv == field {
					seen = true
					if match(as.Rhs[i]) {
						ok = true
					}
				}
			}
			return true
		})
	}
	freshR := hbResolve(f, fresh)
	litSets(f, func(v ast.Expr) bool {
		return hbSameExpr(info, hbResolve(f, v), freshR) && !hbHasCall(freshR) || (identObj(info, v) != nil && identObj(info, v) == identObj(info, fresh))
	})
	if ok {
		return
	}
	// one level of callee
	ast.Inspect(f.Body, func(n ast.Node) bool {
		call, isCall := n.(*ast.CallExpr)
		if !isCall {
			return true
		}
		cf := f.CalleeFunc(call)
		if cf == nil || cf == f {
			return true
		}
		for i, a := range call.Args {
			if identObj(info, a) == nil || identObj(info, a) != identObj(info, fresh) {
				continue
			}
			po := hbParam(cf, i)
			if po == nil {
				continue
			}
			litSets(cf, func(v ast.Expr) bool { return identObj(cf.Info(), v) == po })
		}
		return true
	})
	return
}

// c14Copies checks R3 on every shipped function and returns the number of copies found.
func c14Copies(c *core.Check) int {
	ncopy := 0
	for _, sf := range shipped(c) {
		info := sf.Info()
		core.InspectNoLit(sf.Body, func(n ast.Node) bool {
			lit, ok := n.(*ast.CompositeLit)
			if !ok {
				return true
			}
			t := info.TypeOf(lit)
			if t == nil {
				return true
			}
			named, _ := t.(*types.Named)
			if named == nil || named.Obj().Pkg() == nil || !strings.HasPrefix(named.Obj().Pkg().Path(), core.ModPath) {
				return true
			}
			st, ok := named.Underlying().(*types.Struct)
			if !ok {
				return true
			}
			set := map[*types.Var]bool{}
			var srcs []string
			// source detection: value is X.f for the same field f of another T
			note := func(field *types.Var, val ast.Expr) {
				set[field] = true
				fv, x := hbFieldOf(info, val)
				if fv == nil || fv != field {
					return
				}
				xt := info.TypeOf(x)
				if p, ok := xt.(*types.Pointer); ok {
					xt = p.Elem()
				}
				if xt != nil && types.Identical(xt, named) {
					srcs = append(srcs, core.PathOf(x))
				}
			}
			for _, el := range lit.Elts {
				kv, ok := el.(*ast.KeyValueExpr)
				if !ok {
					return true // positional literal: the compiler demands every field
				}
				id, _ := kv.Key.(*ast.Ident)
				fv, _ := info.Uses[id].(*types.Var)
				if id == nil || fv == nil {
					return true
				}
				note(fv, kv.Value)
			}
			// field assignments to the variable the literal initialises
			var owner types.Object
			core.InspectNoLit(sf.Body, func(x ast.Node) bool {
				as, ok := x.(*ast.AssignStmt)
				if !ok || len(as.Lhs) != len(as.Rhs) {
					return true
				}
				for i, r := range as.Rhs {
					r = core.Unparen(r)
					if u, ok := r.(*ast.UnaryExpr); ok && u.Op == token.AND {
						r = core.Unparen(u.X)
					}
					if r == ast.Expr(lit) {
						owner = identObj(info, as.Lhs[i])
					}
				}
				return true
			})
			if owner != nil && hbSingleDef(sf, owner) != nil {
				core.InspectNoLit(sf.Body, func(x ast.Node) bool {
					as, ok := x.(*ast.AssignStmt)
					if !ok || len(as.Lhs) != len(as.Rhs) {
						return true
					}
					for i, l := range as.Lhs {
						if fv, base := hbFieldOf(info, l); fv != nil && identObj(info, base) == owner {
							note(fv, as.Rhs[i])
						}
					}
					return true
				})
			}
			if len(srcs) == 0 {
				return true
			}
			ncopy++
			c.Analysed(sf)
			var missing []string
			for i := 0; i < st.NumFields(); i++ {
				if !set[st.Field(i)] {
					missing = append(missing, st.Field(i).Name())
				}
			}
			key := fmt.Sprintf("%s|copy of %s from %s", sf.Key, named.Obj().Name(), srcs[0])
			c.Verdict(len(missing) == 0, "C14-R3", key, pos(c, lit), "all fields copied", "a "+named.Obj().Name()+" is rebuilt from an older one but field(s) "+strings.Join(missing, ", ")+" are dropped: state carried by them (a pending `del … after` expiry) is lost on reload")
			return true
		})
	}
	return ncopy
}

// c14Scan is the loop of Store.Add that looks for the previous version.
type c14Scan struct {
	*hbLoop
	stmt   ast.Stmt       // the loop statement
	body   *ast.BlockStmt //
	key    types.Object   // index variable
	x      ast.Expr       // the collection as written in the loop
	coll   ast.Expr       // the collection with local aliases resolved
	dupe   types.Object   // the duplicate-index variable
	assign *ast.AssignStmt
}

// c14FindScan finds an index-order loop over a slice (range or canonical for)
// in which the loop's index is assigned to a variable.
func c14FindScan(add *core.Func) *c14Scan {
	info := add.Info()
	var res *c14Scan
	core.InspectNoLit(add.Body, func(n ast.Node) bool {
		if res != nil {
			return false
		}
		lp := hbLoopOf(add, n)
		if lp == nil {
			return true
		}
		sc := &c14Scan{hbLoop: lp, stmt: lp.Stmt, body: lp.Body, key: lp.Key, x: lp.X, coll: lp.Coll}
		core.InspectNoLit(sc.body, func(x ast.Node) bool {
			as, ok := x.(*ast.AssignStmt)
			if !ok || as.Tok != token.ASSIGN || len(as.Lhs) != 1 || len(as.Rhs) != 1 || sc.assign != nil {
				return true
			}
			if identObj(info, as.Rhs[0]) == sc.key {
				if d := identObj(info, as.Lhs[0]); d != nil {
					sc.dupe, sc.assign = d, as
				}
			}
			return true
		})
		if sc.dupe != nil {
			res = sc
		}
		return true
	})
	return res
}

// c14Leaf is a leaf condition together with the truth value it has on the way to the duplicate-index assignment.
type c14Leaf struct {
	e    ast.Expr
	pol  bool
	disj bool // the leaf is an undecomposable disjunction
}

// c14Leaves decomposes "cond has truth value pol" into the leaves that are then known.
func c14Leaves(f *core.Func, cond ast.Expr, pol bool, depth int) []c14Leaf {
	e := core.Unparen(cond)
	if depth > 8 {
		return []c14Leaf{{e: e, pol: pol}}
	}
	switch x := e.(type) {
	case *ast.UnaryExpr:
		if x.Op == token.NOT {
			return c14Leaves(f, x.X, !pol, depth+1)
		}
	case *ast.BinaryExpr:
		if (x.Op == token.LAND && pol) || (x.Op == token.LOR && !pol) {
			return append(c14Leaves(f, x.X, pol, depth+1), c14Leaves(f, x.Y, pol, depth+1)...)
		}
		if x.Op == token.LAND || x.Op == token.LOR {
			return []c14Leaf{{e: e, pol: pol, disj: true}}
		}
	case *ast.Ident:
		if def := hbSingleDef(f, identObj(f.Info(), x)); def != nil {
			return c14Leaves(f, def, pol, depth+1)
		}
	}
	return []c14Leaf{{e: e, pol: pol}}
}

func c14Store(c *core.Check, add *core.Func) {
	ag := add.Graph()
	info := add.Info()
	c.Rule("C14-R5", "ONE-PER-(NAME,PROGRAM): in Store.Add's scan for the previous version, every branch on which reaching the assignment of the duplicate index depends (if/continue, if/break, switch case, enclosing if, in any polarity) demands equality of the Program fields of the scanned and the new metric and nothing else")
	c.Rule("C14-R6", "INDEX-COHERENT: the duplicate index is assigned only from the index of a loop over the stored per-name slice X (directly or through a single-definition alias), the removal is `X = append(X[:d], X[d+1:]...)` (or slices.Delete(X, d, d+1)) on that X, it is reachable only over an edge implying d >= 0, d starts at -1, and the new metric is appended to X on every successful path")
	sc := c14FindScan(add)
	mObj := hbParam(add, 0)
	if sc == nil || mObj == nil {
		c.Undecided("C14-R6", storeAdd+"|scan", pos(c, add.Decl), "no loop assigning its index to a duplicate-index variable found in Store.Add")
		c.Floor("C14-R5", 1)
		c.Floor("C14-R6", 6)
		return
	}
	dupe := sc.dupe
	coll := exprStr(sc.coll)

	// R5: restrictive branch sites between the start of an iteration and the assignment
	head, body, _ := loopBlocks(ag, sc.stmt)
	ap, okAp := ag.PointOf(sc.assign)
	if head == nil || body == nil || !okAp {
		c.Undecided("C14-R5", storeAdd+"|scan", pos(c, sc.stmt), "cannot locate the scan loop in the CFG")
	} else {
		avoidHead := func(b *cfg.Block, si int) bool { return b.Succs[si] == head }
		reaches := func(b *cfg.Block) bool {
			if b == ap.B {
				return true
			}
			_, ok := ag.Search(core.Query{From: &core.Point{B: b, I: -1}, Goal: core.At(ap), AvoidEdge: avoidHead})
			return ok
		}
		fromBody := func(b *cfg.Block) bool {
			if b == body {
				return true
			}
			_, ok := ag.Search(core.Query{From: &core.Point{B: body, I: -1}, Goal: func(p core.Point) bool { return p.B == b }, AvoidEdge: avoidHead})
			return ok
		}
		fieldCmp := func(e ast.Expr) (field string, isEq, ok bool) {
			be, isB := core.Unparen(e).(*ast.BinaryExpr)
			if !isB {
				return "", false, false
			}
			fx, bx := hbFieldOf(info, be.X)
			fy, by := hbFieldOf(info, be.Y)
			if fx == nil || fy == nil || fx != fy {
				return "", false, false
			}
			pair := (sc.IsElem(add, bx) && identObj(info, by) == mObj) || (sc.IsElem(add, by) && identObj(info, bx) == mObj)
			if !pair {
				return "", false, false
			}
			switch be.Op {
			case token.EQL:
				return fx.Name(), true, true
			case token.NEQ:
				return fx.Name(), false, true
			}
			return fx.Name(), false, false
		}
		needsProgram := false
		nsites := 0
		var sites []hbSite
		for _, s := range hbSites(ag) {
			if s.Cond.Pos() < sc.body.Pos() || s.Cond.End() > sc.body.End() || s.Cond.Pos() > sc.assign.Pos() {
				continue
			}
			sites = append(sites, s)
		}
		sort.Slice(sites, func(i, j int) bool { return sites[i].Cond.Pos() < sites[j].Cond.Pos() })
		for _, s := range sites {
			if !fromBody(s.B) {
				continue
			}
			rt, rf := reaches(s.B.Succs[0]), reaches(s.B.Succs[1])
			if rt == rf {
				continue // the assignment does not depend on this branch
			}
			nsites++
			for _, lf := range c14Leaves(add, s.Cond, rt, 0) {
				field, isEq, ok := fieldCmp(lf.e)
				switch {
				case lf.disj && !fieldUsed(info, lf.e, "metrics.Metric", "Program"):
					// whichever operand is demanded, none of them is about the program: an extra reason to skip
					c.Fail("C14-R5", storeAdd+"|skip on "+exprStr(lf.e), pos(c, lf.e), fmt.Sprintf("recognising the previous version additionally depends on `%s` (a compound condition that does not concern the program): an existing metric of the same name and program for which it decides `skip` stays in the store next to the new one — two series with the same name and labels from one program", exprStr(lf.e)))
				case lf.disj:
					c.Undecided("C14-R5", storeAdd+"|skip on "+exprStr(lf.e), pos(c, lf.e), "the previous version is recognised only when a disjunction holds; which of its operands is demanded is not decided")
				case ok && isEq == lf.pol && field == "Program":
					needsProgram = true
					c.Ok("C14-R5", storeAdd+"|skip on Program", pos(c, lf.e), "skips other programs' metrics only")
				case ok && isEq == lf.pol:
					c.Fail("C14-R5", storeAdd+"|skip on "+field, pos(c, lf.e), "an existing metric of the same name and program is not treated as the previous version because its "+field+" differs: after such an edit (declaration moved to another line, value type changed) the old series stays in the store next to the new one — two series with the same name and labels from one program")
				case ok:
					c.Fail("C14-R5", storeAdd+"|skip on equal "+field, pos(c, lf.e), "an existing metric is treated as the previous version only when its "+field+" DIFFERS from the new metric's: the program's own previous version is kept as a duplicate and another program's metric is replaced")
				default:
					c.Fail("C14-R5", storeAdd+"|skip on "+exprStr(lf.e), pos(c, lf.e), fmt.Sprintf("recognising the previous version additionally depends on `%s` being %v: an existing metric of the same name and program for which it is not stays in the store next to the new one", exprStr(lf.e), lf.pol))
				}
			}
		}
		if !needsProgram && hbHasCall(sc.coll) {
			c.Undecided("C14-R5", storeAdd+"|program filter", pos(c, sc.stmt), "the scan ranges over a derived collection ("+coll+"); whether the derivation filters by Program is not decided here (see C14-R6 scan collection)")
		} else if !needsProgram {
			c.Fail("C14-R5", storeAdd+"|program filter", pos(c, sc.stmt), "the scan for the previous version does not demand the same Program: a reload replaces another program's metric")
		}
		c.Extra["c14_scan_restrictive_branches"] = nsites
	}

	// R6
	c.Verdict(!hbHasCall(sc.coll), "C14-R6", storeAdd+"|scan collection", pos(c, sc.stmt), "scan ranges directly over "+coll, "the scan ranges over a derived collection ("+coll+"): its index is not an index into the stored slice")
	isDupePlus1 := func(e ast.Expr) bool {
		be, ok := core.Unparen(e).(*ast.BinaryExpr)
		if !ok || be.Op != token.ADD {
			return false
		}
		if identObj(info, be.X) == dupe {
			v, isC := constInt(info, be.Y)
			return isC && v == 1
		}
		if identObj(info, be.Y) == dupe {
			v, isC := constInt(info, be.X)
			return isC && v == 1
		}
		return false
	}
	// the index is -1 or a valid index >= 0.  A comparison with a constant that
	// is false at -1 implies d >= 0 when it is true; one that is true at -1
	// implies d >= 0 when it is false.
	nonNeg := func(e ast.Expr) (bool, bool) {
		op, cv, ok := hbCmpConst(info, e, dupe)
		if !ok {
			return false, false
		}
		atM1 := hbEvalCmp(-1, op, cv)
		return !atM1, atM1
	}
	// fact "d == -1 (nothing found)": implied by a comparison being true when it is
	// false for every index >= 0, and by its being false when it is true for every index >= 0
	notFound := func(e ast.Expr) (bool, bool) {
		op, cv, ok := hbCmpConst(info, e, dupe)
		if !ok {
			return false, false
		}
		all, none := true, true
		for _, v := range []int64{0, 1, 2, 3, 1 << 40} {
			if hbEvalCmp(v, op, cv) {
				none = false
			} else {
				all = false
			}
		}
		return none, all
	}
	var splicePts []core.Point
	nsplice := 0
	core.InspectNoLit(add.Body, func(n ast.Node) bool {
		as, ok := n.(*ast.AssignStmt)
		if !ok || len(as.Rhs) != 1 || len(as.Lhs) != 1 {
			return true
		}
		call, ok := core.Unparen(as.Rhs[0]).(*ast.CallExpr)
		if !ok {
			return true
		}
		lhs := as.Lhs[0]
		okShape, isSplice := false, false
		switch add.CalleeID(call) {
		case "builtin.append":
			if len(call.Args) != 2 || !call.Ellipsis.IsValid() {
				return true
			}
			s0, ok0 := core.Unparen(call.Args[0]).(*ast.SliceExpr)
			s1, ok1 := core.Unparen(call.Args[1]).(*ast.SliceExpr)
			if !ok0 || !ok1 {
				return true
			}
			isSplice = true
			lowZero := s0.Low == nil
			if v, isC := constInt(info, s0.Low); s0.Low != nil && isC && v == 0 {
				lowZero = true
			}
			okShape = hbSameExpr(info, s0.X, lhs) && hbSameExpr(info, s1.X, lhs) && hbSameExpr(info, lhs, sc.coll) &&
				s0.High != nil && identObj(info, s0.High) == dupe && lowZero && s0.Max == nil &&
				s1.Low != nil && isDupePlus1(s1.Low) && s1.High == nil
		case "slices.Delete":
			if len(call.Args) != 3 {
				return true
			}
			isSplice = true
			okShape = hbSameExpr(info, call.Args[0], lhs) && hbSameExpr(info, lhs, sc.coll) && identObj(info, call.Args[1]) == dupe && isDupePlus1(call.Args[2])
		}
		if !isSplice {
			return true
		}
		nsplice++
		c.Verdict(okShape, "C14-R6", storeAdd+"|removal", pos(c, as), "removes element "+dupe.Name()+" of "+coll, "the removal does not delete exactly element "+dupe.Name()+" of the slice that was scanned ("+coll+"): got "+exprStr(as.Rhs[0])+" assigned to "+exprStr(lhs))
		if p, ok := ag.PointOf(as); ok {
			splicePts = append(splicePts, p)
			tr, unguarded := hbUnguardedPath(ag, nil, []core.Point{p}, nonNeg)
			c.Verdict(!unguarded, "C14-R6", storeAdd+"|removal guard", pos(c, as), "only when a previous version was found", "the removal can run while "+dupe.Name()+" is still -1 (no previous version found): slicing with -1 panics, or the wrong element is removed", tr...)
		} else {
			c.Undecided("C14-R6", storeAdd+"|removal guard", pos(c, as), "removal not found in the CFG")
		}
		return true
	})
	if nsplice == 0 {
		c.Fail("C14-R6", storeAdd+"|removal", pos(c, add.Decl), "the previous version is never removed from the store: every reload adds a duplicate series")
	} else {
		// completeness: a successful exit that skips the removal is reachable only over an edge implying "nothing found"
		tr, found := ag.Search(core.Query{Goal: core.At(core.ExitPoints(successExits(ag, add))...), Avoid: core.At(splicePts...), AvoidEdge: hbAvoid(hbEdges(ag, notFound))})
		c.Verdict(!found, "C14-R6", storeAdd+"|removal complete", pos(c, sc.stmt), "every found index leads to the removal", "Store.Add can return success without removing a previous version that was found (for instance the one at index 0): the old series stays next to the new one", ag.Trail(tr)...)
	}
	// initial value -1 and only assigned from the scan's index
	okInit, okAssign := false, true
	core.InspectNoLit(add.Body, func(n ast.Node) bool {
		switch s := n.(type) {
		case *ast.AssignStmt:
			for i, l := range s.Lhs {
				if identObj(info, l) != dupe {
					continue
				}
				if len(s.Rhs) != len(s.Lhs) {
					okAssign = false
					continue
				}
				if s.Tok == token.DEFINE {
					v, isC := constInt(info, s.Rhs[i])
					okInit = isC && v == -1
				} else if s.Tok != token.ASSIGN || identObj(info, s.Rhs[i]) != sc.key || s.Pos() < sc.body.Pos() || s.End() > sc.body.End() {
					okAssign = false
				}
			}
		case *ast.ValueSpec:
			for i, name := range s.Names {
				if info.Defs[name] == dupe && len(s.Values) == len(s.Names) {
					v, isC := constInt(info, s.Values[i])
					okInit = isC && v == -1
				}
			}
		case *ast.IncDecStmt:
			if identObj(info, s.X) == dupe {
				okAssign = false
			}
		}
		return true
	})
	c.Verdict(okInit && okAssign, "C14-R6", storeAdd+"|index provenance", pos(c, sc.stmt), "starts at -1, set only from the scan's index", "the duplicate index does not start at -1 or is assigned from something other than the scan's own index")
	// the append of the new metric
	appended := false
	core.InspectNoLit(add.Body, func(n ast.Node) bool {
		as, ok := n.(*ast.AssignStmt)
		if !ok || len(as.Rhs) != 1 || len(as.Lhs) != 1 {
			return true
		}
		if call, ok := core.Unparen(as.Rhs[0]).(*ast.CallExpr); ok && add.CalleeID(call) == "builtin.append" && len(call.Args) == 2 && !call.Ellipsis.IsValid() {
			if hbSameExpr(info, as.Lhs[0], sc.coll) && hbSameExpr(info, call.Args[0], sc.coll) && identObj(info, call.Args[1]) == mObj {
				appended = true
				if p, ok := ag.PointOf(as); ok {
					if tr, found := pathAvoiding(ag, nil, core.ExitPoints(successExits(ag, add)), []core.Point{p}); found {
						c.Fail("C14-R6", storeAdd+"|append on success", pos(c, as), "Store.Add can return success without having stored the metric", tr...)
					}
				}
			}
		}
		return true
	})
	c.Verdict(appended, "C14-R6", storeAdd+"|append", pos(c, add.Decl), "new metric appended to "+coll, "the new metric is not appended to the per-name slice that is scanned and spliced")
	c.Floor("C14-R5", 1)
	c.Floor("C14-R6", 6)
}

// successExits lists the normal exits that return a nil error (or nothing).
func successExits(g *core.Graph, f *core.Func) []core.Exit {
	var out []core.Exit
	for _, e := range normalExits(g) {
		if e.Kind != "return" || returnsNil(f.Info(), e.Ret) {
			out = append(out, e)
		}
	}
	return out
}
